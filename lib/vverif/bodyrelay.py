"""Shared pieces of the end-to-end body relaying checks (C01 response bodies, C02 request bodies).

Only driver-side code: boundary sizes read from the built tree, the period-251 body pattern, chunk
layouts, segmentation (cut) generators, a back-pressure-safe piecewise sender, and a strict decoder of
"what a truncated sender actually conveyed".  Nothing here looks at Squid's opinion of a message.
"""
import hashlib
import os
import re
import socket

from . import httpref
from .core import HarnessError

PERIOD = 251


def pattern(version, n):
    """byte i of version v = (37 v + i) mod 251: any shift, loss, duplication or mix of versions shows."""
    return httpref.body_pattern(version, n)


def first_diff(a, b):
    n = min(len(a), len(b))
    if a[:n] == b[:n]:
        return n if len(a) != len(b) else -1
    lo, hi = 0, n
    while hi - lo > 1:          # binary search for the first differing offset
        mid = (lo + hi) // 2
        if a[:mid] == b[:mid]:
            lo = mid
        else:
            hi = mid
    return lo


def describe_diff(got, want):
    d = first_diff(got, want)
    if d < 0:
        return 'equal'
    return 'lengths got %d want %d, first difference at offset %d (got %r want %r)' % (
        len(got), len(want), d, got[d:d + 8], want[d:d + 8])


def sha(b):
    return hashlib.sha1(b).hexdigest()[:12]


# ------------------------------------------------------------------ boundary set B

def tree_constants(tree):
    """Buffer-size constants of the *built tree* (falls back to the documented defaults)."""
    out = {'SM_PAGE_SIZE': 4096, 'CLIENT_REQ_BUF_SZ': 4096, 'SQUID_TCP_SO_RCVBUF': 65535, 'read_ahead_gap': 16384,
           'maximum_object_size_in_memory': 512 * 1024, 'client_request_buffer_max_size': 512 * 1024}

    def grab(path, rx, key, mult=1):
        try:
            with open(os.path.join(tree, path), 'r', errors='replace') as f:
                m = re.search(rx, f.read(), re.M | re.S)
            if m:
                out[key] = int(m.group(1)) * mult
        except OSError:
            pass
    grab('src/defines.h', r'^#define\s+SM_PAGE_SIZE\s+(\d+)', 'SM_PAGE_SIZE')
    grab('src/defines.h', r'^#define\s+CLIENT_REQ_BUF_SZ\s+(\d+)', 'CLIENT_REQ_BUF_SZ')
    grab('include/autoconf.h', r'^#define\s+SQUID_TCP_SO_RCVBUF\s+(\d+)', 'SQUID_TCP_SO_RCVBUF')
    grab('src/cf.data.pre', r'^NAME: read_ahead_gap\n.*?^DEFAULT: (\d+) KB', 'read_ahead_gap', 1024)
    grab('src/cf.data.pre', r'^NAME: maximum_object_size_in_memory\n.*?^DEFAULT: (\d+) KB', 'maximum_object_size_in_memory', 1024)
    grab('src/cf.data.pre', r'^NAME: client_request_buffer_max_size\n.*?^DEFAULT: (\d+) KB', 'client_request_buffer_max_size', 1024)
    return out


def boundaries(tree, limit):
    """The internal buffer / page boundaries <= limit, ascending."""
    k = tree_constants(tree)
    bs = {k['SM_PAGE_SIZE'], 2 * k['SM_PAGE_SIZE'], k['CLIENT_REQ_BUF_SZ'], k['read_ahead_gap'], 2 * k['read_ahead_gap'],
          k['SQUID_TCP_SO_RCVBUF'], 65536, 2 * 65536, k['maximum_object_size_in_memory'], k['client_request_buffer_max_size']}
    return sorted(b for b in bs if b <= limit)


def boundary_sizes(tree, limit, extra=()):
    """B: 0, 1, 2 and every boundary +-1 (<= limit+1), plus extras."""
    s = {0, 1, 2}
    for b in boundaries(tree, limit):
        s.update((b - 1, b, b + 1))
    s.update(extra)
    return sorted(s)


# ------------------------------------------------------------------ chunk layouts

def chunk_sizes(pattern_name, n, page=4096):
    """Chunk-size list for a body of n bytes."""
    if n == 0:
        return []
    if pattern_name in ('one', 'ext', 'trailer', 'exttrailer'):
        return [n]
    if pattern_name == 'b1':                 # 1-byte chunks (small bodies only)
        return [1] * n
    if pattern_name == 'page':               # chunks ending exactly on page boundaries
        return [page] * (n // page) + ([n % page] if n % page else [])
    if pattern_name == 'odd':                # 1, page-1, page+1, rest: chunk edges just off the boundaries
        out, left = [], n
        for s in (1, page - 1, page + 1):
            if left <= 0:
                break
            out.append(min(s, left))
            left -= out[-1]
        if left > 0:
            out.append(left)
        return out
    if pattern_name == 'halves':
        return [n - n // 2, n // 2] if n > 1 else [n]
    raise HarnessError('unknown chunk pattern ' + pattern_name)


def chunked(body, pattern_name, page=4096):
    ext = b';vx=1;q="a b"' if pattern_name in ('ext', 'exttrailer') else b''
    trailer = b'X-Vtrailer: t1\r\n' if pattern_name in ('trailer', 'exttrailer') else b''
    return httpref.chunk_encode(body, chunk_sizes(pattern_name, len(body), page), ext=ext, trailer=trailer)


# ------------------------------------------------------------------ segmentation

def cuts_around(total, points, width=1):
    """2-piece split offsets at every point +-width that lies strictly inside (0, total)."""
    out = set()
    for p in points:
        for d in range(-width, width + 1):
            if 0 < p + d < total:
                out.add(p + d)
    return sorted(out)


def pieces_of(data, cuts):
    """Split data at the (sorted, distinct) offsets in cuts; empty pieces are dropped."""
    out, prev = [], 0
    for c in sorted(set(cuts)):
        if c <= prev or c >= len(data):
            continue
        out.append(data[prev:c])
        prev = c
    out.append(data[prev:])
    return [p for p in out if p]


def expand_cuts(spec, total, head_len):
    """Segmentation spec -> sorted cut offsets of a stream of `total` bytes whose head is head_len bytes.
    spec: list of ints (absolute offsets; negative = from the end), or
          'bytes-first'/'bytes-last' (byte-at-a-time for the first / last 32 bytes),
          'bytes-body-first' (byte-at-a-time for the first 32 body bytes)."""
    if spec is None:
        return []
    if spec == 'bytes-first':
        return [i for i in range(1, min(33, total))]
    if spec == 'bytes-last':
        return [i for i in range(max(1, total - 32), total)]
    if spec == 'bytes-body-first':
        return [i for i in range(head_len, min(head_len + 33, total)) if i > 0]
    out = []
    for c in spec:
        c = total + c if c < 0 else c
        if 0 < c < total:
            out.append(c)
    return sorted(set(out))


# ------------------------------------------------------------------ piecewise sender with back-pressure

class Feeder:
    """Sends `pieces` on a Conn, one piece per driver round; a piece that does not fit into the socket
    buffer (receiver not reading yet) is continued in the next round before the next piece starts."""

    def __init__(self, conn, pieces, then=None):
        self.conn = conn
        self.pieces = list(pieces)
        self.i = 0
        self.off = 0
        self.then = then            # None | 'close' | 'rst' | 'shutdown_wr'
        self.finished = False
        self.sent_bytes = 0
        self.peer_gone = False

    def step(self):
        """One environment action.  Returns True if something was done."""
        if self.finished:
            return False
        if self.i < len(self.pieces):
            p = self.pieces[self.i]
            if self.conn.closed:
                self.finished = True
                return False
            n = self.conn.send(p[self.off:] if self.off else p)
            self.sent_bytes += n
            self.off += n
            if self.conn.reset:
                self.peer_gone = True
                self.finished = True
                return True
            if self.off >= len(p):
                self.i += 1
                self.off = 0
            if self.i < len(self.pieces):
                return n > 0
            if self.then is None:
                self.finished = True
                return True
            return True
        # all pieces out: the final action is a step of its own
        if self.then == 'close':
            self.conn.close()
        elif self.then == 'rst':
            self.conn.rst()
        elif self.then == 'shutdown_wr':
            self.conn.shutdown_wr()
        self.finished = True
        return True

    @property
    def all_sent(self):
        return self.i >= len(self.pieces)


def mask_head(raw_head):
    """Volatile header values (dates, ages, ids) masked for determinism transcripts."""
    t = raw_head.decode('latin1')
    t = re.sub(r'(?im)^(Date|Expires|Last-Modified|Age|X-Squid-Error|Mime-Version|Via|X-Cache|X-Cache-Lookup|Cache-Status|Warning|Server|X-Forwarded-For):.*$', r'\1: *', t)
    return t


# ------------------------------------------------------------------ slow readers (back-pressure inside Squid)

SMALLBUF_CONF = 'tcp_recv_bufsize 4096 bytes\n'     # Squid sets SO_RCVBUF *and* SO_SNDBUF of its TCP sockets to this


def small_client(sq, rcvbuf=4096):
    """A client connection with a small receive buffer, so that a client that does not read makes Squid's
    writes block after a few KB (together with SMALLBUF_CONF)."""
    from . import lockstep
    s = socket.socket(socket.AF_INET, socket.SOCK_STREAM)
    s.setsockopt(socket.SOL_SOCKET, socket.SO_RCVBUF, rcvbuf)
    s.connect(('127.0.0.1', sq.http_port))
    return lockstep.Conn(s)


def shrink_listener(listener, rcvbuf=4096):
    """Accepted connections inherit the listener's receive buffer size."""
    listener.s.setsockopt(socket.SOL_SOCKET, socket.SO_RCVBUF, rcvbuf)


def sip(conn, n=1024):
    """Read at most n bytes with one recv(); returns the number of bytes read (0: nothing there / EOF)."""
    if conn.closed or conn.eof:
        return 0
    try:
        d = conn.s.recv(n)
    except BlockingIOError:
        return 0
    except (ConnectionResetError, BrokenPipeError):
        conn.reset = True
        conn.eof = True
        return 0
    except OSError:
        conn.eof = True
        return 0
    if not d:
        conn.eof = True
        return 0
    conn.inbuf += d
    return len(d)


def unread_bytes(conn):
    """Bytes waiting in the kernel receive queue of conn (FIONREAD)."""
    import fcntl
    import struct
    import termios
    try:
        return struct.unpack('i', fcntl.ioctl(conn.s.fileno(), termios.FIONREAD, b'\0\0\0\0'))[0]
    except OSError:
        return -1


def merge_results(a, b):
    """Merge two lockstep.run_cases() result dicts."""
    out = {'evaluations': a['evaluations'] + b['evaluations'], 'outcomes': dict(a['outcomes']),
           'violations': a['violations'] + b['violations'], 'samples': (a['samples'][:4] + b['samples'][:2]),
           'deadline_hit': a['deadline_hit'] or b['deadline_hit'], 'crashes': a['crashes'] + b['crashes'],
           'kicks': a['kicks'] + b['kicks'], 'replays': a['replays'] + b['replays']}
    for k, v in b['outcomes'].items():
        out['outcomes'][k] = out['outcomes'].get(k, 0) + v
    return out


def patient_world(ctx, name, port_base, **kw):
    """lockstep.World whose start() is retried (twice) when the instance does not come up within lockstep's 60 s
    start-up limit -- that only happens when the shared machine is heavily overloaded."""
    from . import lockstep

    class PatientWorld(lockstep.World):
        def start(self):
            last = None
            for attempt in range(3):
                try:
                    self.sq.start()
                    return self
                except HarnessError as e:
                    last = e
                    if 'not ready after' not in str(e) and 'watchdog' not in str(e):
                        raise
                    self.sq.kill()
            raise last
    return PatientWorld(ctx, name, port_base, **kw)
