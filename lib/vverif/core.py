"""Common plumbing for all checks: context, build step, evidence, known findings, exit protocol.

A check is a module /verif/checks/<ID>.py defining

    LEVEL   = 'exploration' | 'fault_enumeration' | 'model_checking'
    def run(ctx) -> Result            # explore, return coverage + violations
    def replay(ctx, data) -> Result   # optional: re-run one recorded execution

Exit protocol (see DESIGN 3/6c): 0 = held on everything explored (KNOWN-FINDING lines allowed),
1 = VIOLATION line(s) printed, 2 = harness error (never together with a VIOLATION line).
"""
import hashlib
import importlib.util
import json
import os
import subprocess
import sys
import time
import traceback

HOME = os.path.dirname(os.path.dirname(os.path.dirname(os.path.abspath(__file__))))
REPO = os.environ.get('VERIF_REPO', '/repo')
WORK = os.environ.get('VERIF_WORK', '/var/tmp/squid-verif')
TREE = os.path.join(WORK, 'tree')
NCPU = int(os.environ.get('VERIF_JOBS', '16'))


class HarnessError(Exception):
    """The machinery failed (build error, replay divergence, vacuity guard): exit 2, never a VIOLATION."""


class Violation:
    def __init__(self, key, what, replay=None):
        self.key = key          # stable identifier of the failing input / call site / history
        self.what = what        # human-readable description
        self.replay = replay if replay is not None else {}

    def __repr__(self):
        return 'Violation(%r, %r)' % (self.key, self.what)


class Result:
    def __init__(self, level, coverage, violations=(), assumptions=(), observations=()):
        self.level = level
        self.coverage = coverage
        self.violations = list(violations)
        self.assumptions = list(assumptions)
        self.observations = list(observations)


class Ctx:
    def __init__(self, pid, tier, seed):
        self.pid = pid
        self.tier = tier
        self.seed = seed
        self.t0 = time.time()
        self.home = HOME
        self.repo = REPO
        self.work = WORK
        self.tree = TREE
        self.ncpu = NCPU
        # global deadline per tier: exit 0 with exhaustive:false rather than run for hours
        dflt = 150 if tier == 'quick' else 1200
        self.deadline_s = float(os.environ.get('VERIF_DEADLINE_S', dflt))
        self.rundir = os.path.join(WORK, 'run', pid)
        self.objdir = os.path.join(WORK, 'obj', pid)
        os.makedirs(self.rundir, exist_ok=True)
        os.makedirs(self.objdir, exist_ok=True)

    @property
    def quick(self):
        return self.tier == 'quick'

    def remaining(self):
        return self.deadline_s - (time.time() - self.t0)

    def vbuild(self, *specs):
        """Sync /repo's working tree into the scratch tree and make the given targets."""
        t = time.time()
        r = subprocess.run([os.path.join(HOME, 'bin', 'vbuild')] + list(specs))
        # the tier deadline budgets exploration, not (re)compilation after a source change
        self.deadline_s += time.time() - t
        self.build_s = getattr(self, 'build_s', 0.0) + (time.time() - t)
        if r.returncode != 0:
            raise HarnessError('vbuild %s failed' % (specs,))

    def fingerprint(self):
        try:
            head = subprocess.run(['git', '-C', REPO, 'rev-parse', 'HEAD'], capture_output=True, text=True).stdout.strip()
            diff = subprocess.run(['git', '-C', REPO, 'diff', 'HEAD'], capture_output=True).stdout
            return head[:12] + '+' + hashlib.sha1(diff).hexdigest()[:10]
        except Exception:
            return 'unknown'


def load_findings():
    """known_findings.json plus per-property fragments known_findings.d/<ID>.json (same format), all
    committed and read-only at run time."""
    out = {'findings': [], 'fixed': []}
    p = os.path.join(HOME, 'known_findings.json')
    paths = [p] if os.path.exists(p) else []
    d = os.path.join(HOME, 'known_findings.d')
    if os.path.isdir(d):
        paths += sorted(os.path.join(d, f) for f in os.listdir(d) if f.endswith('.json'))
    for q in paths:
        with open(q) as f:
            j = json.load(f)
        out['findings'] += j.get('findings', [])
        out['fixed'] += j.get('fixed', [])
    return out


def finding_for(findings, pid, key):
    for f in findings.get('findings', []):
        if f.get('property') == pid and f.get('key') == key:
            return f
    return None


def write_evidence(ctx, res, nviol):
    cov = dict(res.coverage)
    cov.setdefault('exhaustive', False)
    cov.setdefault('tree_fingerprint', ctx.fingerprint())
    if res.observations:
        cov['observations'] = res.observations[:20]
    ev = {
        'property_id': ctx.pid,
        'tier': ctx.tier,
        'seed': ctx.seed,
        'level': res.level,
        'coverage': cov,
        'assumptions': res.assumptions,
        'wall_s': round(time.time() - ctx.t0, 2),
        'violations': nviol,
    }
    _validate(ev)
    evdir = os.environ.get('VERIF_EVIDENCE_DIR') or os.path.join(HOME, 'evidence')
    os.makedirs(evdir, exist_ok=True)
    path = os.path.join(evdir, ctx.pid + '.json')
    tmp = path + '.tmp%d' % os.getpid()
    with open(tmp, 'w') as f:
        json.dump(ev, f, indent=1, sort_keys=True, default=str)
        f.write('\n')
    os.replace(tmp, path)
    return path


def _validate(ev):
    cov = ev['coverage']
    lvl = ev['level']
    if lvl in ('exploration', 'fault_enumeration'):
        need = ('evaluations', 'distinct_nontrivial', 'rule', 'samples')
    elif lvl == 'model_checking':
        need = ('states', 'transitions', 'traces_validated_against_impl', 'samples')
    else:
        need = ('explanation',)
    for k in need:
        if k not in cov:
            raise HarnessError('evidence for level %s lacks coverage.%s' % (lvl, k))
    if lvl in ('exploration', 'fault_enumeration'):
        if cov['evaluations'] < 1 or cov['distinct_nontrivial'] < 2 or not cov['samples']:
            raise HarnessError('vacuous exploration: %r' % {k: cov[k] for k in need if k != 'samples'})
    if lvl == 'model_checking':
        if cov['states'] < 1 or cov['transitions'] < 1 or not cov['samples']:
            raise HarnessError('vacuous model checking run')


def load_check(pid):
    path = os.path.join(HOME, 'checks', pid + '.py')
    if not os.path.exists(path):
        raise HarnessError('no check module ' + path)
    spec = importlib.util.spec_from_file_location('check_' + pid, path)
    mod = importlib.util.module_from_spec(spec)
    spec.loader.exec_module(mod)
    return mod


def report(ctx, res, write_ev=True):
    """Write replay files + evidence, print KNOWN-FINDING / VIOLATION lines, return exit status."""
    findings = load_findings()
    repdir = os.environ.get('VERIF_REPLAY_DIR') or os.path.join(HOME, 'replays')
    os.makedirs(repdir, exist_ok=True)
    new, known = [], {}
    for v in res.violations:
        f = finding_for(findings, ctx.pid, v.key)
        if f is not None:
            known.setdefault(v.key, (f, v))
        else:
            new.append(v)
    if write_ev:
        write_evidence(ctx, res, len(new))
    for key, (f, v) in sorted(known.items()):
        print('KNOWN-FINDING: property=%s %s [key=%s]' % (ctx.pid, f.get('what', v.what), key))
    seen = set()
    for v in new:
        if v.key in seen:
            continue
        seen.add(v.key)
        h = hashlib.sha1((ctx.pid + '\0' + v.key).encode('utf-8', 'replace')).hexdigest()[:12]
        path = os.path.join(repdir, '%s-%s.json' % (ctx.pid, h))
        with open(path, 'w') as fp:
            json.dump({'property': ctx.pid, 'key': v.key, 'what': v.what, 'tier': ctx.tier,
                       'replay': v.replay, 'tree_fingerprint': ctx.fingerprint()}, fp, indent=1, default=str)
            fp.write('\n')
        print('# %s: %s' % (ctx.pid, v.what[:600]))
        print('VIOLATION property=%s replay=%s' % (ctx.pid, path))
        if len(seen) >= 10:
            print('# ... %d further violations not listed' % (len(new) - 10))
            break
    sys.stdout.flush()
    return 1 if new else 0


def acquire_run_slot(tier='quick'):
    """Machine-wide FIFO semaphore: at most VERIF_SLOTS (default 0 = disabled) vcheck runs at a time, plus one slot
    that only quick-tier runs may take, so that tier deadlines and the E3 watchdogs measure the check and
    not a dozen neighbours (several checks are routinely run side by side while the machinery is being
    developed; each uses all 16 cores).  Waiters queue by arrival time (ticket files), dead waiters'
    tickets are discarded.  A single run never waits.  The returned file object keeps the lock until
    the process exits."""
    import fcntl
    # Disabled by default (VERIF_SLOTS=0): the queue was a development aid.  It must never be able to
    # block a run: a sandbox copy once carried stale tickets whose pids were alive again in the copy, and
    # the first check waited for them until it was stopped.  When enabled, a ticket counts as alive only if
    # the pid exists AND is a vcheck process, and nobody waits longer than 20 minutes.
    n = int(os.environ.get('VERIF_SLOTS', '0'))
    if n <= 0:
        return None
    d = '/var/tmp/squid-verif-slots'
    q = os.path.join(d, 'queue')
    try:
        os.makedirs(q, exist_ok=True)
        os.chmod(d, 0o1777)
        os.chmod(q, 0o1777)
    except OSError:
        pass
    me = '%020d-%d-%s' % (time.time_ns(), os.getpid(), tier)
    mine = os.path.join(q, me)
    try:
        open(mine, 'w').close()
    except OSError:
        return None

    def try_slots(idx):
        for i in idx:
            try:
                f = open(os.path.join(d, 'slot%d.lock' % i), 'a+')
            except OSError:
                continue
            try:
                fcntl.flock(f, fcntl.LOCK_EX | fcntl.LOCK_NB)
                return f
            except OSError:
                f.close()
        return None

    t0 = time.time()
    try:
        while True:
            live = []
            for t in sorted(os.listdir(q)):
                try:
                    pid = int(t.split('-')[1])
                    os.kill(pid, 0)
                    with open('/proc/%d/cmdline' % pid, 'rb') as cf:
                        if b'vverif.core' not in cf.read():
                            raise ProcessLookupError()
                    live.append(t)
                except FileNotFoundError:
                    try:
                        os.unlink(os.path.join(q, t))
                    except OSError:
                        pass
                except (ValueError, IndexError):
                    pass
                except ProcessLookupError:
                    try:
                        os.unlink(os.path.join(q, t))
                    except OSError:
                        pass
                except PermissionError:
                    live.append(t)
            f = None
            if not live or live[0] == me:
                f = try_slots(range(n))
            if f is None and tier == 'quick':
                quick = [t for t in live if t.endswith('-quick')]
                if not quick or quick[0] == me:
                    f = try_slots([n])
            if f is not None:
                waited = int(time.time() - t0)
                if waited >= 2:
                    print('# vcheck: waited %d s for a run slot' % waited, file=sys.stderr)
                return f
            if time.time() - t0 > 1200:
                print('# vcheck: gave up waiting for a run slot after 20 min, running anyway', file=sys.stderr)
                return None
            time.sleep(0.5)
    finally:
        try:
            os.unlink(mine)
        except OSError:
            pass


def _violations_of_last_run():
    """Failures recorded by the engines' last run (seq.run / lockstep.run_cases), as Violation objects."""
    out = []
    try:
        from . import seq
        m = seq.LAST_RUN
        if m and (m.get('failures') or m.get('crashes')):
            out += seq.violations_from(m)
    except Exception:
        pass
    try:
        from . import lockstep
        r = lockstep.LAST_RUN
        if r:
            out += [Violation(k, what, {'case': c}) for k, what, c in r.get('violations', [])]
            out += [Violation('crash:' + str(k), 'squid crashed/asserted during case %s: %s' % (k, what), {'case': c})
                    for k, what, c in r.get('crashes', [])]
    except Exception:
        pass
    return out


def main(argv=None):
    argv = list(sys.argv[1:] if argv is None else argv)
    if not argv:
        print('usage: vcheck <ID> [--tier quick|thorough] [--replay <file>]', file=sys.stderr)
        return 2
    pid = argv[0]
    tier = os.environ.get('VERIF_TIER', 'quick')
    replay_file = None
    i = 1
    while i < len(argv):
        if argv[i] == '--tier':
            tier = argv[i + 1]; i += 2
        elif argv[i] == '--replay':
            replay_file = argv[i + 1]; i += 2
        else:
            print('unknown argument ' + argv[i], file=sys.stderr)
            return 2
    if tier not in ('quick', 'thorough'):
        tier = 'quick'
    try:
        seed = int(os.environ.get('VERIF_SEED', '0'))
    except ValueError:
        seed = 0
    # last line of defence against an unbounded wait somewhere below (a lock, a peer that never answers): a
    # run that is still going long after its tier deadline is stopped as a harness error instead of hanging
    import signal as _signal

    def _too_long(signum, frame):
        raise HarnessError('run exceeded the hard wall-clock limit (tier deadline + 40 min); stopped')
    try:
        _signal.signal(_signal.SIGALRM, _too_long)
        _signal.alarm(int(float(os.environ.get('VERIF_DEADLINE_S', 150 if tier == 'quick' else 1200)) + 2400))
    except Exception:
        pass
    slot = acquire_run_slot(tier if not replay_file else 'quick')
    ctx = Ctx(pid, tier, seed)
    mod = None
    try:
        mod = load_check(pid)
        if replay_file:
            with open(replay_file) as f:
                data = json.load(f)
            res = mod.replay(ctx, data.get('replay', data))
            rc = report(ctx, res, write_ev=False)
            print('replay: %s' % ('violation reproduced' if res.violations else 'no violation'))
            return 1 if res.violations else 0
        res = mod.run(ctx)
        rc = report(ctx, res)
        cov = res.coverage
        print('%s %s: level=%s exhaustive=%s wall=%.1fs %s' % (
            pid, tier, res.level, cov.get('exhaustive'), time.time() - ctx.t0,
            ' '.join('%s=%s' % (k, cov[k]) for k in ('evaluations', 'distinct_nontrivial', 'states', 'transitions',
                                                   'traces_validated_against_impl', 'bound_completed') if k in cov)))
        return rc
    except HarnessError as e:
        # A vacuity guard describes a clean run.  When it fires on a run that has already recorded failures
        # (a changed tree can abort or reject so many cases that the expected outcome classes never show up),
        # the failures are the news: report them instead of hiding them behind a harness error.
        if 'vacuity guard' in str(e) and not replay_file:
            vio = _violations_of_last_run()
            if vio:
                print('# %s: vacuity guard fired on a run with recorded failures (%s); reporting the failures' % (pid, str(e)[:200]))
                res = Result(getattr(mod, 'LEVEL', 'exploration'), {}, vio, [])
                if report(ctx, res, write_ev=False) == 1:
                    return 1
                # (only known findings: the guard's complaint stands)
        print('HARNESS-ERROR %s: %s' % (pid, e), file=sys.stderr)
        return 2
    except Exception:
        traceback.print_exc()
        print('HARNESS-ERROR %s: unexpected exception' % pid, file=sys.stderr)
        return 2
