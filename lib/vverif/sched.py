"""E2: build harnesses that compile unmodified Squid sources with std::atomic substituted by the
scheduler-controlled vatomic (lib/vsched/vatomic_pre.h) and link them with the explorer."""
import os
import subprocess
from concurrent.futures import ThreadPoolExecutor

from .core import HarnessError, HOME
from . import seq


def build(ctx, harness_src, tree_sources, name=None, objects=(), libs=(), stubs=(), extra_cxx=()):
    """harness_src: file under /verif/checks; tree_sources: files under <tree>/src compiled WITH the
    substitution; stubs: extra harness-side .cc files (under /verif/checks) compiled with the substitution;
    objects/libs: paths relative to <tree>/src linked as they are (real objects of the ASan build)."""
    ctx.vbuild()      # sync only; E2 compiles the files it needs itself
    name = name or ctx.pid
    src = os.path.join(ctx.tree, 'src')
    base = seq.cxxflags(ctx)
    pre = ['-include', os.path.join(HOME, 'lib', 'vsched', 'vatomic_pre.h')]
    env = dict(os.environ, CCACHE_DIR=os.environ.get('VERIF_CCACHE', '/var/tmp/squid-verif/ccache'))
    jobs = []
    for s in tree_sources:
        o = os.path.join(ctx.objdir, '%s-tree-%s.o' % (name, s.replace('/', '_')))
        jobs.append((['ccache', 'g++'] + base + pre + list(extra_cxx) + ['-I' + src, '-c', os.path.join(src, s), '-o', o], o))
    for s in [harness_src] + list(stubs):
        sp = s if os.path.isabs(s) else os.path.join(HOME, 'checks', s)
        o = os.path.join(ctx.objdir, '%s-%s.o' % (name, os.path.basename(sp)))
        jobs.append((['ccache', 'g++'] + base + pre + list(extra_cxx) + ['-I' + src, '-c', sp, '-o', o], o))
    o = os.path.join(ctx.objdir, name + '-vsched.o')
    jobs.append((['ccache', 'g++'] + base + ['-c', os.path.join(HOME, 'lib', 'vsched', 'vsched.cc'), '-o', o], o))

    def comp(j):
        r = subprocess.run(j[0], capture_output=True, text=True, env=env, cwd=src)
        if r.returncode != 0:
            raise HarnessError('compile failed: %s\n%s' % (j[0][-3], r.stderr[-4000:]))
        return j[1]
    with ThreadPoolExecutor(max_workers=8) as ex:
        objs = list(ex.map(comp, jobs))
    exe = os.path.join(ctx.objdir, name)
    need = [os.path.join(src, x) for x in list(objects) + list(libs)]
    missing = [x for x in need if not os.path.exists(x)]
    if missing:
        raise HarnessError('missing tree objects (run bin/vsetup): %s' % missing[:5])
    cmd = ['g++'] + seq.SAN + objs + need + ['-o', exe, '-lpthread', '-ldl']
    r = subprocess.run(cmd, capture_output=True, text=True, cwd=src)
    if r.returncode != 0:
        raise HarnessError('link failed:\n' + r.stderr[-5000:])
    return exe
