"""SMP lock-step: a squid instance with several kid processes (workers, disker, coordinator), each parked in
its own Slot of the driver; the driver decides which kid runs next (schedule exploration, C19 / C18-SMP).

Uses lib/vshim/vshim_smp.c (= vshim.c + a PROBE command) so that the driver can ask a parked kid whether its
epoll set has ready descriptors without running it: enabled(kid) = probe(kid) > 0.
"""
import os
import select
import subprocess
import time

from . import lockstep as ls
from .core import HarnessError, HOME


START_TIMEOUT_S = float(os.environ.get('VERIF_SMP_START_S', '300'))     # real time; an overloaded machine needs minutes for 5 ASan processes


def smp_shim_path(ctx):
    return os.path.join(ctx.work, 'lib', 'libvshim_smp.so')


def ensure_smp_shim(ctx):
    ls.ensure_tools(ctx)
    d = os.path.join(ctx.work, 'lib')
    src = os.path.join(HOME, 'lib', 'vshim', 'vshim_smp.c')
    base = os.path.join(HOME, 'lib', 'vshim', 'vshim.c')
    out = smp_shim_path(ctx)
    if not os.path.exists(out) or os.path.getmtime(out) < max(os.path.getmtime(src), os.path.getmtime(base)):
        tmp = out + '.tmp%d' % os.getpid()
        r = subprocess.run(['gcc', '-O2', '-fPIC', '-shared', '-Wno-unused-function', '-I', os.path.dirname(src), '-o', tmp, src, '-ldl'],
                           capture_output=True, text=True)
        if r.returncode:
            raise HarnessError('vshim_smp build failed: ' + r.stderr)
        os.replace(tmp, out)
    return out


class SmpSquid(ls.Squid):
    """ls.Squid started with `workers N` under the probing shim.  Kids are addressed by role name:
    'w1', 'w2', ... (workers), 'disk' (disker), 'coord' (coordinator)."""

    def __init__(self, ctx, name, port_base, workers=2, **kw):
        env = dict(kw.pop('extra_env', None) or {})
        env.setdefault('LD_PRELOAD', ensure_smp_shim(ctx))
        super().__init__(ctx, name, port_base, workers=workers, extra_env=env, **kw)
        self.nworkers = workers
        self.probes = 0
        self.stepping = False
        self.per_worker = False

    def init_cache(self):
        """squid -z in single-process mode (-N): creates the same rock db without forking five ASan processes."""
        env = self._env()
        env.pop('LD_PRELOAD', None)
        cmd = [self._exe(), '-f', os.path.join(self.dir, 'squid.conf'), '-n', self.service, '-N', '-z']
        r = subprocess.run(cmd, env=env, capture_output=True, user=ls.NOBODY_UID, group=ls.NOBODY_GID, extra_groups=[], timeout=START_TIMEOUT_S, cwd=self.dir)
        if r.returncode != 0:
            raise HarnessError('squid -N -z failed: %s %s' % (r.stdout[-500:], r.stderr[-1500:]))

    def worker_port(self, n):
        """http_port of worker n (1-based): port_base+1+n (port_base+1 is the origin of World-like helpers)."""
        return self.port_base + 1 + n

    def per_worker_ports_conf(self):
        self.per_worker = True
        L = []
        for n in range(1, self.nworkers + 1):
            L.append('if ${process_number} = %d\nhttp_port 127.0.0.1:%d\nendif' % (n, self.worker_port(n)))
        return '\n'.join(L) + '\n'

    # ---- kids
    def role_of(self, slot):
        k = slot.kid or ''
        if k.startswith('squid-coord'):
            return 'coord'
        if k.startswith('squid-disk'):
            return 'disk'
        if k.startswith('squid-'):
            try:
                return 'w%d' % int(k.split('-')[1])
            except ValueError:
                return k
        return 'master'

    def kids(self):
        """{role: Slot} of the live kid processes (the master never parks in epoll and is not listed)."""
        out = {}
        for s in self.live_slots():
            r = self.role_of(s)
            if r != 'master':
                out[r] = s
        return out

    def kid_order(self):
        return sorted(self.kids())

    def probe(self, slot):
        """Number of ready descriptors in the parked kid's epoll set (0 = a kick would be a no-op unless a timer is due)."""
        if slot.dead or not slot.idle:
            raise HarnessError('probe of a kid that is not parked')
        self.probes += 1
        try:
            slot.sock.send(b'P')
        except OSError:
            slot.dead = True
            return 0
        deadline = time.time() + ls.WATCHDOG_S
        while True:
            r, _, _ = select.select([slot.sock], [], [], 0.5)
            if r:
                try:
                    m = slot.sock.recv(4096)
                except BlockingIOError:
                    continue
                except OSError:
                    m = b''
                if not m:
                    slot.dead = True
                    slot.idle = False
                    return 0
                t = m.decode('latin1')
                if t.startswith('R '):
                    return int(t.split()[1])
                raise HarnessError('unexpected control message from a parked kid: %r' % t[:80])
            if time.time() > deadline:
                raise HarnessError('watchdog: no answer to a probe from pid %s' % slot.pid)

    def step_mode(self, on):
        """Step mode: one kick = one iteration of the kid's event loop (instead of: until quiescent)."""
        self._pump(0)
        for s in self.kids().values():
            if not s.idle:
                raise HarnessError('step_mode switch while a kid is running')
            s.sock.send(b'M1' if on else b'M0')
        self.stepping = bool(on)

    def ready(self):
        """Roles (sorted) of the kids that have ready descriptors now."""
        self._pump(0)
        return [r for r, s in sorted(self.kids().items()) if self.probe(s) > 0]

    def run_kid(self, role):
        self.kick(self.kids()[role])

    def settle_all(self, limit=4000):
        """Round-robin (fixed order) until no kid has ready descriptors.  Returns the number of kicks."""
        n = 0
        while True:
            rd = self.ready()
            if not rd:
                return n
            for r in rd:
                self.run_kid(r)
                n += 1
                if n > limit:
                    raise HarnessError('SMP instance does not quiesce (%d kicks); ready: %r' % (n, rd))

    def wait_ready(self):
        """Start-up to a fixed point.  Phase 1 (virtual clock frozen): wait in real time until every expected kid
        has connected and parked -- a kid that starts late must not find the clock far ahead of its own start
        (its Coordinator registration timeout would fire at once).  Phase 2: round-robin kicks (fixed order) with
        small clock steps until every worker listens on its port and the cache_dir is ready; then quiesce."""
        want = self.nworkers + 1 + (1 if self.cache_dir else 0)
        deadline = time.time() + START_TIMEOUT_S
        while True:
            self._pump(0.05)
            if not self.alive():
                raise HarnessError('squid %s exited during start-up: %s %s' % (self.name, self.cache_log()[-1500:], self.stdout()[-800:]))
            kids = self.kids()
            if len(kids) >= want and all(s.idle for s in kids.values()):
                break
            if time.time() > deadline:
                raise HarnessError('only kids %r came up in %d s: %s' % (sorted(kids), START_TIMEOUT_S, self.cache_log()[-800:]))
        deadline = time.time() + START_TIMEOUT_S
        while True:
            self.advance(100, rounds=1)
            if not self.alive() or len(self.kids()) < want:
                raise HarnessError('a kid died during start-up: %s' % self.cache_log()[-1500:])
            log = self.cache_log()
            listening = all((':%d ' % self.worker_port(n)) in log for n in range(1, self.nworkers + 1)) if self.per_worker else \
                log.count('Accepting HTTP Socket connections') >= self.nworkers
            if listening and (not self.cache_dir or self._rebuild_done(log)):
                break
            if time.time() > deadline:
                raise HarnessError('squid %s not ready after %d s: %s' % (self.name, START_TIMEOUT_S, log[-1500:]))
        # canonical start state: let start-up timers fire, then quiesce
        for _ in range(12):
            self.advance(500, rounds=1)
        self.settle_all()
