"""Reference encoders / decoders for the datagram protocols Squid listens to: ICP v2/v3 (RFC 2186),
HTCP/0.x (RFC 2756) and SNMP v1/v2c GET/GETNEXT (RFC 1157 / 3416, BER).  Written from the RFCs, independent
of Squid's code; used by C39 to build the seed corpus and to classify Squid's answers.

Every encoder also returns the byte ranges of the *fixed header / length fields* of the message (the
positions at which the thorough tier applies pairs of byte mutations).
"""
import struct

# ------------------------------------------------------------------ ICP

ICP_OP = {'INVALID': 0, 'QUERY': 1, 'HIT': 2, 'MISS': 3, 'ERR': 4, 'SECHO': 10, 'DECHO': 11,
          'MISS_NOFETCH': 21, 'DENIED': 22, 'HIT_OBJ': 23}
ICP_NAME = {v: k for k, v in ICP_OP.items()}
ICP_FLAG_HIT_OBJ = 0x80000000
ICP_FLAG_SRC_RTT = 0x40000000


def icp_encode(opcode, version, reqnum, url, flags=0, optdata=0, sender=0, requester=0, obj=None):
    """One ICP message.  QUERY carries the 4-byte requester address before the URL; HIT_OBJ carries
    a 2-byte object size and the object after the NUL-terminated URL."""
    op = ICP_OP[opcode] if isinstance(opcode, str) else opcode
    payload = b''
    if op == ICP_OP['QUERY']:
        payload += struct.pack('!I', requester)
    payload += url + b'\0'
    if op == ICP_OP['HIT_OBJ']:
        o = obj if obj is not None else b'HTTP/1.0 200 OK\r\n\r\nx'
        payload += struct.pack('!H', len(o)) + o
    total = 20 + len(payload)
    return struct.pack('!BBHIIII', op, version, total, reqnum, flags, optdata, sender) + payload


def icp_header_positions(msg):
    """fixed header (20 bytes) + the requester address of a QUERY"""
    n = 24 if msg[0] == ICP_OP['QUERY'] else 20
    return list(range(min(n, len(msg))))


def icp_decode(d):
    """-> dict(op, opname, version, length, reqnum, flags, optdata, sender, url) or None if not a
    well-formed ICP message (length field must equal the datagram size, URL NUL-terminated)."""
    if len(d) < 20:
        return None
    op, ver, ln, reqnum, flags, optdata, sender = struct.unpack('!BBHIIII', d[:20])
    if ln != len(d):
        return None
    pl = d[20:]
    if op == ICP_OP['QUERY']:
        pl = pl[4:]
    if b'\0' not in pl:
        return None
    url = pl[:pl.index(b'\0')]
    return {'op': op, 'opname': ICP_NAME.get(op, 'OP%d' % op), 'version': ver, 'length': ln, 'reqnum': reqnum,
            'flags': flags, 'optdata': optdata, 'sender': sender, 'url': url}


# ------------------------------------------------------------------ HTCP

HTCP_OP = {'NOP': 0, 'TST': 1, 'MON': 2, 'SET': 3, 'CLR': 4}
HTCP_NAME = {v: k for k, v in HTCP_OP.items()}


def countstr(b):
    return struct.pack('!H', len(b)) + b


def htcp_specifier(method, uri, version, req_hdrs):
    return countstr(method) + countstr(uri) + countstr(version) + countstr(req_hdrs)


def htcp_detail(resp_hdrs, entity_hdrs, cache_hdrs):
    return countstr(resp_hdrs) + countstr(entity_hdrs) + countstr(cache_hdrs)


def htcp_auth(sig_time=None, sig_expire=0, key_name=b'', signature=b''):
    """AUTH section; the minimal one (no authentication) is just its own 2-byte length."""
    if sig_time is None:
        return struct.pack('!H', 2)
    body = struct.pack('!II', sig_time, sig_expire) + countstr(key_name) + countstr(signature)
    return struct.pack('!H', 2 + len(body)) + body


def htcp_encode(opcode, rr, f1, msg_id, opdata=b'', response=0, minor=1, major=0, auth=None, old_squid=False):
    """HEADER(length, major, minor) DATA(length, opcode|response, reserved|F1|RR, trans-id, op-data) AUTH.
    old_squid=True writes the nibble/bit order that Squid's 'old squid format' (minor 0) uses:
    opcode in the low nibble, F1/RR in bits 6/7."""
    op = HTCP_OP[opcode] if isinstance(opcode, str) else opcode
    if old_squid:
        b2 = (op & 15) | ((response & 15) << 4)
        b3 = ((f1 & 1) << 6) | ((rr & 1) << 7)
        minor = 0
    else:
        b2 = ((op & 15) << 4) | (response & 15)
        b3 = ((f1 & 1) << 1) | (rr & 1)
    data = struct.pack('!HBBI', 8 + len(opdata), b2, b3, msg_id) + opdata
    au = htcp_auth() if auth is None else auth
    total = 4 + len(data) + len(au)
    return struct.pack('!HBB', total, major, minor) + data + au


def htcp_header_positions(msg, opdata_len_fields):
    """HEADER (4) + DATA fixed part (8) + the positions of the countstr length fields inside op-data
    (offsets relative to the start of op-data) + the AUTH length."""
    pos = list(range(min(12, len(msg))))
    for o in opdata_len_fields:
        pos += [12 + o, 12 + o + 1]
    if len(msg) >= 14:
        (dl,) = struct.unpack('!H', msg[4:6])
        a = 4 + dl
        if a + 2 <= len(msg):
            pos += [a, a + 1]
    return sorted(set(p for p in pos if p < len(msg)))


def countstr_offsets(parts, start=0):
    """offsets (relative to op-data start) of the length fields of consecutive countstrs"""
    out = []
    o = start
    for p in parts:
        out.append(o)
        o += 2 + len(p)
    return out


def htcp_decode(d):
    """-> dict(total, major, minor, dlen, op, response, f1, rr, msg_id, opdata, auth) or None"""
    if len(d) < 14:
        return None
    total, major, minor = struct.unpack('!HBB', d[:4])
    if total != len(d):
        return None
    dlen, b2, b3, msg_id = struct.unpack('!HBBI', d[4:12])
    if dlen < 8 or 4 + dlen + 2 > len(d):
        return None
    if minor == 0:     # Squid's old format
        op, response = b2 & 15, b2 >> 4
        f1, rr = (b3 >> 6) & 1, (b3 >> 7) & 1
    else:
        op, response = b2 >> 4, b2 & 15
        f1, rr = (b3 >> 1) & 1, b3 & 1
    return {'total': total, 'major': major, 'minor': minor, 'dlen': dlen, 'op': op, 'opname': HTCP_NAME.get(op, 'OP%d' % op),
            'response': response, 'f1': f1, 'rr': rr, 'msg_id': msg_id, 'opdata': d[12:4 + dlen], 'auth': d[4 + dlen:]}


def split_countstrs(b, n):
    """n consecutive countstrs -> list of bytes, or None"""
    out = []
    o = 0
    for _ in range(n):
        if o + 2 > len(b):
            return None
        (l,) = struct.unpack('!H', b[o:o + 2])
        if o + 2 + l > len(b):
            return None
        out.append(b[o + 2:o + 2 + l])
        o += 2 + l
    return out


# ------------------------------------------------------------------ SNMP (BER)

def ber_len(n):
    if n < 0x80:
        return bytes([n])
    if n < 0x100:
        return bytes([0x81, n])
    return bytes([0x82, n >> 8, n & 0xFF])


def ber_tlv(tag, content):
    return bytes([tag]) + ber_len(len(content)) + content


def ber_int(v, tag=0x02):
    n = 1
    while not (-(1 << (8 * n - 1)) <= v < (1 << (8 * n - 1))):
        n += 1
    return ber_tlv(tag, v.to_bytes(n, 'big', signed=True))


def ber_oid(arcs):
    body = bytes([arcs[0] * 40 + arcs[1]])
    for a in arcs[2:]:
        chunk = [a & 0x7F]
        a >>= 7
        while a:
            chunk.append(0x80 | (a & 0x7F))
            a >>= 7
        body += bytes(reversed(chunk))
    return ber_tlv(0x06, body)


SNMP_GET, SNMP_GETNEXT, SNMP_RESPONSE, SNMP_SET, SNMP_GETBULK = 0xA0, 0xA1, 0xA2, 0xA3, 0xA5


def snmp_encode(version, community, pdu_tag, reqid, oids, errstat=0, errindex=0):
    """version: 0 = v1, 1 = v2c.  Varbind values are NULL (as in a request)."""
    vbl = b''.join(ber_tlv(0x30, ber_oid(o) + ber_tlv(0x05, b'')) for o in oids)
    pdu = ber_tlv(pdu_tag, ber_int(reqid) + ber_int(errstat) + ber_int(errindex) + ber_tlv(0x30, vbl))
    return ber_tlv(0x30, ber_int(version) + ber_tlv(0x04, community) + pdu)


def _ber_read(b, o):
    """-> (tag, content_start, content_end) or None.  Definite lengths up to 2 length octets."""
    if o + 2 > len(b):
        return None
    tag = b[o]
    l = b[o + 1]
    o += 2
    if l & 0x80:
        n = l & 0x7F
        if n == 0 or n > 2 or o + n > len(b):
            return None
        l = int.from_bytes(b[o:o + n], 'big')
        o += n
    if o + l > len(b):
        return None
    return tag, o, o + l


def snmp_header_positions(msg):
    """every tag and length octet of the BER structure (the framing), found by walking the well-formed seed"""
    pos = set()

    def walk(o, end, depth):
        while o < end:
            r = _ber_read(msg, o)
            if r is None:
                return
            tag, cs, ce = r
            pos.update(range(o, cs))
            if tag in (0x30, 0xA0, 0xA1, 0xA2, 0xA3, 0xA5):
                walk(cs, ce, depth + 1)
            o = ce
    walk(0, len(msg), 0)
    return sorted(pos)


def _oid_decode(b):
    if not b:
        return None
    arcs = [b[0] // 40, b[0] % 40]
    v = 0
    for x in b[1:]:
        v = (v << 7) | (x & 0x7F)
        if not x & 0x80:
            arcs.append(v)
            v = 0
    return tuple(arcs)


def snmp_decode(d):
    """-> dict(version, community, pdu, reqid, errstat, errindex, varbinds=[(oid, tag, value bytes)]) or None"""
    r = _ber_read(d, 0)
    if r is None or r[0] != 0x30:
        return None
    _, o, end = r
    out = {}
    r = _ber_read(d, o)
    if r is None or r[0] != 0x02:
        return None
    out['version'] = int.from_bytes(d[r[1]:r[2]], 'big', signed=True)
    r = _ber_read(d, r[2])
    if r is None or r[0] != 0x04:
        return None
    out['community'] = d[r[1]:r[2]]
    r = _ber_read(d, r[2])
    if r is None or not (0xA0 <= r[0] <= 0xA8):
        return None
    out['pdu'] = r[0]
    o, pend = r[1], r[2]
    for k in ('reqid', 'errstat', 'errindex'):
        r = _ber_read(d, o)
        if r is None or r[0] != 0x02:
            return None
        out[k] = int.from_bytes(d[r[1]:r[2]], 'big', signed=True)
        o = r[2]
    r = _ber_read(d, o)
    if r is None or r[0] != 0x30:
        return None
    o, vend = r[1], r[2]
    vbs = []
    while o < vend:
        r = _ber_read(d, o)
        if r is None or r[0] != 0x30:
            return None
        vo, ve = r[1], r[2]
        r1 = _ber_read(d, vo)
        if r1 is None or r1[0] != 0x06:
            return None
        r2 = _ber_read(d, r1[2])
        if r2 is None:
            return None
        vbs.append((_oid_decode(d[r1[1]:r1[2]]), r2[0], d[r2[1]:r2[2]]))
        o = ve
    out['varbinds'] = vbs
    return out
