"""Stateless schedule explorer for E3 checks (the explore(prefix) discipline of DESIGN 3).

An *execution* is a deterministic function of its choice list.  The check's run function receives a
Chooser and calls chooser.choose(n, label) at every choice point; beyond the recorded prefix the answer
is 0 (the default: "keep running the same actor").  explore() enumerates all choice lists breadth-first
by number of deviations (non-zero choices), so that bounds 0,1,2,... are completed in order without
re-running anything; when no execution has an untried alternative left the whole space is done.
"""
import hashlib
import time

from .core import HarnessError


class Chooser:
    def __init__(self, prefix=()):
        self.prefix = list(prefix)
        self.points = []          # (arity, label, chosen)

    def choose(self, n, label=''):
        i = len(self.points)
        if n < 1:
            raise HarnessError('choice point with no alternative: %s' % (label,))
        c = self.prefix[i] if i < len(self.prefix) else 0
        if c >= n:
            raise HarnessError('replay divergence at choice %d (%s): recorded choice %d but arity is %d' % (i, label, c, n))
        self.points.append((n, label, c))
        return c

    def choices(self):
        return [p[2] for p in self.points]

    def labels(self):
        return [p[1] for p in self.points]


def deviations(choices):
    return sum(1 for c in choices if c)


def explore(run, on_exec, max_dev=None, t_end=None, max_exec=None):
    """run(chooser) -> x ; on_exec(chooser, x) -> truthy to stop the exploration (e.g. enough violations).

    Returns dict(executions, bound_completed (largest k such that every choice list with <= k deviations was
    run; 'all' when the space is exhausted), complete (bool), per_bound {k: executions}, stopped (reason|None)).
    """
    level = [[]]
    k = 0
    n_exec = 0
    per_bound = {}
    stopped = None
    bound_completed = -1
    cut = False           # an untried alternative was skipped because of max_dev
    while level:
        nxt = []
        for prefix in level:
            if t_end is not None and time.time() > t_end:
                stopped = 'deadline'
                break
            if max_exec is not None and n_exec >= max_exec:
                stopped = 'max_exec'
                break
            ch = Chooser(prefix)
            x = run(ch)
            n_exec += 1
            per_bound[k] = per_bound.get(k, 0) + 1
            if len(ch.points) < len(prefix):
                raise HarnessError('replay divergence: execution ended after %d choice points, prefix has %d' % (len(ch.points), len(prefix)))
            if on_exec(ch, x):
                stopped = 'on_exec'
                break
            cs = ch.choices()
            for i in range(len(prefix), len(ch.points)):
                for alt in range(1, ch.points[i][0]):
                    if max_dev is not None and k + 1 > max_dev:
                        cut = True
                    else:
                        nxt.append(cs[:i] + [alt])
        if stopped:
            break
        bound_completed = k
        level = nxt
        k += 1
    return {'executions': n_exec, 'bound_completed': bound_completed, 'exhausted': stopped is None and not cut,
            'per_bound': per_bound, 'stopped': stopped}


def count_linear_extensions(chains):
    """Number of interleavings of independent chains of the given lengths (multinomial)."""
    from math import factorial
    n = factorial(sum(chains))
    for c in chains:
        n //= factorial(c)
    return n


def h64(*parts):
    h = hashlib.blake2b(digest_size=8)
    for p in parts:
        if isinstance(p, str):
            p = p.encode('latin1', 'replace')
        h.update(p)
        h.update(b'\0')
    return int.from_bytes(h.digest(), 'big')
