"""Independent, strict reference HTTP/1.x message codecs used as oracles by the E3 checks.

They only implement what RFC 9112 requires for well-formed messages; anything else is reported
as an error rather than guessed at.  They never look at Squid's own idea of a message.
"""
import re

TOKEN = re.compile(rb"^[!#$%&'*+\-.^_`|~0-9A-Za-z]+$")


class Msg:
    def __init__(self):
        self.kind = None            # 'request' | 'response'
        self.start = b''            # start line without CRLF
        self.method = b''
        self.target = b''
        self.version = b''
        self.status = 0
        self.reason = b''
        self.headers = []           # list of (name, value) in order, value OWS-trimmed
        self.body = b''
        self.framing = None         # 'none' | 'cl' | 'chunked' | 'close'
        self.complete = False       # whole message (incl. body) present
        self.head_complete = False
        self.error = None           # reason the bytes are not a well-formed message
        self.consumed = 0           # bytes of input used by this message
        self.trailers = []
        self.chunk_sizes = []
        self.declared_length = None

    def get(self, name, default=None):
        name = name.lower()
        vals = [v for n, v in self.headers if n.lower() == name]
        return vals[0] if vals else default

    def get_all(self, name):
        name = name.lower()
        return [v for n, v in self.headers if n.lower() == name]

    def has(self, name):
        return self.get(name) is not None

    def __repr__(self):
        return '<Msg %s %r hdrs=%d body=%d framing=%s complete=%s err=%s>' % (
            self.kind, self.start[:60], len(self.headers), len(self.body), self.framing, self.complete, self.error)


def _parse_head(data, m):
    end = data.find(b'\r\n\r\n')
    if end < 0:
        return None
    head = data[:end]
    lines = head.split(b'\r\n')
    m.start = lines[0]
    for ln in lines[1:]:
        if ln[:1] in (b' ', b'\t'):
            m.error = 'obs-fold in header section'
            return end + 4
        if b':' not in ln:
            m.error = 'header line without colon: %r' % ln[:60]
            return end + 4
        n, v = ln.split(b':', 1)
        if not TOKEN.match(n):
            m.error = 'bad field name %r' % n[:60]
            return end + 4
        if b'\r' in v or b'\n' in v or b'\0' in v:
            m.error = 'bad field value for %r' % n
            return end + 4
        m.headers.append((n.decode('latin1'), v.strip(b' \t').decode('latin1')))
    m.head_complete = True
    return end + 4


def _decode_chunked(data, m):
    """Returns number of bytes consumed if complete, None if incomplete; sets m.error on bad syntax."""
    pos = 0
    body = []
    while True:
        e = data.find(b'\r\n', pos)
        if e < 0:
            if len(data) - pos > 4096:
                m.error = 'chunk-size line too long'
            m.body = b''.join(body)
            return None
        line = data[pos:e]
        size_part = line.split(b';', 1)[0].strip(b' \t')
        if not re.match(rb'^[0-9A-Fa-f]{1,16}$', size_part):
            m.error = 'bad chunk-size %r' % line[:40]
            m.body = b''.join(body)
            return None
        size = int(size_part, 16)
        pos = e + 2
        if size == 0:
            # trailer section
            while True:
                e = data.find(b'\r\n', pos)
                if e < 0:
                    m.body = b''.join(body)
                    return None
                ln = data[pos:e]
                pos = e + 2
                if ln == b'':
                    m.body = b''.join(body)
                    m.complete = True
                    return pos
                if b':' not in ln:
                    m.error = 'bad trailer line %r' % ln[:40]
                    m.body = b''.join(body)
                    return None
                n, v = ln.split(b':', 1)
                m.trailers.append((n.decode('latin1'), v.strip().decode('latin1')))
        if len(data) < pos + size + 2:
            body.append(data[pos:pos + size])
            m.body = b''.join(body)
            return None
        body.append(data[pos:pos + size])
        m.chunk_sizes.append(size)
        if data[pos + size:pos + size + 2] != b'\r\n':
            m.error = 'chunk data not followed by CRLF'
            m.body = b''.join(body)
            return None
        pos += size + 2


def _framing_headers(m):
    """Returns (te_chunked, content_length or None); sets m.error on ambiguity."""
    tes = m.get_all('transfer-encoding')
    cls = m.get_all('content-length')
    te_chunked = False
    if tes:
        codings = [c.strip().lower() for v in tes for c in v.split(',') if c.strip()]
        if codings and codings[-1] == 'chunked':
            te_chunked = True
            if codings.count('chunked') != 1:
                m.error = 'chunked applied more than once'
        else:
            m.error = 'Transfer-Encoding without final chunked: %r' % tes
    cl = None
    if cls:
        vals = set()
        for v in cls:
            for item in v.split(','):
                item = item.strip()
                if not re.match(r'^[0-9]+$', item):
                    m.error = 'bad Content-Length %r' % v
                    return te_chunked, None
                vals.add(int(item))
        if len(vals) != 1:
            m.error = 'conflicting Content-Length %r' % cls
            return te_chunked, None
        cl = vals.pop()
    return te_chunked, cl


def parse_response(data, request_method='GET', eof=False):
    """Parse ONE response from data (bytes received so far; eof: the connection has been closed)."""
    m = Msg()
    m.kind = 'response'
    # skip interim 1xx responses
    off = 0
    while True:
        mm = Msg()
        mm.kind = 'response'
        n = _parse_head(data[off:], mm)
        if n is None:
            m.error = mm.error
            m.consumed = off
            return m
        if mm.error:
            mm.consumed = off + n
            return mm
        sm = re.match(rb'^(HTTP/1\.[01]) ([0-9]{3})(?: (.*))?$', mm.start)
        if not sm:
            mm.error = 'bad status line %r' % mm.start[:80]
            return mm
        mm.version, mm.status, mm.reason = sm.group(1), int(sm.group(2)), sm.group(3) or b''
        if 100 <= mm.status < 200 and mm.status != 101:
            off += n
            continue
        m = mm
        break
    body_start = off + n
    rest = data[body_start:]
    te_chunked, cl = _framing_headers(m)
    m.declared_length = cl
    if m.error:
        return m
    if request_method == 'HEAD' or m.status in (204, 304) or (request_method == 'CONNECT' and 200 <= m.status < 300):
        m.framing = 'none'
        m.complete = True
        m.consumed = body_start
        return m
    if te_chunked:
        m.framing = 'chunked'
        k = _decode_chunked(rest, m)
        if k is not None:
            m.consumed = body_start + k
        return m
    if cl is not None:
        m.framing = 'cl'
        m.body = rest[:cl]
        if len(rest) >= cl:
            m.complete = True
            m.consumed = body_start + cl
        return m
    m.framing = 'close'
    m.body = rest
    m.complete = eof
    m.consumed = len(data)
    return m


def parse_request(data):
    """Parse ONE request from data (what an origin received so far)."""
    m = Msg()
    m.kind = 'request'
    n = _parse_head(data, m)
    if n is None:
        return m
    if m.error:
        m.consumed = n
        return m
    sm = re.match(rb'^([!#$%&\'*+\-.^_`|~0-9A-Za-z]+) (\S+) (HTTP/1\.[01])$', m.start)
    if not sm:
        m.error = 'bad request line %r' % m.start[:80]
        return m
    m.method, m.target, m.version = sm.group(1), sm.group(2), sm.group(3)
    te_chunked, cl = _framing_headers(m)
    m.declared_length = cl
    if m.error:
        return m
    if te_chunked and cl is not None:
        m.error = 'both Transfer-Encoding and Content-Length'
        return m
    rest = data[n:]
    if te_chunked:
        m.framing = 'chunked'
        k = _decode_chunked(rest, m)
        if k is not None:
            m.consumed = n + k
        return m
    if cl is not None:
        m.framing = 'cl'
        m.body = rest[:cl]
        if len(rest) >= cl:
            m.complete = True
            m.consumed = n + cl
        return m
    m.framing = 'none'
    m.complete = True
    m.consumed = n
    return m


def parse_requests(data):
    """Split a byte stream received by an origin into consecutive requests."""
    out = []
    while data:
        m = parse_request(data)
        out.append(m)
        if m.error or not m.complete or m.consumed <= 0:
            break
        data = data[m.consumed:]
    return out


def parse_responses(data, methods, eof=False):
    out = []
    i = 0
    while data and i < len(methods):
        m = parse_response(data, methods[i], eof)
        out.append(m)
        if m.error or not m.complete or m.consumed <= 0:
            break
        data = data[m.consumed:]
        i += 1
    return out, data


def body_pattern(version, n, salt=0):
    """Deterministic body: byte i of version v = f(v, i), period 251 (prime), so any mix, shift, loss or
    duplication at any offset is detectable."""
    base = (version * 37 + salt * 101) % 251
    period = bytes((base + i) % 251 for i in range(251))
    reps = n // 251 + 1
    return (period * reps)[:n]


def chunk_encode(body, sizes=None, ext=b'', trailer=b''):
    out = []
    pos = 0
    if sizes is None:
        sizes = [len(body)] if body else []
    for s in sizes:
        if s <= 0:
            continue
        out.append(b'%x%s\r\n' % (s, ext) + body[pos:pos + s] + b'\r\n')
        pos += s
    if pos < len(body):
        out.append(b'%x\r\n' % (len(body) - pos) + body[pos:] + b'\r\n')
    out.append(b'0\r\n' + trailer + b'\r\n')
    return b''.join(out)
