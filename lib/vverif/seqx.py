"""E1 helper: seq.build() without the libtool wrapper at link time.

seq.build() links through `libtool --mode=link`, a shell script that needs minutes for the ~200-token link
lines of the big link sets (tests/testCacheManager) on a loaded machine.  All libraries of the link sets are
*convenience* libraries with empty dependency_libs, for which libtool does nothing but replace `dir/libX.la`
by `dir/.libs/libX.a`; build() below does that substitution itself and calls g++ directly.  Everything else
(vbuild of the link set and of every contributing library directory, compilation of harness and tree
sources, object replacement) is seq.build()'s own code: only seq._link_line is wrapped during the call.
"""
import os
import shlex

from . import seq
from .core import HarnessError


def _direct(ctx, subdir, line):
    d = os.path.join(ctx.tree, subdir)
    toks = shlex.split(line)
    if '--mode=link' not in toks:
        return line
    toks = toks[toks.index('--mode=link') + 1:]
    out = []
    for t in toks:
        if t.endswith('.la'):
            la = os.path.normpath(os.path.join(d, t))
            a = os.path.join(os.path.dirname(la), '.libs', os.path.basename(la)[:-3] + '.a')
            if not os.path.exists(a):
                raise HarnessError('seqx: no static archive for %s' % t)
            with open(la) as f:
                for l in f:
                    if l.startswith('dependency_libs=') and l.split('=', 1)[1].strip().strip("'").strip():
                        raise HarnessError('seqx: %s has dependency_libs; use seq.build' % t)
            out.append(os.path.relpath(a, d))
        else:
            out.append(t)
    # seq.build() looks for '/bin/...libtool' only in _link_line, which we have replaced: return a plain command line
    return ' '.join(shlex.quote(t) for t in out)


def build(ctx, linkset, sources, subdir='src', **kw):
    """Same arguments and result as seq.build()."""
    orig_ll, orig_ld = seq._link_line, seq.lib_dirs_of

    def link_line(c, sd, target):
        return _direct(c, sd, orig_ll(c, sd, target))

    def lib_dirs_of(c, sd, ls):
        seq._link_line = orig_ll          # the directory list is derived from the .la tokens
        try:
            return orig_ld(c, sd, ls)
        finally:
            seq._link_line = link_line

    seq._link_line, seq.lib_dirs_of = link_line, lib_dirs_of
    try:
        return seq.build(ctx, linkset, sources, subdir=subdir, **kw)
    finally:
        seq._link_line, seq.lib_dirs_of = orig_ll, orig_ld
