"""Shared plumbing for the disk-cache restart checks (C16 crash consistency, C17 clean restart), engine E3.

A CacheWorld is one cache directory (rock or ufs; prepared once and copied per execution) that is served
by a sequence of squid instances ("lives"): one life runs the scripted workload (and may be SIGKILLed by
the shim at the n-th cache-file mutation, or shut down cleanly), the next life is a normal instance
started on the same directory.  The driver plays the origin; every response is a (url, version) pair with
a deterministic body (period 251, phase unique per pair), so a hit can be compared byte for byte with what
the origin really served earlier.

URLs are http://origin.test:<P>/o<k>; origin.test is mapped (hosts file of the instance) to a loopback
address that is private to the shard (127.0.0.<2+shard>), so store keys - and therefore prepared cache
directories and mutation logs - are identical in all shards.
"""
import hashlib
import os
import shutil
import time

from . import httpref
from . import lockstep as ls
from .core import HarnessError

# PURGE is only enabled when some ACL names the method
_COMMON = 'maximum_object_size 400 KB\nacl vpurge method PURGE\nhttp_access allow vpurge\n'
ROCK_SLOT = 32768
ROCK_HDR = 40          # sizeof(Rock::DbCellHeader)
# store -> (cache_dir template, extra squid.conf)
STORES = {
    # 31 slots of 32 KB: pressure is reached after ~30 slot writes
    'rock': ('rock %%s 1 slot-size=%d max-size=400000' % ROCK_SLOT, _COMMON),
    # 1 MB, watermarks lowered so that replacement starts at ~110 KB
    'ufs': ('ufs %s 1 2 2', _COMMON + 'cache_swap_low 9\ncache_swap_high 11\n'),
    'ufs-ample': ('ufs %s 16 4 4', _COMMON),
    'rock-ample': ('rock %s 16 slot-size=4096 max-size=400000', _COMMON),
}
MISS_VER = 9           # version served (uncacheable) to post-restart probes


def body_of(uidx, ver, size):
    """Exactly `size` bytes: a text line naming (url, version), then the period-251 pattern whose phase depends
    on both - so bytes of another version / another URL / another offset never match."""
    head = ('%s\n' % tag_of(uidx, ver)).encode('latin1')
    return (head + httpref.body_pattern(ver, max(0, size - len(head)), salt=uidx))[:size]


def tag_of(uidx, ver):
    return 'u%d-v%d' % (uidx, ver)


class Probe:
    def __init__(self):
        self.uidx = None
        self.kind = None       # 'hit' | 'miss' | 'error' | 'died'
        self.status = 0
        self.tag = None        # X-V of the response
        self.body = b''
        self.problem = None    # oracle verdict for hits (None = fine)
        self.ver = None        # version whose bytes the hit equals

    def summary(self):
        return 'u%d:%s:%s:%s%s' % (self.uidx, self.kind, self.status, self.tag,
                                   ':' + hashlib.sha1(self.body).hexdigest()[:10] if self.kind in ('hit', 'error') else '')


def origin_port(pid):
    return ls.port_base_for_check(pid, 0, slot=1) + 9


def squid_port_base(pid, shard):
    """shard -1, -2 = preparation runs (template / counting) in the spare block: 10 ports each."""
    if shard < 0:
        return ls.port_base_for_check(pid, 0, slot=1) + 10 * (-shard - 1)
    return ls.port_base_for_check(pid, shard)


class CacheWorld:
    """One cache directory + origin listener; squid lives come and go."""

    def __init__(self, ctx, name, shard, store, template=None):
        self.ctx = ctx
        self.name = name
        self.port_base = squid_port_base(ctx.pid, shard)
        self.store_kind = store
        self.cache_dir, self.conf = STORES[store]
        self.template = template
        self.origin_ip = '127.0.0.%d' % (2 + (shard if shard >= 0 else 15 - shard))
        self.origin_port = origin_port(ctx.pid)
        self.origin = ls.Listener(self.origin_port, host=self.origin_ip)
        self.w = None
        self.sq = None
        self.life = 0
        self.current = {}        # uidx -> (ver, size) the origin serves now
        self.served = {}         # uidx -> list of (ver, size) the origin has completely sent so far
        self.kicks = 0
        self.starts = 0
        self.mutlog = None
        self.children = []

    # -- lives
    def _mk(self, extra_env, keep):
        sq = ls.Squid(self.ctx, self.name, self.port_base, cache_dir=self.cache_dir, conf=self.conf,
                      extra_env=extra_env, keep_dir=keep)
        sq.set_hosts({'origin.test': self.origin_ip})
        w = ls.World.__new__(ls.World)
        w.httpref = httpref
        w.sq = sq
        w.origin_port = self.origin_port
        w.origin = self.origin
        w.oconns = []
        w.total_origin_requests = 0
        # the virtual clock never runs backwards across lives (the first life starts one minute after the epoch,
        # i.e. after the life that may have prepared the template)
        sq.now_us = (self.sq.now_us + 1_000_000) if self.sq is not None else ls.T0_US + 60_000_000
        self.w, self.sq = w, sq
        return sq

    def quiesce(self, timeout=5.0):
        """Wait (real time) until the unlinkd helper of the running instance has worked off its queue, i.e. is
        blocked reading its stdin while squid is idle: keeps the order of its unlinks relative to squid's later
        actions fixed."""
        dl = time.time() + timeout
        for pid in self.children:
            try:
                if not os.readlink('/proc/%d/exe' % pid).endswith('unlinkd'):
                    continue
            except OSError:
                continue
            while time.time() < dl:
                try:
                    with open('/proc/%d/syscall' % pid) as f:
                        t = f.read().split()
                except OSError:
                    break
                if len(t) >= 2 and t[0] == '0' and t[1] == '0x0':
                    break
                time.sleep(0.002)

    def _bring_up(self, sq, ready_s=None):
        """Kick the fresh process until it listens and has finished rebuilding.  None = up; str = it died or did
        not become ready within 60 s of virtual time (squid's fault).  Too slow in real time = HarnessError."""
        self.starts += 1
        ready_s = ready_s or max(120.0, 6 * ls.WATCHDOG_S)
        deadline = time.time() + ready_s
        advances = 0
        while True:
            if not sq.alive():
                sq._pump(0.05)
                return 'squid exited with status %s during start-up' % sq.proc.returncode
            live = sq.live_slots()
            if live and all(s.idle for s in live):
                log = sq.cache_log()
                if 'Accepting HTTP Socket connections' in log and 'Finished rebuilding storage' in log:
                    break
                if advances >= 600:
                    return 'squid is alive but not listening / not done rebuilding after 60 s of virtual time'
                sq.advance(100, rounds=1)
                advances += 1
            else:
                sq._pump(0.05)
            if time.time() > deadline:
                st = ''
                try:
                    with open('/proc/%d/stat' % sq.proc.pid) as f:
                        st = 'state ' + f.read().split(') ', 1)[1][:1]
                    with open('/proc/%d/syscall' % sq.proc.pid) as f:
                        st += ' syscall ' + ' '.join(f.read().split()[:2])
                except OSError:
                    pass
                raise HarnessError('squid %s not ready after %ds of real time (%d clock advances, %d control connections, process %s): %s' % (
                    self.name, ready_s, advances, len(sq.slots), st, sq.cache_log()[-400:]))
        for _ in range(3):
            sq.advance(50, rounds=1)
        if not sq.alive():
            return 'squid exited with status %s right after start-up' % sq.proc.returncode
        try:
            with open('/proc/%d/task/%d/children' % (sq.proc.pid, sq.proc.pid)) as f:
                self.children = [int(x) for x in f.read().split()]
        except (OSError, ValueError):
            self.children = []
        return None

    def first_life(self, crash_at=0, crash_mode='after', count=True, init=False):
        """Start the workload instance on a copy of the template (init=True: on a fresh `squid -z` directory).
        Returns None when it is up, or a string when it died during start-up (crash point inside start-up)."""
        sq = self._mk({}, keep=False)
        self.mutlog = os.path.join(sq.dir, 'mut.log')
        env = {'VSHIM_CACHE_PREFIX': sq.cache_path}
        if count:
            env['VSHIM_COUNT_FILE'] = self.mutlog
        if crash_at:
            env['VSHIM_CRASH_AT'] = str(crash_at)
            env['VSHIM_CRASH_MODE'] = crash_mode
        sq.extra_env = env
        if self.template:
            shutil.copytree(self.template, sq.cache_path)
        elif not init:
            raise HarnessError('CacheWorld without template')
        self.life = 1
        sq.start(wait_ready=False, fresh_cache=init)
        return self._bring_up(sq)

    def end_life(self):
        """Reap the current instance (already dead or to be killed), wait for its unlinkd child to drain and
        exit (it outlives a SIGKILLed squid and finishes the queued unlinks), and set the logs aside."""
        if self.sq is None:
            return
        self.kicks += self.sq.kicks
        for oc in self.w.oconns:
            oc.c.close()
        self.w.oconns = []
        self.sq.kill()
        dl = time.time() + 10
        for pid in self.children:
            while os.path.exists('/proc/%d' % pid) and time.time() < dl:
                try:
                    with open('/proc/%d/stat' % pid) as f:
                        if f.read().split(') ', 1)[1][0] == 'Z':
                            break
                except (OSError, IndexError):
                    break
                time.sleep(0.01)
        self.children = []
        d = self.sq.dir
        for f in os.listdir(d):
            if f in ('cache.log', 'access.log', 'stdout') or f.startswith('asan.'):
                os.replace(os.path.join(d, f), os.path.join(d, 'life%d.%s' % (self.life, f)))

    def restart(self):
        """Start a normal instance on the same directory.  Returns None when it came up (listening, rebuild
        finished) or a string describing why it did not."""
        self.end_life()
        sq = self._mk({}, keep=True)
        self.life += 1
        sq.start(wait_ready=False, fresh_cache=False)
        r = self._bring_up(sq)
        if r is not None:
            r += ': %s | cache.log tail: %s' % ('; '.join(sq.health_problems())[:1500], sq.cache_log()[-500:])
        return r

    def shutdown(self):
        """Clean shutdown (SIGTERM, virtual time).  Returns the exit status."""
        return self.sq.shutdown()

    def crashed(self):
        if self.sq is None or self.sq.proc is None:
            return False
        if not self.sq.alive():
            return True
        if self.sq.slots and not self.sq.live_slots():
            # the control channel is closed: the process is on its way out; wait for the exit status
            try:
                self.sq.proc.wait(timeout=10)
            except Exception:
                pass
            return not self.sq.alive()
        return False

    def exit_status(self):
        return self.sq.proc.returncode if self.sq is not None and self.sq.proc is not None else None

    def save_cache_as(self, path):
        """Copy the cache directory of the (stopped) instance: a template for later executions."""
        if os.path.isdir(path):
            shutil.rmtree(path)
        shutil.copytree(self.sq.cache_path, path)
        return path

    # -- origin
    def url(self, uidx):
        return 'http://origin.test:%d/o%d' % (self.origin_port, uidx)

    def _responder(self, m):
        t = m.target.decode('latin1')
        try:
            uidx = int(t.rsplit('/o', 1)[1])
        except (IndexError, ValueError):
            return b'HTTP/1.1 404 Not Found\r\nContent-Length: 0\r\n\r\n'
        ver, size = self.current[uidx]
        body = body_of(uidx, ver, size)
        cc = 'no-store' if ver == MISS_VER else 'max-age=864000'
        h = ('HTTP/1.1 200 OK\r\nDate: %s\r\nContent-Type: application/octet-stream\r\nContent-Length: %d\r\n'
             'Cache-Control: %s\r\nETag: "%s"\r\nX-V: %s\r\n\r\n' % (
                 ls.http_date(self.sq.now_us), len(body), cc, tag_of(uidx, ver), tag_of(uidx, ver)))
        self.served.setdefault(uidx, [])
        if ver != MISS_VER and (ver, size) not in self.served[uidx]:
            self.served[uidx].append((ver, size))
        return h.encode('latin1') + body

    # -- client actions; all return None when squid died under them
    def request(self, uidx, method='GET', extra=''):
        if self.crashed():
            return None
        req = ('%s %s HTTP/1.1\r\nHost: origin.test:%d\r\n%s\r\n' % (method, self.url(uidx), self.origin_port, extra)).encode('latin1')
        try:
            c = self.sq.client()
        except OSError:
            if self.crashed():
                return None
            raise
        try:
            ex = self.w.fetch(req, self._responder, client=c, max_steps=200)
        except (BrokenPipeError, ConnectionError):
            if self.crashed():
                return None
            raise
        self.w.close_origin_conns()
        if self.crashed():
            return None
        return ex

    def store(self, uidx, ver, size, reload=False, must_fetch=True):
        """Make the origin serve (ver,size) for the URL and fetch it through squid (reload => overwrite).
        Returns the Exchange, or None when squid died."""
        self.current[uidx] = (ver, size)
        ex = self.request(uidx, extra='Cache-Control: no-cache\r\n' if reload else '')
        if ex is None:
            return None
        r = ex.response
        if must_fetch:
            if r is None or r.error or not r.complete or r.status != 200 or r.body != body_of(uidx, ver, size):
                raise HarnessError('store of %s did not relay the origin response: %r (origin requests %d)' % (
                    tag_of(uidx, ver), r, len(ex.origin_requests)))
            if not ex.origin_requests:
                raise HarnessError('store of %s was answered without contacting the origin' % tag_of(uidx, ver))
        return ex

    def purge(self, uidx):
        ex = self.request(uidx, method='PURGE')
        if ex is None:
            return None
        return ex.response.status if ex.response else 0

    def probe(self, uidx, miss_size=700):
        """GET the URL; classify as hit (origin not contacted) or miss and apply the byte-identity oracle to hits."""
        p = Probe()
        p.uidx = uidx
        allowed = list(self.served.get(uidx, []))
        self.current[uidx] = (MISS_VER, miss_size)
        ex = self.request(uidx)
        if ex is None:
            p.kind = 'died'
            return p
        r = ex.response
        p.status = r.status if r and not r.error else 0
        p.body = r.body if r else b''
        p.tag = r.get('x-v') if r and not r.error else None
        if ex.origin_requests:
            p.kind = 'miss'
            return p
        p.kind = 'hit'
        if r is None or r.error or not r.complete:
            p.problem = 'response served without contacting the origin is not a complete well-formed message: %r' % (r,)
            return p
        if p.status != 200:
            p.kind = 'error'       # squid-generated error without contacting the origin: not a hit
            return p
        for ver, size in allowed:
            if p.body == body_of(uidx, ver, size):
                if p.tag != tag_of(uidx, ver):
                    p.problem = 'hit body is version %s but its header says X-V: %s' % (tag_of(uidx, ver), p.tag)
                p.ver = ver
                return p
        p.problem = describe_mismatch(uidx, allowed, p)
        return p

    def close(self):
        try:
            if self.sq is not None:
                self.end_life()
                shutil.rmtree(self.sq.dir, ignore_errors=True)
        finally:
            self.origin.close()


def describe_mismatch(uidx, allowed, p):
    """Say how a hit body differs from the closest version the origin served."""
    best = None
    for ver, size in allowed:
        ref = body_of(uidx, ver, size)
        n = min(len(ref), len(p.body))
        i = 0
        while i < n and ref[i] == p.body[i]:
            i += 1
        if best is None or i > best[0]:
            best = (i, ver, size)
    if best is None:
        return 'hit (X-V %s, %d bytes) for a URL the origin never served' % (p.tag, len(p.body))
    i, ver, size = best
    tail = p.body[i:]
    zeros = tail.count(0)
    return ('hit (X-V %s, status 200, %d body bytes, origin not contacted) is not byte-identical to any version the origin served '
            '%s: closest is %s (%d bytes): first difference at body offset %d, %d of the remaining %d bytes are NUL' % (
                p.tag, len(p.body), [tag_of(uidx, v) for v, s in allowed], tag_of(uidx, ver), size, i, zeros, len(tail)))


def read_mutlog(path, strip_prefix=None):
    try:
        with open(path) as f:
            out = [l.rstrip('\n') for l in f if l.strip()]
    except OSError:
        return []
    if strip_prefix:
        out = [l.replace(strip_prefix, '$C') for l in out]
    return out


def dump_rock(path, slot_size):
    """Slot table of a rock db file (replay aid): slot, key prefix, entrySize, payloadSize, version, firstSlot,
    nextSlot of every non-empty slot, plus the X-V tag if the slot holds the reply header."""
    import re
    import struct
    out = []
    try:
        with open(path, 'rb') as f:
            f.seek(16384)
            i = 0
            while True:
                b = f.read(slot_size)
                if len(b) < ROCK_HDR:
                    break
                k0, k1, esz, psz, ver, first, nxt = struct.unpack('<QQQIIii', b[:ROCK_HDR])
                if first or nxt or psz:
                    body = b[ROCK_HDR:ROCK_HDR + psz]
                    tags = sorted(set(t.decode() for t in re.findall(rb'X-V: (u[0-9]+-v[0-9]+)', body)))
                    out.append('slot %3d key %016x entrySize %6d payload %5d version %d first %3d next %3d %s' % (
                        i, k0, esz, psz, ver, first, nxt, ' '.join(tags)))
                i += 1
    except OSError as e:
        out.append('cannot read %s: %s' % (path, e))
    return out
