"""E1 helper: seq.build() without running the libtool shell script for the final link.

libtool's --mode=link needs 40..300 s for the big link sets (tests/testCacheManager: 200 arguments, 35
convenience libraries) on a loaded machine although the link itself takes 7 s: the script forks sed/expr
per argument.  All libraries involved are uninstalled static convenience libraries, for which libtool
does nothing but replace  dir/libX.la  by  dir/.libs/<old_library>  followed by the archive's
dependency_libs.  build() below does exactly that expansion in Python and calls the compiler driver
directly; everything else (vbuild of the link set and of every directory contributing a .la, the link
line taken from `make -n`, replacement of the test's own object by the harness objects, tree_sources,
drop_objects) is identical to seq.build().  If a .la is not a plain static convenience library the
function falls back to seq.build().
"""
import os
import re
import shlex
import subprocess
from concurrent.futures import ThreadPoolExecutor

from . import seq
from .core import HarnessError, HOME


def _la_info(path):
    old = deps = None
    shared = ''
    with open(path) as f:
        for line in f:
            m = re.match(r"^(old_library|dependency_libs|library_names)='(.*)'\s*$", line)
            if m:
                if m.group(1) == 'old_library':
                    old = m.group(2)
                elif m.group(1) == 'dependency_libs':
                    deps = m.group(2)
                else:
                    shared = m.group(2)
    return old, deps, shared


def _expand(tok, cwd, seen):
    """dir/libX.la -> [dir/.libs/libX.a, <dependency_libs expanded>]; None if not a static convenience library."""
    p = os.path.normpath(os.path.join(cwd, tok))
    if p in seen:
        return []
    seen.add(p)
    old, deps, shared = _la_info(p)
    if not old or shared.strip():
        return None
    a = os.path.join(os.path.dirname(tok), '.libs', old)
    if not os.path.exists(os.path.join(cwd, a)):
        return None
    out = [a]
    for d in shlex.split(deps or ''):
        if d.endswith('.la'):
            sub = _expand(os.path.relpath(d, cwd) if os.path.isabs(d) else d, cwd, seen)
            if sub is None:
                return None
            out += sub
        else:
            out.append(d)
    return out


def build(ctx, linkset, sources, name=None, subdir='src', drop_objects=(), extra_cxx=(), extra_ld=(),
          ubsan=False, tree_sources=(), tree_flags=()):
    """Same contract as seq.build()."""
    ctx.vbuild('%s:%s' % (subdir, linkset))
    libdirs = seq.lib_dirs_of(ctx, subdir, linkset)
    if libdirs:
        ctx.vbuild(*(['%s:all' % d for d in libdirs] + ['%s:%s' % (subdir, linkset)]))
    name = name or ctx.pid
    exe = os.path.join(ctx.objdir, name)
    d = os.path.join(ctx.tree, subdir)
    flags = seq.cxxflags(ctx, subdir) + list(extra_cxx)
    if ubsan:
        flags += ['-fsanitize=undefined', '-fno-sanitize-recover=undefined']
    jobs = []
    for s in sources:
        sp = s if os.path.isabs(s) else os.path.join(HOME, 'checks', s)
        o = os.path.join(ctx.objdir, name + '-' + os.path.basename(sp) + '.o')
        jobs.append((['ccache', 'g++'] + flags + ['-I' + d, '-c', sp, '-o', o], o))
    for s in tree_sources:
        sp = os.path.join(d, s)
        o = os.path.join(ctx.objdir, name + '-tree-' + s.replace('/', '_') + '.o')
        jobs.append((['ccache', 'g++'] + seq.cxxflags(ctx, subdir) + list(tree_flags) + ['-I' + d, '-I' + os.path.dirname(sp), '-c', sp, '-o', o], o))
    env = dict(os.environ, CCACHE_DIR=os.environ.get('VERIF_CCACHE', '/var/tmp/squid-verif/ccache'))

    def comp(j):
        r = subprocess.run(j[0], capture_output=True, text=True, env=env, cwd=d)
        if r.returncode != 0:
            raise HarnessError('compile failed: %s\n%s' % (' '.join(j[0][-3:]), r.stderr[-3000:]))
        return j[1]
    with ThreadPoolExecutor(max_workers=8) as ex:
        objs = list(ex.map(comp, jobs))

    toks = shlex.split(seq._link_line(ctx, subdir, linkset))
    # drop "/bin/bash ../libtool --tag=CXX --mode=link": the compiler driver command starts after --mode=link
    try:
        start = next(i for i, t in enumerate(toks) if t.startswith('--mode=')) + 1
    except StopIteration:
        start = None
    out = []
    seen = set()
    ok = start is not None
    skip = False
    for t in (toks[start:] if ok else []):
        if skip:
            skip = False
            continue
        if t == '-o':
            out += ['-o', exe]
            skip = True
            continue
        if t == linkset + '.o' or t == '-lcppunit':
            if t.endswith('.o'):
                out += objs
            continue
        if re.match(r'^tests/test[A-Za-z0-9_]*\.o$', t):
            continue
        if any(re.search(p, t) for p in drop_objects):
            continue
        if t.endswith('.la'):
            exp = _expand(t, d, seen)
            if exp is None:
                ok = False
                break
            out += exp
            continue
        if t in ('-static', '-all-static', '-no-install', '-export-dynamic'):
            if t == '-export-dynamic':
                out.append('-rdynamic')
            continue
        out.append(t)
    if not ok:
        return seq.build(ctx, linkset, sources, name=name, subdir=subdir, drop_objects=drop_objects, extra_cxx=extra_cxx,
                         extra_ld=extra_ld, ubsan=ubsan, tree_sources=tree_sources, tree_flags=tree_flags)
    out += seq.SAN + list(extra_ld)
    if ubsan or any('undefined' in f for f in tree_flags):
        out += ['-fsanitize=undefined']
    r = subprocess.run(out, capture_output=True, text=True, cwd=d, env=env)
    if r.returncode != 0:
        raise HarnessError('link failed:\n' + r.stderr[-4000:])
    return exe
