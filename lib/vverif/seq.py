"""E1: build and run sequential small-scope harnesses against real Squid objects.

build(ctx, 'tests/testHttp1Parser', ['h.cc'], ...) links h.cc instead of the test's own object into
the exact object/library set that the repository's own unit test links (rebuilt from the current
tree by vbuild), so the harness exercises the real code.
"""
import json
import os
import re
import shlex
import subprocess
import time
from concurrent.futures import ThreadPoolExecutor

from .core import HarnessError, Violation, HOME

SAN = ['-fsanitize=address', '-fno-omit-frame-pointer']
LAST_RUN = None


def cxxflags(ctx, subdir='src'):
    t = ctx.tree
    return ['-std=c++17', '-DHAVE_CONFIG_H', '-I' + t, '-I' + t + '/include', '-I' + t + '/lib',
            '-I' + t + '/src', '-I' + t + '/libltdl', '-I' + os.path.join(HOME, 'lib'),
            '-O1', '-g1', '-fno-access-control', '-Wno-error', '-w'] + SAN


def _link_line(ctx, subdir, target):
    """The libtool link command make would use for <target> (without running it)."""
    d = os.path.join(ctx.tree, subdir)
    obj = target + '.o'
    r = subprocess.run(['make', '-C', d, '-n', '-W', obj, target], capture_output=True, text=True)
    lines = [l for l in r.stdout.replace('\\\n', ' ').splitlines() if '--mode=link' in l and ('-o ' + target) in l]
    if not lines:
        raise HarnessError('cannot find link line for %s/%s: %s' % (subdir, target, r.stderr[-400:]))
    line = lines[-1]
    # strip leading make echo noise such as 'echo "  CXXLD  ..." ;'
    idx = line.find('/bin/')
    m = re.search(r'(/bin/\w*sh\s+\S*libtool\b.*)$', line)
    if not m:
        raise HarnessError('unparsable link line: ' + line[:300])
    return m.group(1)


def lib_dirs_of(ctx, subdir, linkset):
    """Directories (relative to the tree root, deduplicated, link-line order) of the libtool archives the
    link set uses, except <subdir> itself."""
    toks = shlex.split(_link_line(ctx, subdir, linkset))
    base = os.path.join(ctx.tree, subdir)
    out = []
    for t in toks:
        if not t.endswith('.la'):
            continue
        d = os.path.dirname(os.path.normpath(os.path.join(base, t)))
        rel = os.path.relpath(d, ctx.tree)
        if rel.startswith('..') or rel == os.path.normpath(subdir) or rel in out:
            continue
        if os.path.exists(os.path.join(d, 'Makefile')):
            out.append(rel)
    return out


def build(ctx, linkset, sources, name=None, subdir='src', drop_objects=(), extra_cxx=(), extra_ld=(),
          ubsan=False, tree_sources=(), tree_flags=()):
    """Compile harness `sources` (paths relative to /verif/checks or absolute) and link them in place of
    <linkset>.o.  tree_sources: files of the scratch tree (relative to subdir) recompiled with tree_flags
    (e.g. -fsanitize=undefined) and linked *before* the libraries so they override the archive members.
    drop_objects: additional object names (regex) to remove from the link line.
    Returns the executable path."""
    ctx.vbuild('%s:%s' % (subdir, linkset))
    # <subdir>/Makefile knows the convenience libraries of other directories (http/libhttp.la,
    # ../lib/libmiscutil.la, ...) only as files, so a changed source below them would be synced but not
    # recompiled: run the default target of every directory that contributes a .la to the link line
    # (recursing into its SUBDIRS, e.g. http/one), then re-make the link set itself.
    libdirs = lib_dirs_of(ctx, subdir, linkset)
    if libdirs:
        ctx.vbuild(*(['%s:all' % d for d in libdirs] + ['%s:%s' % (subdir, linkset)]))
    name = name or ctx.pid
    exe = os.path.join(ctx.objdir, name)
    d = os.path.join(ctx.tree, subdir)
    objs = []
    flags = cxxflags(ctx, subdir) + list(extra_cxx)
    if ubsan:
        flags += ['-fsanitize=undefined', '-fno-sanitize-recover=undefined']
    jobs = []
    for s in sources:
        sp = s if os.path.isabs(s) else os.path.join(HOME, 'checks', s)
        o = os.path.join(ctx.objdir, name + '-' + os.path.basename(sp) + '.o')
        jobs.append((['ccache', 'g++'] + flags + ['-I' + d, '-c', sp, '-o', o], o))
    for s in tree_sources:
        sp = os.path.join(d, s)
        o = os.path.join(ctx.objdir, name + '-tree-' + s.replace('/', '_') + '.o')
        jobs.append((['ccache', 'g++'] + cxxflags(ctx, subdir) + list(tree_flags) + ['-I' + d, '-I' + os.path.dirname(sp), '-c', sp, '-o', o], o))
    env = dict(os.environ, CCACHE_DIR=os.environ.get('VERIF_CCACHE', '/var/tmp/squid-verif/ccache'))

    def comp(j):
        r = subprocess.run(j[0], capture_output=True, text=True, env=env, cwd=d)
        if r.returncode != 0:
            raise HarnessError('compile failed: %s\n%s' % (' '.join(j[0][-3:]), r.stderr[-3000:]))
        return j[1]
    with ThreadPoolExecutor(max_workers=8) as ex:
        objs = list(ex.map(comp, jobs))
    line = _link_line(ctx, subdir, linkset)
    toks = shlex.split(line)
    out = []
    skip = False
    for i, t in enumerate(toks):
        if skip:
            skip = False
            continue
        if t == '-o':
            out += ['-o', exe]
            skip = True
            continue
        if t == linkset + '.o' or t == '-lcppunit':
            if t.endswith('.o'):
                out += objs
            continue
        if re.match(r'^tests/test[A-Za-z0-9_]*\.o$', t):
            continue        # further CppUnit test objects of the same link set
        if any(re.search(p, t) for p in drop_objects):
            continue
        out.append(t)
    out += SAN + list(extra_ld)
    if ubsan or any('undefined' in f for f in tree_flags):
        out += ['-fsanitize=undefined']
    r = subprocess.run(out, capture_output=True, text=True, cwd=d, env=env)
    if r.returncode != 0:
        raise HarnessError('link failed:\n' + r.stderr[-4000:])
    return exe


def build_plain(ctx, sources, name=None, extra_cxx=(), extra_ld=(), objects=()):
    """Compile+link a harness that needs no link set (header-only code or explicitly listed tree objects)."""
    name = name or ctx.pid
    exe = os.path.join(ctx.objdir, name)
    srcs = [s if os.path.isabs(s) else os.path.join(HOME, 'checks', s) for s in sources]
    cmd = ['ccache', 'g++'] + cxxflags(ctx) + list(extra_cxx) + srcs + list(objects) + ['-o', exe] + list(extra_ld)
    env = dict(os.environ, CCACHE_DIR=os.environ.get('VERIF_CCACHE', '/var/tmp/squid-verif/ccache'))
    r = subprocess.run(cmd, capture_output=True, text=True, env=env)
    if r.returncode != 0:
        raise HarnessError('build failed:\n' + r.stderr[-4000:])
    return exe


ASAN_ENV = {'ASAN_OPTIONS': 'detect_leaks=0:abort_on_error=0:halt_on_error=1:allocator_may_return_null=1:detect_odr_violation=0:'
                            'quarantine_size_mb=8:thread_local_quarantine_size_kb=64',
            'UBSAN_OPTIONS': 'halt_on_error=1:print_stacktrace=0'}


def run(ctx, exe, args=(), shards=None, deadline_s=None, cwd=None):
    """Run the harness in `shards` parallel processes and merge their JSON reports."""
    shards = shards or ctx.ncpu
    if deadline_s is None:
        deadline_s = max(10.0, ctx.remaining() - 15)
    env = dict(os.environ)
    env.update(ASAN_ENV)

    def one(i):
        cmd = [exe, '--tier', ctx.tier, '--shard', '%d/%d' % (i, shards), '--deadline-s', str(deadline_s)] + list(args)
        r = subprocess.run(cmd, capture_output=True, env=env, cwd=cwd or ctx.rundir)
        out = r.stdout.decode('utf-8', 'replace')
        try:
            # the report is the last JSON object on stdout
            k = out.rfind('{"evaluations"')
            return json.loads(out[k:]), r.stderr.decode('utf-8', 'replace')[-2000:]
        except Exception:
            raise HarnessError('harness shard %d produced no report (rc=%s): %s | %s' % (
                i, r.returncode, out[-500:], r.stderr.decode('utf-8', 'replace')[-1500:]))
    with ThreadPoolExecutor(max_workers=shards) as ex:
        reps = list(ex.map(one, range(shards)))
    m = {'evaluations': 0, 'deadline_hit': False, 'nfail': 0, 'outcomes': {}, 'counters': {}, 'samples': [],
         'failures': [], 'crashes': [], 'stderr': ''}
    for rep, err in reps:
        m['evaluations'] += rep['evaluations']
        m['deadline_hit'] = m['deadline_hit'] or rep['deadline_hit']
        m['nfail'] += rep['nfail']
        for k, v in rep['outcomes'].items():
            m['outcomes'][k] = m['outcomes'].get(k, 0) + v
        for k, v in rep['counters'].items():
            m['counters'][k] = m['counters'].get(k, 0) + v
        m['samples'] += rep['samples'][:2]
        m['failures'] += rep['failures']
        m['crashes'] += rep['crashes']
        if rep['crashes'] and err:
            m['stderr'] += err
    m['samples'] = m['samples'][:8]
    global LAST_RUN
    LAST_RUN = m          # core.main() falls back on it when a vacuity guard fires on a run that has failures
    return m


def replay_case(ctx, exe, case, args=()):
    env = dict(os.environ)
    env.update(ASAN_ENV)
    r = subprocess.run([exe, '--tier', ctx.tier, '--replay-case', case] + list(args), capture_output=True, env=env,
                       cwd=ctx.rundir)
    out = r.stdout.decode('utf-8', 'replace')
    k = out.rfind('{"evaluations"')
    try:
        rep = json.loads(out[k:])
    except Exception:
        raise HarnessError('replay produced no report: ' + out[-300:] + r.stderr.decode('utf-8', 'replace')[-800:])
    rep['stderr'] = r.stderr.decode('utf-8', 'replace')[-3000:]
    return rep


def violations_from(m, prefix=''):
    """Turn harness failures/crashes into Violation objects (key = explicit key or the case descriptor)."""
    vs = []
    for f in m['failures']:
        key = f['key'] or (prefix + f['case'])
        rc = f['case']
        if ' | replay-case=' in f['msg']:      # E2: "scenario|schedule" is the replay descriptor
            rc = f['msg'].split(' | replay-case=', 1)[1]
        vs.append(Violation(key, '%s: %s' % (f['case'], f['msg']), {'case': rc}))
    for c in m['crashes']:
        vs.append(Violation(prefix + 'crash:' + c['case'], 'crash (%s) at case %s %s' % (c['how'], c['case'], m.get('stderr', '')[-800:]),
                            {'case': c['case']}))
    return vs


def coverage_from(m, rule, nontrivial_classes=None, min_classes=2, extra=None):
    """Standard exploration coverage dict.  distinct_nontrivial = sum of the counts of outcome classes
    named in nontrivial_classes (default: all classes), each case having been counted once by the harness."""
    oc = m['outcomes']
    if len(oc) < min_classes:
        raise HarnessError('vacuity guard: only %d outcome classes observed: %r' % (len(oc), oc))
    if nontrivial_classes is None:
        dn = sum(oc.values())
    else:
        dn = sum(v for k, v in oc.items() if k in nontrivial_classes or any(k.startswith(p) for p in nontrivial_classes if p.endswith(':')))
    cov = {'evaluations': m['evaluations'], 'distinct_nontrivial': dn, 'rule': rule, 'samples': m['samples'],
           'outcome_classes': oc, 'counters': m['counters'], 'exhaustive': not m['deadline_hit'],
           'deadline_hit': m['deadline_hit']}
    if extra:
        cov.update(extra)
    return cov
