"""E3: drive the real (ASan) squid binary in lock-step under the vshim LD_PRELOAD shim.

One *environment action* (send bytes / close / accept / helper reply / clock advance) followed by
settle() is one transition; Squid only runs between a kick and its next idle report, and its
clock is the driver's virtual clock.  See DESIGN 4.3.
"""
import errno
import glob
import os
import re
import select
import shutil
import signal
import socket
import struct
import subprocess
import time

from .core import HarnessError, HOME

T0_US = 1_800_000_000 * 1_000_000      # virtual epoch start: 2027-01-15T08:00:00Z
NOBODY_UID, NOBODY_GID = 65534, 65534
WATCHDOG_S = float(os.environ.get('VERIF_WATCHDOG_S', '20'))
LAST_RUN = None


def shim_path(ctx):
    return os.path.join(ctx.work, 'lib', 'libvshim.so')


def helper_path(ctx):
    return os.path.join(ctx.work, 'lib', 'vhelper')


def ensure_tools(ctx):
    """Build the shim and helper stub (tiny C programs) if missing or stale."""
    d = os.path.join(ctx.work, 'lib')
    os.makedirs(d, exist_ok=True)
    src = os.path.join(HOME, 'lib', 'vshim', 'vshim.c')
    out = shim_path(ctx)
    if not os.path.exists(out) or os.path.getmtime(out) < os.path.getmtime(src):
        r = subprocess.run(['gcc', '-O2', '-fPIC', '-shared', '-o', out + '.tmp%d' % os.getpid(), src, '-ldl'], capture_output=True, text=True)
        if r.returncode:
            raise HarnessError('shim build failed: ' + r.stderr)
        os.replace(out + '.tmp%d' % os.getpid(), out)
    src = os.path.join(HOME, 'lib', 'vshim', 'vhelper.c')
    out = helper_path(ctx)
    if not os.path.exists(out) or os.path.getmtime(out) < os.path.getmtime(src):
        r = subprocess.run(['gcc', '-O2', '-o', out + '.tmp%d' % os.getpid(), src], capture_output=True, text=True)
        if r.returncode:
            raise HarnessError('vhelper build failed: ' + r.stderr)
        os.replace(out + '.tmp%d' % os.getpid(), out)
    os.chmod(d, 0o755)


def build_squid(ctx):
    # top-level default target: src/Makefile knows the libraries of its sub-directories only as files, so
    # 'make -C src squid' alone would link stale archives after a source change below src/*/
    ctx.vbuild('compat:all', 'lib:all', 'src:all')
    ensure_tools(ctx)
    exe = os.path.join(ctx.tree, 'src', 'squid')
    if not os.path.exists(exe):
        raise HarnessError('no squid binary at ' + exe)
    return exe


# ------------------------------------------------------------------ sockets owned by the driver

class Conn:
    """A non-blocking stream socket owned by the driver (client side or accepted origin side)."""

    def __init__(self, sock):
        self.s = sock
        self.s.setblocking(False)
        try:
            self.s.setsockopt(socket.IPPROTO_TCP, socket.TCP_NODELAY, 1)
        except OSError:
            pass
        self.inbuf = b''
        self.eof = False
        self.reset = False
        self.closed = False
        self.sent = b''

    def send(self, data):
        """Send all of data; loopback buffers are large, a stall here means Squid is not reading."""
        if self.closed:
            raise HarnessError('send on closed Conn')
        view = memoryview(data)
        sent = 0
        while sent < len(data):
            try:
                n = self.s.send(view[sent:])
                sent += n
            except BlockingIOError:
                return sent   # receiver not reading (back-pressure); caller decides
            except (BrokenPipeError, ConnectionResetError):
                self.reset = True
                break
        self.sent += bytes(view[:sent])
        return sent

    def pump(self):
        """Read whatever is available now into inbuf; returns number of new bytes."""
        if self.closed or self.eof:
            return 0
        got = 0
        while True:
            try:
                d = self.s.recv(1 << 20)
            except BlockingIOError:
                break
            except (ConnectionResetError, BrokenPipeError):
                self.reset = True
                self.eof = True
                break
            except OSError:
                self.eof = True
                break
            if not d:
                self.eof = True
                break
            self.inbuf += d
            got += len(d)
        return got

    def take(self):
        self.pump()
        d, self.inbuf = self.inbuf, b''
        return d

    def peek(self):
        self.pump()
        return self.inbuf

    def shutdown_wr(self):
        try:
            self.s.shutdown(socket.SHUT_WR)
        except OSError:
            pass

    def close(self):
        if not self.closed:
            self.closed = True
            try:
                self.s.close()
            except OSError:
                pass

    def rst(self):
        """Abortive close (RST)."""
        if not self.closed:
            try:
                self.s.setsockopt(socket.SOL_SOCKET, socket.SO_LINGER, struct.pack('ii', 1, 0))
            except OSError:
                pass
            self.close()


class Listener:
    def __init__(self, port, host='127.0.0.1', backlog=64):
        self.s = socket.socket(socket.AF_INET, socket.SOCK_STREAM)
        self.s.setsockopt(socket.SOL_SOCKET, socket.SO_REUSEADDR, 1)
        self.s.bind((host, port))
        self.s.listen(backlog)
        self.s.setblocking(False)
        self.port = port
        self.host = host
        self.accepted = 0

    def accept_all(self):
        out = []
        while True:
            try:
                c, _ = self.s.accept()
            except BlockingIOError:
                break
            out.append(Conn(c))
            self.accepted += 1
        return out

    def accept1(self):
        try:
            c, _ = self.s.accept()
        except BlockingIOError:
            return None
        self.accepted += 1
        return Conn(c)

    def close(self):
        try:
            self.s.close()
        except OSError:
            pass


class Udp:
    def __init__(self, port=0, host='127.0.0.1'):
        self.s = socket.socket(socket.AF_INET, socket.SOCK_DGRAM)
        self.s.bind((host, port))
        self.s.setblocking(False)
        self.port = self.s.getsockname()[1]

    def sendto(self, data, port, host='127.0.0.1'):
        try:
            self.s.sendto(data, (host, port))
        except OSError:
            pass

    def recv_all(self):
        out = []
        while True:
            try:
                d, a = self.s.recvfrom(65536)
            except (BlockingIOError, ConnectionRefusedError):
                break
            out.append((d, a))
        return out

    def close(self):
        self.s.close()


# ------------------------------------------------------------------ the Squid instance

class Slot:
    def __init__(self, sock):
        self.sock = sock
        self.pid = None
        self.cmd = ''
        self.kid = ''
        self.idle = False
        self.idle_seq = 0
        self.timeout_ms = 0
        self.dead = False


class Squid:
    """One squid instance under the shim.  port_base: this instance uses ports port_base..port_base+19."""

    PORTS = 20

    def __init__(self, ctx, name, port_base, conf='', cache_dir=None, workers=None, http_port_opts='',
                 default_acl=True, extra_env=None, keep_dir=False, memory_cache=False, logformat=None):
        self.ctx = ctx
        self.name = name
        self.port_base = port_base
        self.http_port = port_base
        self.dir = os.path.join(ctx.rundir, name)
        self.keep_dir = keep_dir
        if not keep_dir and os.path.isdir(self.dir):
            shutil.rmtree(self.dir, ignore_errors=True)
        os.makedirs(self.dir, exist_ok=True)
        self.cache_path = os.path.join(self.dir, 'cache')
        self.conf_extra = conf
        self.cache_dir = cache_dir          # e.g. 'rock %s 8 slot-size=1024' (with %s = path) or None
        self.workers = workers              # None => -N (no SMP, no daemon)
        self.http_port_opts = http_port_opts
        self.default_acl = default_acl
        self.extra_env = extra_env or {}
        self.memory_cache = memory_cache
        self.logformat = logformat
        self.now_us = T0_US
        self.proc = None
        self.slots = []
        self.lsock = None
        self.kicks = 0
        self.service = 'v%d' % port_base
        self.started = False

    # ---- configuration
    def write_conf(self):
        t = self.ctx.tree
        L = []
        L.append('http_port 127.0.0.1:%d %s' % (self.http_port, self.http_port_opts))
        L.append('pid_filename %s/squid.pid' % self.dir)
        L.append('cache_log %s/cache.log' % self.dir)
        if self.logformat:
            L.append('logformat vfmt %s' % self.logformat)
            L.append('access_log stdio:%s/access.log logformat=vfmt' % self.dir)
        else:
            L.append('access_log stdio:%s/access.log' % self.dir)
        L.append('cache_store_log none')
        L.append('coredump_dir %s' % self.dir)
        L.append('mime_table %s/src/mime.conf.default' % t)
        L.append('icon_directory %s/icons/silk' % t)
        L.append('error_directory %s/errors/templates' % t)
        L.append('err_page_stylesheet %s/errors/errorpage.css' % t)
        L.append('unlinkd_program %s/src/unlinkd' % t)
        L.append('dns_nameservers 127.0.0.1')
        L.append('hosts_file %s/hosts' % self.dir)
        L.append('visible_hostname squid.verif')
        L.append('shutdown_lifetime 1 second')
        L.append('buffered_logs off')
        L.append('client_db off')
        L.append('via on')
        L.append('forwarded_for on')
        L.append('max_filedescriptors 512')
        if self.workers is not None:
            L.append('workers %d' % self.workers)
        if self.cache_dir:
            os.makedirs(self.cache_path, exist_ok=True)
            L.append('cache_dir ' + (self.cache_dir % self.cache_path if '%s' in self.cache_dir else self.cache_dir))
        if not self.memory_cache:
            if 'cache_mem' not in self.conf_extra:
                L.append('cache_mem 0')
        L.append(self.conf_extra)
        if self.default_acl:
            L.append('http_access allow all')
        hosts = os.path.join(self.dir, 'hosts')
        if not os.path.exists(hosts):
            with open(hosts, 'w') as f:
                f.write('127.0.0.1 localhost origin.test\n')
        p = os.path.join(self.dir, 'squid.conf')
        with open(p, 'w') as f:
            f.write('\n'.join(L) + '\n')
        return p

    def set_hosts(self, mapping):
        with open(os.path.join(self.dir, 'hosts'), 'w') as f:
            f.write('127.0.0.1 localhost\n')
            for name, ip in mapping.items():
                f.write('%s %s\n' % (ip, name))

    # ---- process control
    def _env(self):
        env = {'PATH': '/usr/bin:/bin', 'HOME': self.dir, 'TZ': 'UTC', 'LANG': 'C',
               'LD_PRELOAD': shim_path(self.ctx),
               'VSHIM_CTL': os.path.join(self.dir, 'ctl.sock'),
               'VSHIM_T0': str(self.now_us),
               'ASAN_OPTIONS': 'verify_asan_link_order=0:detect_leaks=0:halt_on_error=1:abort_on_error=0:'
                               'log_path=%s/asan:detect_odr_violation=0:handle_abort=1:allocator_may_return_null=1:'
                               'quarantine_size_mb=4:malloc_context_size=6' % self.dir,
               'UBSAN_OPTIONS': 'print_stacktrace=1'}
        env.update(self.extra_env)
        return env

    def _chown(self):
        for root, dirs, files in os.walk(self.dir):
            try:
                os.chown(root, NOBODY_UID, NOBODY_GID)
            except OSError:
                pass
            for f in files:
                try:
                    os.chown(os.path.join(root, f), NOBODY_UID, NOBODY_GID)
                except OSError:
                    pass
        # nobody must be able to traverse down to self.dir
        p = self.dir
        while p and p != '/':
            try:
                st = os.stat(p)
                if not (st.st_mode & 0o001):
                    os.chmod(p, st.st_mode | 0o011)
            except OSError:
                pass
            p = os.path.dirname(p)

    def _exe(self):
        return os.path.join(self.ctx.tree, 'src', 'squid')

    def _base_cmd(self):
        cmd = [self._exe(), '-f', os.path.join(self.dir, 'squid.conf'), '-n', self.service]
        if self.workers is None:
            cmd.append('-N')
        else:
            cmd.append('--foreground')
        return cmd

    def init_cache(self):
        """squid -z (runs free, without the shim)."""
        env = self._env()
        env.pop('LD_PRELOAD')
        r = subprocess.run(self._base_cmd() + ['-z'] + ([] if self.workers is None else []), env=env, capture_output=True,
                           user=NOBODY_UID, group=NOBODY_GID, extra_groups=[], timeout=120, cwd=self.dir)
        # with SMP, -z forks kids and the parent waits; give stragglers a moment
        if r.returncode != 0:
            raise HarnessError('squid -z failed: %s %s' % (r.stdout[-500:], r.stderr[-1500:]))

    def start(self, wait_ready=True, fresh_cache=True):
        conf = self.write_conf()
        for f in (glob.glob('/dev/shm/squid-%s-*' % self.service) + glob.glob('/dev/shm/%s-*.shm' % self.service)):
            try:
                os.unlink(f)
            except OSError:
                pass
        ctlp = os.path.join(self.dir, 'ctl.sock')
        if os.path.exists(ctlp):
            os.unlink(ctlp)
        self.lsock = socket.socket(socket.AF_UNIX, socket.SOCK_SEQPACKET)
        self.lsock.bind(ctlp)
        os.chmod(ctlp, 0o777)
        self.lsock.listen(16)
        self.lsock.setblocking(False)
        self._chown()
        if self.cache_dir and fresh_cache and not os.path.exists(os.path.join(self.cache_path, '.vinit')):
            self.init_cache()
            open(os.path.join(self.cache_path, '.vinit'), 'w').close()
            self._chown()
        self.slots = []
        self.proc = subprocess.Popen(self._base_cmd(), env=self._env(), stdout=open(os.path.join(self.dir, 'stdout'), 'ab'),
                                     stderr=subprocess.STDOUT, user=NOBODY_UID, group=NOBODY_GID, extra_groups=[],
                                     cwd=self.dir)
        self.started = True
        if wait_ready:
            self.wait_ready()
        return self

    def _accept(self):
        while True:
            try:
                c, _ = self.lsock.accept()
            except BlockingIOError:
                return
            c.setblocking(False)
            self.slots.append(Slot(c))

    def _pump(self, timeout):
        """Process control messages for up to `timeout` real seconds or until something arrived."""
        rl = [self.lsock] + [s.sock for s in self.slots if not s.dead]
        try:
            r, _, _ = select.select(rl, [], [], timeout)
        except InterruptedError:
            return False
        got = False
        for x in r:
            if x is self.lsock:
                self._accept()
                got = True
                continue
            for s in self.slots:
                if s.sock is x:
                    try:
                        m = x.recv(4096)
                    except BlockingIOError:
                        continue
                    except OSError:
                        m = b''
                    got = True
                    if not m:
                        s.dead = True
                        s.idle = False
                        try:
                            x.close()
                        except OSError:
                            pass
                        continue
                    t = m.decode('latin1')
                    if t.startswith('H '):
                        f = t.split(' ', 2)
                        s.pid = int(f[1])
                        s.cmd = f[2] if len(f) > 2 else ''
                        mk = re.search(r'\((squid-[\w-]+)\)', s.cmd)
                        s.kid = mk.group(1) if mk else 'squid'
                    elif t.startswith('I '):
                        f = t.split()
                        s.idle = True
                        s.idle_seq = int(f[1])
                        s.timeout_ms = int(f[2])
        return got

    def live_slots(self):
        return [s for s in self.slots if not s.dead and s.pid is not None]

    def alive(self):
        if self.proc is None:
            return False
        if self.proc.poll() is None and self.slots and not any(not s.dead for s in self.slots):
            # every control connection is closed: the process is dying (an ASan build takes a moment to
            # write its report and exit after the socket closes); wait for it so that a crash is attributed
            # to the case that caused it and not to the next one
            try:
                self.proc.wait(timeout=60)
            except Exception:
                pass
        return self.proc.poll() is None

    def wait_idle(self, slots=None, watchdog=None):
        """Wait (real time) until the given slots (default: all live) have reported idle."""
        deadline = time.time() + (watchdog or WATCHDOG_S)
        while True:
            self._pump(0)
            pend = [s for s in (slots if slots is not None else self.live_slots()) if not s.dead and not s.idle]
            if not pend:
                return True
            if not self.alive():
                self._pump(0.05)
                return False
            if time.time() > deadline:
                raise HarnessError('watchdog: squid %s did not go idle (pending pids %s); cache.log tail: %s' % (
                    self.name, [s.pid for s in pend], self.cache_log()[-600:]))
            self._pump(0.2)

    def kick(self, slot=None):
        """Let one process (default: every live one, in pid order) run until it is idle again."""
        targets = [slot] if slot is not None else sorted(self.live_slots(), key=lambda s: s.kid)
        for s in targets:
            if s.dead or not s.idle:
                continue
            s.idle = False
            try:
                s.sock.send(b'K %d' % self.now_us)
            except OSError:
                s.dead = True
                continue
            self.kicks += 1
            self.wait_idle([s])

    def settle(self, rounds=2):
        for _ in range(rounds):
            self.kick()

    def advance(self, ms, rounds=2):
        self.now_us += int(ms * 1000)
        self.settle(rounds)

    def advance_to_next_timer(self, max_ms=3600_000):
        t = min([s.timeout_ms for s in self.live_slots() if s.idle] or [1000])
        self.advance(min(max(t, 1), max_ms))
        return t

    def run_virtual(self, total_ms, step_ms=1000):
        """Let total_ms of virtual time pass in steps (each step: advance + settle)."""
        done = 0
        while done < total_ms:
            st = min(step_ms, total_ms - done)
            self.advance(st, rounds=1)
            done += st
        self.settle(1)

    def wait_ready(self):
        """Bring start-up to a fixed point: listening, rebuild finished, all kids idle."""
        deadline = time.time() + 60
        need = 1 if self.workers is None else None
        while True:
            self._pump(0.05)
            if not self.alive():
                raise HarnessError('squid %s exited during start-up: %s %s' % (self.name, self.cache_log()[-1500:], self.stdout()[-800:]))
            if self.live_slots() and all(s.idle for s in self.live_slots()):
                log = self.cache_log()
                n_listen = log.count('Accepting HTTP Socket connections')
                want = 1 if self.workers is None else max(1, self.workers)
                rebuilt = (not self.cache_dir) or ('Finished rebuilding storage' in log) or ('Rebuilding storage' not in log and n_listen >= want and 'Store rebuilding is' not in log)
                if n_listen >= want and (not self.cache_dir or 'Finished rebuilding storage' in log or self._rebuild_done(log)):
                    break
                self.advance(100, rounds=1)
            if time.time() > deadline:
                raise HarnessError('squid %s not ready after 60s: %s' % (self.name, self.cache_log()[-1500:]))
        for _ in range(3):
            self.advance(50, rounds=1)

    def _rebuild_done(self, log):
        return 'Finished rebuilding storage' in log or 'Done reading' in log

    def signal(self, sig):
        if self.proc and self.alive():
            os.kill(self.proc.pid, sig)

    def shutdown(self, max_virtual_s=30):
        """Clean shutdown (SIGTERM) under virtual time.  Returns the exit status (None if it had to be killed)."""
        if not self.alive():
            return self.proc.poll() if self.proc else None
        os.kill(self.proc.pid, signal.SIGTERM)
        for _ in range(max_virtual_s * 4):
            try:
                self.advance(250, rounds=1)
            except HarnessError:
                break
            if not self.alive():
                break
            if not self.live_slots():
                try:
                    self.proc.wait(timeout=5)
                except subprocess.TimeoutExpired:
                    pass
                break
        if self.alive():
            try:
                self.proc.wait(timeout=5)
            except subprocess.TimeoutExpired:
                self.kill()
                return None
        return self.proc.returncode

    def kill(self):
        if self.proc is not None:
            pids = [self.proc.pid] + [s.pid for s in self.slots if s.pid]
            for p in pids:
                try:
                    os.kill(p, signal.SIGKILL)
                except OSError:
                    pass
            try:
                self.proc.wait(timeout=5)
            except Exception:
                pass
        for s in self.slots:
            try:
                s.sock.close()
            except OSError:
                pass
        self.slots = []
        if self.lsock is not None:
            try:
                self.lsock.close()
            except OSError:
                pass
            self.lsock = None
        for f in (glob.glob('/dev/shm/squid-%s-*' % self.service) + glob.glob('/dev/shm/%s-*.shm' % self.service)):
            try:
                os.unlink(f)
            except OSError:
                pass

    def cleanup(self):
        self.kill()
        if not self.keep_dir:
            shutil.rmtree(self.dir, ignore_errors=True)

    # ---- observation
    def _read(self, name):
        try:
            with open(os.path.join(self.dir, name), 'rb') as f:
                return f.read().decode('latin1')
        except OSError:
            return ''

    def cache_log(self):
        return self._read('cache.log')

    def access_log(self):
        return self._read('access.log')

    def stdout(self):
        return self._read('stdout')

    def asan_reports(self):
        out = []
        for f in glob.glob(os.path.join(self.dir, 'asan.*')):
            try:
                with open(f, 'rb') as fp:
                    out.append(fp.read().decode('latin1')[:6000])
            except OSError:
                pass
        return out

    def fd_count(self, pid=None):
        pid = pid or (self.live_slots()[0].pid if self.live_slots() else None)
        if pid is None:
            return -1
        try:
            return len(os.listdir('/proc/%d/fd' % pid))
        except OSError:
            return -1

    def fd_list(self, pid=None):
        pid = pid or (self.live_slots()[0].pid if self.live_slots() else None)
        out = []
        try:
            for f in os.listdir('/proc/%d/fd' % pid):
                try:
                    out.append(os.readlink('/proc/%d/fd/%s' % (pid, f)))
                except OSError:
                    pass
        except OSError:
            pass
        return sorted(out)

    def health_problems(self):
        """Crash / assertion / sanitizer evidence (the C09/C39 oracle, and a free extra oracle elsewhere)."""
        probs = []
        for r in self.asan_reports():
            probs.append('sanitizer: ' + r[:1500])
        log = self.cache_log()
        for m in re.finditer(r'^.*(assertion failed|FATAL:|dying from an unhandled exception|Received Segment Violation).*$', log, re.M):
            probs.append('cache.log: ' + m.group(0)[:300])
        if self.started and not self.alive():
            probs.append('squid exited with status %s' % self.proc.returncode)
        return probs

    # ---- peers
    def client(self):
        s = socket.socket(socket.AF_INET, socket.SOCK_STREAM)
        s.connect(('127.0.0.1', self.http_port))
        return Conn(s)

    def port(self, i):
        """i-th spare port of this instance (1..PORTS-1)."""
        assert 1 <= i < self.PORTS
        return self.port_base + i


# ------------------------------------------------------------------ helper played by the driver

class HelperHub:
    """Squid's configured helper program is vhelper, which hands its stdin socket to the driver
    over a UDS (SCM_RIGHTS) and sleeps; the driver then reads helper requests and writes replies."""

    def __init__(self, path):
        self.path = path
        if os.path.exists(path):
            os.unlink(path)
        self.l = socket.socket(socket.AF_UNIX, socket.SOCK_STREAM)
        self.l.bind(path)
        os.chmod(path, 0o777)
        self.l.listen(16)
        self.l.setblocking(False)
        self.helpers = []     # list of (tag, Conn)

    def accept_all(self):
        while True:
            try:
                c, _ = self.l.accept()
            except BlockingIOError:
                break
            c.setblocking(True)
            c.settimeout(5)
            msg, anc, _, _ = c.recvmsg(256, socket.CMSG_SPACE(4))
            fd = None
            for level, typ, data in anc:
                if level == socket.SOL_SOCKET and typ == socket.SCM_RIGHTS:
                    fd = struct.unpack('i', data[:4])[0]
            c.close()
            if fd is None:
                continue
            hs = socket.socket(fileno=fd)
            self.helpers.append((msg.decode('latin1').strip(), Conn(hs)))
        return self.helpers

    def wait_helpers(self, n, timeout=10):
        dl = time.time() + timeout
        while len(self.helpers) < n:
            self.accept_all()
            if time.time() > dl:
                raise HarnessError('only %d of %d helpers connected' % (len(self.helpers), n))
            time.sleep(0.01)
        return self.helpers

    def close(self):
        for _, c in self.helpers:
            c.close()
        self.l.close()


# ------------------------------------------------------------------ misc

def port_base_for_check(pid, shard, slot=0):
    """Deterministic, non-overlapping port ranges: per property 340 ports (17 blocks of 20), below the
    ephemeral range, so that different checks and their shards can run at the same time.
    shard in 0..15; slot 1 gives a second block only for shard 0 (block 16)."""
    n = int(re.sub(r'\D', '', pid) or 0)
    off = int(os.environ.get('VERIF_PORT_OFFSET', '0'))
    blk = shard if slot == 0 else 16
    return 10000 + off + n * 340 + blk * Squid.PORTS


def run_sharded(ctx, worker, items, nshards=None):
    """Run worker(shard_index, items_of_that_shard) in forked processes (items are dealt round-robin) and
    return the list of their return values (must be picklable).  A worker exception becomes HarnessError."""
    import multiprocessing as mp
    import traceback as tb
    nshards = min(nshards or ctx.ncpu, max(1, len(items)))
    parts = [items[i::nshards] for i in range(nshards)]
    mpctx = mp.get_context('fork')
    q = mpctx.Queue()

    def child(i):
        try:
            q.put((i, 'ok', worker(i, parts[i])))
        except HarnessError as e:
            q.put((i, 'err', 'HarnessError: %s' % e))
        except BaseException:
            q.put((i, 'err', tb.format_exc()[-3000:]))
    procs = [mpctx.Process(target=child, args=(i,)) for i in range(nshards)]
    for p in procs:
        p.start()
    out = [None] * nshards
    errs = []
    got = 0
    while got < nshards:
        try:
            i, st, val = q.get(timeout=5)
        except Exception:
            if not any(p.is_alive() for p in procs) and q.empty():
                errs.append('a shard died without reporting')
                break
            continue
        got += 1
        if st == 'ok':
            out[i] = val
        else:
            errs.append('shard %d: %s' % (i, val))
    for p in procs:
        p.join(timeout=30)
        if p.is_alive():
            p.kill()
    if errs:
        raise HarnessError('; '.join(errs)[:4000])
    return out


def http_date(us):
    return time.strftime('%a, %d %b %Y %H:%M:%S GMT', time.gmtime(us // 1_000_000))


# ------------------------------------------------------------------ simple request/response worlds

class OriginConn:
    def __init__(self, conn, idx):
        self.c = conn
        self.idx = idx
        self.raw = b''          # everything received on this connection
        self.parsed_upto = 0    # bytes of raw already split into requests
        self.requests = []      # httpref.Msg of complete requests


class Exchange:
    """What happened during one World.fetch()."""

    def __init__(self):
        self.client_bytes = b''
        self.client_eof = False
        self.client_reset = False
        self.origin_requests = []     # list of httpref.Msg (complete requests seen by the origin during this fetch)
        self.origin_raw = b''         # raw bytes the origin received during this fetch (all connections, concatenated)
        self.response = None          # httpref.Msg parsed from client_bytes
        self.steps = 0


class World:
    """One Squid instance + one origin listener (port_base+1) played by the driver."""

    def __init__(self, ctx, name, port_base, conf='', **kw):
        from . import httpref
        self.httpref = httpref
        self.sq = Squid(ctx, name, port_base, conf=conf, **kw)
        self.origin_port = port_base + 1
        self.origin = Listener(self.origin_port)
        self.oconns = []
        self.total_origin_requests = 0

    def start(self):
        self.sq.start()
        return self

    def url(self, path):
        return 'http://127.0.0.1:%d%s' % (self.origin_port, path)

    def hostport(self):
        return '127.0.0.1:%d' % self.origin_port

    def _origin_step(self, responder, ex):
        """Accept, read, parse complete requests, answer them.  Returns True if anything happened."""
        progressed = False
        for c in self.origin.accept_all():
            self.oconns.append(OriginConn(c, len(self.oconns)))
            progressed = True
        for oc in self.oconns:
            if oc.c.closed:
                continue
            n = oc.c.pump()
            if n:
                progressed = True
                d = oc.c.inbuf
                oc.c.inbuf = b''
                oc.raw += d
                ex.origin_raw += d
                while True:
                    m = self.httpref.parse_request(oc.raw[oc.parsed_upto:])
                    if m.error or not m.complete or m.consumed <= 0:
                        break
                    oc.parsed_upto += m.consumed
                    oc.requests.append(m)
                    ex.origin_requests.append(m)
                    self.total_origin_requests += 1
                    r = responder(m) if responder else None
                    if r is None:
                        continue
                    close = False
                    if isinstance(r, tuple):
                        r, close = r[0], r[1] == 'close'
                    oc.c.send(r)
                    if close:
                        oc.c.close()
                        break
            if oc.c.eof and not oc.c.closed:
                oc.c.close()
                progressed = True
        return progressed

    def fetch(self, request, responder=None, method=None, client=None, max_steps=40, keep_client=False, done=None):
        """Send `request` (bytes) on a new (or given) client connection and run the world until the client has a
        complete response, the connection closes, or nothing happens any more."""
        ex = Exchange()
        c = client or self.sq.client()
        if request:
            c.send(request)
        if method is None:
            method = request.split(b' ', 1)[0].decode('latin1') if request else 'GET'
        idle_rounds = 0
        for step in range(max_steps):
            ex.steps = step + 1
            self.sq.settle()
            progressed = self._origin_step(responder, ex)
            if c.pump():
                progressed = True
            ex.client_bytes = c.inbuf
            m = self.httpref.parse_response(c.inbuf, method, eof=c.eof)
            if done is not None:
                if done(ex, m):
                    break
            elif (m.complete and not m.error) or c.eof:
                # let Squid finish bookkeeping for this transaction
                if not progressed:
                    break
            if not progressed:
                idle_rounds += 1
                if idle_rounds >= 2:
                    break
            else:
                idle_rounds = 0
        ex.client_bytes = c.inbuf
        ex.client_eof = c.eof
        ex.client_reset = c.reset
        ex.response = self.httpref.parse_response(c.inbuf, method, eof=c.eof)
        if not keep_client:
            c.close()
            self.sq.settle(1)
            self._origin_step(None, Exchange())
        else:
            ex.client = c
        return ex

    def close_origin_conns(self):
        for oc in self.oconns:
            oc.c.close()
        self.oconns = []
        self.sq.settle(1)

    def stop(self):
        try:
            self.sq.cleanup()
        finally:
            for oc in self.oconns:
                oc.c.close()
            self.origin.close()


# ------------------------------------------------------------------ generic "many cases on a reused instance" runner

def run_cases(ctx, cases, run_case, make_world, key_of=None, determinism_n=12, nshards=None, health_each=True,
              fresh_world_per_case=False):
    """Exhaustively run `cases` (a list, deterministic order) sharded over processes.

    make_world(ctx, shard) -> World-like object with .start(), .stop(), .sq
    run_case(world, case)  -> dict(outcome=str, violation=None|str, transcript=bytes|str)
    key_of(case) -> stable string key (default: repr(case))

    Obligations built in: the first `determinism_n` cases of every shard are executed twice (the second
    time on a fresh instance) and their transcripts must be identical; every violating case is re-run on a
    fresh instance and must violate again before it is reported (otherwise HarnessError: nondeterminism).
    A sanitizer report / assertion / exit of Squid during a case is returned as a violation of that case
    with outcome 'squid-crashed' (checks whose property does not forbid crashes turn these into observations).
    Returns dict(evaluations, outcomes{}, violations[(key, what, case)], samples[], deadline_hit, crashes[]).
    """
    import time as _t
    key_of = key_of or (lambda c: repr(c))
    t_end = ctx.t0 + ctx.deadline_s - 10

    def worker(shard, items):
        res = {'evaluations': 0, 'outcomes': {}, 'violations': [], 'samples': [], 'deadline_hit': False,
               'crashes': [], 'kicks': 0, 'replays': 0}
        state = {'w': None, 'gen': 0}

        def fresh():
            if state['w'] is not None:
                res['kicks'] += state['w'].sq.kicks
                state['w'].stop()
            state['gen'] += 1
            state['w'] = make_world(ctx, shard)
            state['w'].start()
            return state['w']

        def one(case):
            w = state['w']
            r = run_case(w, case)
            if health_each:
                hp = w.sq.health_problems()
                if hp:
                    r = dict(r)
                    r['crash'] = hp
                    fresh()
            return r
        try:
            fresh()
            # determinism obligation (instance starts are expensive in this sandbox, so it costs one extra
            # start per shard): the first determinism_n cases are run as a sequence on a first instance and
            # again on a second, fresh instance; outcomes and transcripts must be identical.
            first = []
            if determinism_n and not fresh_world_per_case:
                for case in items[:determinism_n]:
                    first.append(one(case))
                    res['replays'] += 1
                fresh()
            for n, case in enumerate(items):
                if _t.time() > t_end:
                    res['deadline_hit'] = True
                    break
                if fresh_world_per_case and n:
                    fresh()
                r = one(case)
                res['evaluations'] += 1
                if n < len(first):
                    r0 = first[n]
                    if r0.get('transcript') != r.get('transcript') or r0.get('outcome') != r.get('outcome'):
                        raise HarnessError('nondeterminism: case %s gave different transcripts on two runs:\n%r\n%r' % (
                            key_of(case), str(r0.get('transcript'))[:600], str(r.get('transcript'))[:600]))
                elif fresh_world_per_case and n < determinism_n:
                    fresh()
                    r2 = one(case)
                    res['replays'] += 1
                    if r2.get('transcript') != r.get('transcript') or r2.get('outcome') != r.get('outcome'):
                        raise HarnessError('nondeterminism: case %s gave different transcripts on two runs:\n%r\n%r' % (
                            key_of(case), str(r.get('transcript'))[:600], str(r2.get('transcript'))[:600]))
                oc = r.get('outcome', 'ok')
                if r.get('crash'):
                    oc = 'squid-crashed'
                    res['crashes'].append((key_of(case), '; '.join(r['crash'])[:3000], case))
                res['outcomes'][oc] = res['outcomes'].get(oc, 0) + 1
                if len(res['samples']) < 3 and (n % 97 == 0):
                    res['samples'].append({'case': case, 'outcome': oc})
                if r.get('violation'):
                    # replay before report: the first violations of a shard on a fresh instance (that is what
                    # the replay file does), later ones on the running instance
                    confirmed = False
                    for attempt in range(3):
                        if len(res['violations']) < 3 or attempt > 0:
                            fresh()
                        r2 = one(case)
                        res['replays'] += 1
                        if r2.get('violation'):
                            confirmed = True
                            break
                    if not confirmed:
                        raise HarnessError('violation not reproducible for case %s: %s' % (key_of(case), r['violation'][:500]))
                    res['violations'].append((key_of(case), r['violation'], case))
                    if len(res['violations']) >= 25:
                        res['deadline_hit'] = True
                        break
        finally:
            if state['w'] is not None:
                res['kicks'] += state['w'].sq.kicks
                state['w'].stop()
        return res
    parts = run_sharded(ctx, worker, list(cases), nshards)
    out = {'evaluations': 0, 'outcomes': {}, 'violations': [], 'samples': [], 'deadline_hit': False, 'crashes': [],
           'kicks': 0, 'replays': 0}
    for p in parts:
        if p is None:
            continue
        out['evaluations'] += p['evaluations']
        out['kicks'] += p['kicks']
        out['replays'] += p['replays']
        out['deadline_hit'] = out['deadline_hit'] or p['deadline_hit']
        for k, v in p['outcomes'].items():
            out['outcomes'][k] = out['outcomes'].get(k, 0) + v
        out['violations'] += p['violations']
        out['crashes'] += p['crashes']
        out['samples'] += p['samples'][:1]
    out['samples'] = out['samples'][:6]
    global LAST_RUN
    if LAST_RUN is None or out['violations'] or out['crashes']:
        LAST_RUN = out      # core.main() falls back on it when a vacuity guard fires on a run that has violations
    return out
