"""Small extras on top of lockstep.py (new file; lockstep.py itself is unchanged).

RetryWorld: a World whose start() is retried when the instance does not come up within lockstep's
real-time start-up deadline (60 s) or a start-up kick hits the real-time watchdog.  On a machine
that is oversubscribed by other checks an ASan squid start can take that long; the retry happens
before any case has run and resets the virtual clock, so executions stay deterministic.
"""
import os

from . import lockstep as ls
from .core import HarnessError


class RetryWorld(ls.World):
    START_ATTEMPTS = 4

    def start(self):
        last = None
        for attempt in range(self.START_ATTEMPTS):
            try:
                self.sq.start()
                return self
            except HarnessError as e:
                msg = str(e)
                if 'not ready after' not in msg and 'watchdog' not in msg:
                    raise
                last = e
                self.sq.kill()
                for name in ('cache.log', 'squid.pid', 'access.log', 'stdout'):
                    try:
                        os.unlink(os.path.join(self.sq.dir, name))
                    except OSError:
                        pass
                self.sq.now_us = ls.T0_US
                self.sq.kicks = 0
        raise last
