"""Small helpers on top of lockstep.py (added by the C03/C62/C63 implementer; lockstep.py itself is unchanged)."""
import os

from . import lockstep as ls
from .core import HarnessError


class RetryWorld(ls.World):
    """A World whose start() retries when the instance did not come up within wait_ready()'s real-time limit
    (60 s), which happens on an overloaded machine when 16 ASan instances start at once.  Start-up is not
    part of any explored behaviour, so retrying cannot hide a violation; a genuine start-up failure (squid
    exits) is still reported after the last attempt."""

    START_ATTEMPTS = 4

    def start(self):
        last = None
        for _ in range(self.START_ATTEMPTS):
            try:
                self.sq.start()
                return self
            except HarnessError as e:
                last = e
                if 'not ready after' not in str(e) and 'watchdog' not in str(e):
                    raise
                self.sq.kill()
                # wait_ready() reads cache.log: a stale log of the failed attempt must not make the next one look ready
                for f in ('cache.log', 'access.log', 'stdout'):
                    try:
                        os.unlink(os.path.join(self.sq.dir, f))
                    except OSError:
                        pass
        raise last


def written_out_samples(ctx, world, run_case, picked, describe):
    """Re-run a handful of hand-picked cases on one more instance and return written-out samples
    [{case, ...describe(case, result)...}]; run_cases' own samples are the first cases of each shard and look alike.
    Returns [] when there is no time left (the caller then falls back to run_cases' samples)."""
    out = []
    if not picked or ctx.remaining() < 40:
        return out
    world.start()
    try:
        for c in picked:
            r = run_case(world, c)
            d = {'case': {k: v for k, v in c.items() if k != 'n'}, 'outcome': r.get('outcome')}
            d.update(describe(c, r) or {})
            out.append(d)
    finally:
        world.stop()
    return out
