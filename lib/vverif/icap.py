"""Driver-played ICAP server (RFC 3507) for E3 checks: a strict request codec plus a scripted responder.

Nothing in here looks at Squid's opinion of a message.  The request parser is strict: anything that is
not a well-formed ICAP/1.0 OPTIONS/REQMOD/RESPMOD request with a consistent Encapsulated header, well-formed
encapsulated HTTP heads and a well-formed chunked body (preview handling incl. `0; ieof`) is reported in
IcapReq.error (checks treat that as a harness problem / observation, never silently).

The server is driven in lock-step: IcapServer.step() accepts, reads what has arrived, re-parses the current
request of every connection and lets the *behaviour* of that transaction act.  A behaviour is a dict returned
by the check's policy(req) callback once the encapsulated heads are known:

    kind    '204' | '200' | 'status' | 'close' | 'garbage'
    when    'early' : act as soon as the heads (and the preview, if one was announced) have arrived
            'late'  : read the whole message first (answering a preview with `100 Continue`)
    kind '200':    http_head (bytes), http_body (bytes | None = null-body), section ('res'|'req'), echo (bool: the body
                   sent is the body received),
                   chunks (list of sizes | None), cut (None | 'before-head' | 'mid-head' | 'mid-body' | 'before-last'),
                   cut_how ('fin' | 'rst')
    kind 'status': code, reason
    kind 'garbage': bytes, then ('open' | 'close')
"""
import re

from . import httpref
from .lockstep import Listener, http_date

ISTAG = '"vverif-istag-1"'
CHUNK_LINE = re.compile(rb'^([0-9A-Fa-f]{1,8})(; ieof)?$')


class IcapReq:
    def __init__(self):
        self.method = ''
        self.uri = ''
        self.path = ''
        self.headers = []              # (name, value)
        self.encapsulated = []         # (section, offset)
        self.preview = None            # advertised Preview size (int) or None
        self.allow = set()
        self.head_len = 0
        self.sections = {}             # 'req-hdr' / 'res-hdr' -> raw bytes
        self.http_req = None           # httpref-style (start, headers) of req-hdr
        self.http_res = None
        self.body_kind = None          # 'req-body' | 'res-body' | 'null-body' | None (OPTIONS)
        self.preview_body = b''
        self.rest_body = b''
        self.preview_done = False
        self.ieof = False
        self.stage = 'head'            # head | encap | preview | paused | rest | done
        self.consumed = 0              # valid when stage in (paused, done)
        self.error = None
        self.chunks = []               # sizes of the data chunks received, 0 marks a last-chunk

    def get(self, name, default=None):
        name = name.lower()
        for n, v in self.headers:
            if n.lower() == name:
                return v
        return default

    @property
    def body(self):
        return self.preview_body + self.rest_body

    def heads_known(self):
        return self.stage not in ('head', 'encap')

    def http_start(self, which='req'):
        h = self.http_req if which == 'req' else self.http_res
        return h[0] if h else b''

    def http_get(self, which, name, default=None):
        h = self.http_req if which == 'req' else self.http_res
        if not h:
            return default
        name = name.lower()
        for n, v in h[1]:
            if n.lower() == name:
                return v
        return default


def _parse_http_head(raw):
    """raw must be exactly one HTTP head ending in CRLFCRLF -> (start_line, [(n, v)]) or error string."""
    if not raw.endswith(b'\r\n\r\n'):
        return 'encapsulated head does not end with an empty line'
    m = httpref.Msg()
    n = httpref._parse_head(raw, m)
    if n is None or m.error:
        return 'bad encapsulated head: %s' % (m.error,)
    if n != len(raw):
        return 'encapsulated head section holds more than one head'
    return (m.start, m.headers)


def parse_request(data, continued=False):
    """Parse the ICAP request at the start of `data`.  continued: the server has answered the preview of this
    request with `100 Continue`, so the body goes on after the preview's last-chunk."""
    r = IcapReq()
    end = data.find(b'\r\n\r\n')
    if end < 0:
        if len(data) > 65536:
            r.error = 'ICAP head too long'
        return r
    lines = data[:end].split(b'\r\n')
    m = re.match(rb'^(OPTIONS|REQMOD|RESPMOD) (icap://[^ /]+(/[^ ]*)?) ICAP/1\.0$', lines[0])
    if not m:
        r.error = 'bad ICAP request line %r' % lines[0][:100]
        return r
    r.method = m.group(1).decode('latin1')
    r.uri = m.group(2).decode('latin1')
    r.path = (m.group(3) or b'/').decode('latin1')
    for ln in lines[1:]:
        if b':' not in ln or ln[:1] in b' \t':
            r.error = 'bad ICAP header line %r' % ln[:80]
            return r
        n, v = ln.split(b':', 1)
        if not httpref.TOKEN.match(n):
            r.error = 'bad ICAP header name %r' % n[:40]
            return r
        r.headers.append((n.decode('latin1'), v.strip(b' \t').decode('latin1')))
    r.head_len = end + 4
    if r.get('host') is None:
        r.error = 'ICAP request without Host'
        return r
    for item in (r.get('allow') or '').split(','):
        if item.strip():
            r.allow.add(item.strip())
    if r.method == 'OPTIONS':
        if r.get('encapsulated') not in (None, 'null-body=0'):
            r.error = 'OPTIONS with a body'
            return r
        r.stage = 'done'
        r.consumed = r.head_len
        return r
    enc = r.get('encapsulated')
    if enc is None:
        r.error = 'no Encapsulated header'
        return r
    for item in enc.split(','):
        mm = re.match(r'^\s*(req-hdr|res-hdr|req-body|res-body|null-body)=([0-9]+)\s*$', item)
        if not mm:
            r.error = 'bad Encapsulated item %r' % item
            return r
        r.encapsulated.append((mm.group(1), int(mm.group(2))))
    names = [n for n, _ in r.encapsulated]
    offs = [o for _, o in r.encapsulated]
    legal = {'REQMOD': (['req-hdr', 'req-body'], ['req-hdr', 'null-body']),
             'RESPMOD': (['req-hdr', 'res-hdr', 'res-body'], ['req-hdr', 'res-hdr', 'null-body'],
                         ['res-hdr', 'res-body'], ['res-hdr', 'null-body'])}[r.method]
    if names not in legal:
        r.error = 'illegal Encapsulated list %r for %s' % (names, r.method)
        return r
    if offs[0] != 0 or offs != sorted(offs) or len(set(offs)) != len(offs):
        r.error = 'Encapsulated offsets not strictly increasing from 0: %r' % (offs,)
        return r
    pv = r.get('preview')
    if pv is not None:
        if not re.match(r'^[0-9]+$', pv):
            r.error = 'bad Preview %r' % pv
            return r
        r.preview = int(pv)
    r.body_kind = names[-1]
    body_off = r.head_len + offs[-1]
    if len(data) < body_off:
        r.stage = 'encap'
        return r
    for i, (n, o) in enumerate(r.encapsulated[:-1]):
        raw = data[r.head_len + o: r.head_len + offs[i + 1]]
        r.sections[n] = raw
        h = _parse_http_head(raw)
        if isinstance(h, str):
            r.error = '%s: %s' % (n, h)
            return r
        if n == 'req-hdr':
            r.http_req = h
        else:
            r.http_res = h
    if r.body_kind == 'null-body':
        r.stage = 'done'
        r.consumed = body_off
        if r.preview not in (None, 0):
            r.error = 'Preview: %d announced for a null-body' % r.preview
        return r
    pos = body_off
    phase = 'preview' if r.preview is not None else 'rest'
    r.stage = phase
    while True:
        e = data.find(b'\r\n', pos)
        if e < 0:
            if len(data) - pos > 64:
                r.error = 'chunk-size line too long'
            return r
        cm = CHUNK_LINE.match(data[pos:e])
        if not cm:
            r.error = 'bad chunk-size line %r' % data[pos:e][:40]
            return r
        size = int(cm.group(1), 16)
        if size == 0:
            if len(data) < e + 4:
                return r
            if data[e + 2:e + 4] != b'\r\n':
                r.error = 'last-chunk not followed by an empty line (trailers are not expected from an ICAP client)'
                return r
            r.chunks.append(0)
            pos = e + 4
            if phase == 'preview':
                r.preview_done = True
                r.ieof = cm.group(2) is not None
                if len(r.preview_body) > r.preview:
                    r.error = 'preview of %d bytes exceeds the announced Preview: %d' % (len(r.preview_body), r.preview)
                    return r
                if not r.ieof and len(r.preview_body) < r.preview:
                    r.error = 'short preview (%d of %d) without ieof' % (len(r.preview_body), r.preview)
                    return r
                if r.ieof:
                    r.stage = 'done'
                    r.consumed = pos
                    return r
                if not continued:
                    r.stage = 'paused'
                    r.consumed = pos
                    return r
                phase = 'rest'
                r.stage = 'rest'
                continue
            if cm.group(2) is not None:
                r.error = 'ieof outside a preview'
                return r
            r.stage = 'done'
            r.consumed = pos
            return r
        if cm.group(2) is not None:
            r.error = 'ieof on a non-empty chunk'
            return r
        if len(data) < e + 2 + size + 2:
            # partial chunk data counts as received body (informational only)
            part = data[e + 2:e + 2 + size]
            if phase == 'preview':
                r.preview_body += part
            else:
                r.rest_body += part
            return r
        chunk = data[e + 2:e + 2 + size]
        if data[e + 2 + size:e + 4 + size] != b'\r\n':
            r.error = 'chunk data not followed by CRLF'
            return r
        r.chunks.append(size)
        if phase == 'preview':
            r.preview_body += chunk
        else:
            r.rest_body += chunk
        pos = e + 4 + size


# ------------------------------------------------------------------ response builders

def icap_head(code, reason, headers):
    L = ['ICAP/1.0 %d %s' % (code, reason)]
    L += ['%s: %s' % (n, v) for n, v in headers]
    return ('\r\n'.join(L) + '\r\n\r\n').encode('latin1')


def resp_100():
    return b'ICAP/1.0 100 Continue\r\n\r\n'


def resp_204():
    return icap_head(204, 'No Content', [('ISTag', ISTAG), ('Encapsulated', 'null-body=0')])


def resp_status(code, reason):
    return icap_head(code, reason, [('ISTag', ISTAG), ('Encapsulated', 'null-body=0')])


def resp_200_parts(section, http_head, http_body, chunks=None):
    """-> (icap_head, http_head, [data chunks...], last_chunk) for a 200 carrying an adapted message."""
    if http_body is None:
        enc = '%s-hdr=0, null-body=%d' % (section, len(http_head))
        return icap_head(200, 'OK', [('ISTag', ISTAG), ('Encapsulated', enc)]), http_head, [], b''
    enc = '%s-hdr=0, %s-body=%d' % (section, section, len(http_head))
    enc_body = httpref.chunk_encode(http_body, chunks)
    assert enc_body.endswith(b'0\r\n\r\n')
    return icap_head(200, 'OK', [('ISTag', ISTAG), ('Encapsulated', enc)]), http_head, [enc_body[:-5]], b'0\r\n\r\n'


def cut_offset(parts, cut, http_body):
    """Byte offset in the concatenated 200 response after which the service aborts."""
    ih, hh, data, last = parts
    if cut == 'before-head':
        return len(ih)
    if cut == 'mid-head':
        return len(ih) + len(hh) // 2
    d = b''.join(data)
    if cut == 'mid-body':
        # in the middle of the chunked data: chunk-size line plus half of the payload (at least one payload byte
        # is withheld); for an empty adapted body this degenerates to "after the head"
        if not http_body:
            return len(ih) + len(hh)
        first_line = d.find(b'\r\n') + 2
        return len(ih) + len(hh) + first_line + len(http_body) // 2
    if cut == 'before-last':
        return len(ih) + len(hh) + len(d)
    raise ValueError(cut)


# ------------------------------------------------------------------ the server

class IcapConn:
    def __init__(self, conn, idx):
        self.c = conn
        self.idx = idx
        self.raw = b''
        self.start = 0
        self.continued = False
        self.x = None          # current transaction record (dict)
        self.n_xact = 0
        self.out = b''         # bytes accepted for sending but not yet taken by the socket (back-pressure)
        self.close_after = None  # None | 'fin' | 'rst': close once `out` has drained


class IcapServer:
    def __init__(self, port, now_us, options_for, policy=None):
        """now_us(): virtual time; options_for(path) -> list of extra (name, value) OPTIONS headers
        (Methods, Preview, Transfer-Preview, Allow, ...); policy(req) -> behaviour dict."""
        self.l = Listener(port)
        self.port = port
        self.now_us = now_us
        self.options_for = options_for
        self.policy = policy
        self.conns = []
        self.xacts = []          # finished and running transaction records, in order of first appearance
        self.problems = []       # malformed requests etc.
        self.options_seen = 0
        self.n_conns = 0

    # ---- bookkeeping
    def begin_case(self):
        """Forget the transaction records of the previous case (connections stay)."""
        self.xacts = []
        self.problems = []

    def open_conns(self):
        return [ic for ic in self.conns if not ic.c.closed]

    def close_idle(self):
        """Close every connection that is between transactions; returns how many were closed."""
        n = 0
        for ic in self.conns:
            if not ic.c.closed and ic.x is None and ic.start == len(ic.raw):
                ic.c.close()
                n += 1
        self.conns = [ic for ic in self.conns if not ic.c.closed]
        return n

    def close_all(self):
        for ic in self.conns:
            ic.c.close()
        self.conns = []

    def close(self):
        self.close_all()
        self.l.close()

    # ---- one lock-step round
    def step(self):
        progressed = False
        for c in self.l.accept_all():
            self.conns.append(IcapConn(c, self.n_conns))
            self.n_conns += 1
            progressed = True
        for ic in self.conns:
            if ic.c.closed:
                continue
            if ic.c.pump():
                ic.raw += ic.c.inbuf
                ic.c.inbuf = b''
                progressed = True
            if self._flush(ic):
                progressed = True
            if ic.c.closed:
                continue
            if self._drive(ic):
                progressed = True
            if ic.c.closed:
                continue
            if ic.c.eof and not ic.c.closed:
                if ic.x is not None:
                    ic.x['events'].append('peer-closed')
                ic.c.close()
                progressed = True
        return progressed

    def _new_xact(self, ic):
        x = {'conn': ic.idx, 'nth_on_conn': ic.n_xact, 'method': '', 'path': '', 'beh': None, 'events': [],
             'final': False, 'req': None, 'sent': b''}
        ic.n_xact += 1
        self.xacts.append(x)
        return x

    def _send(self, ic, data, what):
        ic.out += data
        ic.x['sent'] += data
        ic.x['events'].append(what)
        self._flush(ic)

    def _close(self, ic, how='fin'):
        """Close after everything queued has been handed to the socket."""
        ic.close_after = how
        self._flush(ic)

    def _flush(self, ic):
        moved = False
        if ic.out and not ic.c.closed:
            n = ic.c.send(ic.out)
            if n:
                ic.out = ic.out[n:]
                moved = True
            if ic.c.reset:
                ic.out = b''
        if not ic.out and ic.close_after and not ic.c.closed:
            if ic.close_after == 'rst':
                ic.c.rst()
            else:
                ic.c.close()
            moved = True
        return moved

    def _drive(self, ic):
        acted = False
        while True:
            data = ic.raw[ic.start:]
            if not data and ic.x is None:
                break
            req = parse_request(data, ic.continued)
            if ic.x is None:
                ic.x = self._new_xact(ic)
            x = ic.x
            x['req'] = req
            if req.error:
                if not x.get('error'):
                    x['error'] = req.error
                    self.problems.append('malformed ICAP request on conn %d: %s' % (ic.idx, req.error))
                    x['events'].append('malformed:' + req.error)
                    ic.c.close()
                    acted = True
                break
            x['method'], x['path'] = req.method, req.path
            before = len(x['events'])
            self._behave(ic, x, req)
            if len(x['events']) != before:
                acted = True
            if ic.c.closed or ic.close_after:
                break
            finished = x['final'] and not ic.out and (req.stage == 'done' or (req.stage == 'paused' and not ic.continued))
            if not finished:
                break
            ic.start += req.consumed
            ic.continued = False
            ic.x = None
            if ic.start >= len(ic.raw):
                break
        return acted

    def _behave(self, ic, x, req):
        if req.method == 'OPTIONS':
            if not x['final']:
                self.options_seen += 1
                hdrs = [('Date', http_date(self.now_us())), ('ISTag', ISTAG), ('Encapsulated', 'null-body=0')]
                hdrs += list(self.options_for(req.path))
                self._send(ic, icap_head(200, 'OK', hdrs), 'options-200')
                x['final'] = True
            return
        if not req.heads_known() or x['final']:
            return
        if x['beh'] is None:
            x['beh'] = self.policy(req)
        beh = x['beh']
        preview_ready = req.preview is None or req.preview_done or req.stage == 'done'
        if beh.get('when', 'late') == 'early':
            ready = preview_ready
        else:
            if req.stage == 'paused' and not ic.continued:
                self._send(ic, resp_100(), '100-continue')
                ic.continued = True
                return
            ready = req.stage == 'done'
        if not ready:
            return
        x['final'] = True
        x['at'] = {'stage': req.stage, 'preview_done': req.preview_done, 'ieof': req.ieof, 'body_seen': len(req.body)}
        kind = beh['kind']
        if kind == '204':
            self._send(ic, resp_204(), '204')
        elif kind == 'status':
            self._send(ic, resp_status(beh['code'], beh['reason']), 'status-%d' % beh['code'])
        elif kind == 'close':
            x['events'].append('close-without-reply')
            ic.c.close()
        elif kind == 'garbage':
            self._send(ic, beh['bytes'], 'garbage')
            if beh.get('then') == 'close':
                self._close(ic)
        elif kind == '200':
            body = beh.get('http_body')
            if beh.get('echo') and body is not None:
                body = req.body                 # send the message back unmodified
            parts = resp_200_parts(beh['section'], beh['http_head'], body, beh.get('chunks'))
            full = parts[0] + parts[1] + b''.join(parts[2]) + parts[3]
            cut = beh.get('cut')
            if cut is None:
                self._send(ic, full, '200-complete')
            else:
                off = cut_offset(parts, cut, body)
                self._send(ic, full[:off], '200-cut-%s@%d/%d' % (cut, off, len(full)))
                self._close(ic, beh.get('cut_how', 'fin'))
        else:
            raise ValueError('unknown behaviour kind %r' % (kind,))

    # ---- transcript
    def transcript(self, skip=0):
        """One line per REQMOD/RESPMOD transaction (from the skip-th record on).  Independent of the history of the
        instance: OPTIONS exchanges are left out and connections are numbered by first appearance."""
        out = []
        cmap = {}
        for x in self.xacts[skip:]:
            if x['method'] == 'OPTIONS':
                continue
            req = x['req']
            cid = cmap.setdefault(x['conn'], len(cmap))
            out.append('ICAP[conn %d] %s %s preview=%s allow=%s body=%d ieof=%s stage=%s events=%s' % (
                cid, x['method'], x['path'], req.preview if req else None,
                ','.join(sorted(req.allow)) if req else '', len(req.body) if req else -1, req.ieof if req else None,
                req.stage if req else None, '|'.join(x['events'])))
        return '\n'.join(out)
