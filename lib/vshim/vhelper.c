/* vhelper.c — helper stub: hands its stdin (Squid's helper socket) to the driver and sleeps.
 * usage: vhelper <driver-uds-path> [tag]
 * The driver then plays the helper itself: it reads Squid's requests and writes replies on the
 * passed descriptor, so helper replies become ordinary, driver-scheduled environment actions. */
#define _GNU_SOURCE
#include <stdio.h>
#include <stdlib.h>
#include <string.h>
#include <sys/socket.h>
#include <sys/un.h>
#include <unistd.h>

int main(int argc, char **argv)
{
    if (argc < 2)
        return 2;
    unsetenv("LD_PRELOAD");
    int s = socket(AF_UNIX, SOCK_STREAM, 0);
    struct sockaddr_un a;
    memset(&a, 0, sizeof a);
    a.sun_family = AF_UNIX;
    snprintf(a.sun_path, sizeof a.sun_path, "%s", argv[1]);
    if (connect(s, (struct sockaddr *)&a, sizeof a) < 0)
        return 3;
    char tag[200];
    snprintf(tag, sizeof tag, "%s %d", argc > 2 ? argv[2] : "helper", (int)getpid());
    struct iovec iov = {tag, strlen(tag)};
    char cbuf[CMSG_SPACE(sizeof(int))];
    memset(cbuf, 0, sizeof cbuf);
    struct msghdr m;
    memset(&m, 0, sizeof m);
    m.msg_iov = &iov;
    m.msg_iovlen = 1;
    m.msg_control = cbuf;
    m.msg_controllen = sizeof cbuf;
    struct cmsghdr *c = CMSG_FIRSTHDR(&m);
    c->cmsg_level = SOL_SOCKET;
    c->cmsg_type = SCM_RIGHTS;
    c->cmsg_len = CMSG_LEN(sizeof(int));
    int fd = 0;
    memcpy(CMSG_DATA(c), &fd, sizeof fd);
    if (sendmsg(s, &m, 0) < 0)
        return 4;
    close(s);
    /* keep the process (and thus Squid's view of a live helper) around until stdin closes
     * from Squid's side is irrelevant: the driver holds a dup; just sleep until killed */
    for (;;)
        pause();
}
