/* vsockbuf.c — optional second LD_PRELOAD library (used next to libvshim.so by checks that need a
 * client that really stalls, e.g. C10's reader-during-replacement schedules).
 *
 * Squid has no directive for the send buffer of accepted client connections and Linux auto-tunes it
 * up to several MB on loopback, so "the client stops reading" would not stop Squid from finishing
 * the transfer of any reasonably sized object.  With VSOCK_SNDBUF=<bytes> in the environment every
 * TCP connection the squid process accept()s gets SO_SNDBUF=<bytes> (which also switches the kernel's
 * auto-tuning off for that socket).  Nothing else is changed; without the variable the library is inert.
 */
#define _GNU_SOURCE
#include <dlfcn.h>
#include <stdlib.h>
#include <sys/socket.h>
#include <sys/types.h>

static int wanted(void)
{
    static int v = -1;
    if (v < 0) {
        const char *e = getenv("VSOCK_SNDBUF");
        v = e ? atoi(e) : 0;
        if (v < 0)
            v = 0;
    }
    return v;
}

static void clamp(int fd)
{
    int v = wanted();
    if (fd < 0 || v <= 0)
        return;
    struct sockaddr_storage ss;
    socklen_t l = sizeof(ss);
    if (getsockname(fd, (struct sockaddr *)&ss, &l) == 0 && (ss.ss_family == AF_INET || ss.ss_family == AF_INET6))
        setsockopt(fd, SOL_SOCKET, SO_SNDBUF, &v, sizeof(v));
}

int accept(int s, struct sockaddr *a, socklen_t *l)
{
    static int (*real)(int, struct sockaddr *, socklen_t *);
    if (!real)
        real = (int (*)(int, struct sockaddr *, socklen_t *))dlsym(RTLD_NEXT, "accept");
    int fd = real(s, a, l);
    clamp(fd);
    return fd;
}

int accept4(int s, struct sockaddr *a, socklen_t *l, int flags)
{
    static int (*real)(int, struct sockaddr *, socklen_t *, int);
    if (!real)
        real = (int (*)(int, struct sockaddr *, socklen_t *, int))dlsym(RTLD_NEXT, "accept4");
    int fd = real(s, a, l, flags);
    clamp(fd);
    return fd;
}
