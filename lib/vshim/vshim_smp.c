/* vshim_smp.c — libvshim.so plus a PROBE command, for SMP schedule exploration (C19, C18 SMP part).
 *
 * It is vshim.c compiled into the same translation unit (vshim.c itself is not modified: its two
 * exported epoll entry points are renamed while it is included) with its own epoll_wait/epoll_pwait:
 * while a process is parked in the idle wait the driver may send
 *
 *     "P"   ->  the process does a zero-timeout epoll_wait on the epoll set it is parked on, discards
 *               the result (Squid registers its descriptors level-triggered, so nothing is consumed)
 *               and answers "R <number of ready descriptors>"
 *
 * so that the driver can compute which kids are enabled (have ready events) without running them, and
 *
 *     "M1" / "M0"  ->  step mode on / off (no answer).  In step mode EVERY epoll_wait with a non-zero
 *               timeout parks first, even when descriptors are ready, so one kick runs exactly one
 *               iteration of Squid's event loop (one batch of ready descriptors plus the queued
 *               async calls) instead of "until quiescent".  The idle report then carries the number
 *               of descriptors that were ready when the process parked: "I <seq> <timeout_ms> <n>".
 *
 * Everything else (K kicks, virtual clock, crash injection) is vshim.c's code.
 */
#define _GNU_SOURCE
#include <sys/epoll.h>
#define epoll_wait vshim_base_epoll_wait
#define epoll_pwait vshim_base_epoll_pwait
#include "vshim.c"
#undef epoll_wait
#undef epoll_pwait

static int step_mode = 0;

static int idle_wait_probe(int epfd, int maxev, int timeout_ms, int nready)
{
    ctl_connect();
    if (ctl < 0)
        return -1;
    char msg[128];
    int len = snprintf(msg, sizeof msg, "I %lu %d %d", ++idle_seq, timeout_ms, nready);
    if (send(ctl, msg, len, MSG_NOSIGNAL) < 0)
        return -1;
    for (;;) {
        char buf[128];
        ssize_t n = recv(ctl, buf, sizeof(buf) - 1, 0);
        if (n < 0 && errno == EINTR)
            continue;
        if (n <= 0)
            _exit(97);              /* driver is gone: do not linger */
        buf[n] = 0;
        if (buf[0] == 'K') {
            long long t = atoll(buf + 1);
            if (t > vnow_us)
                vnow_us = t;
            return 0;
        }
        if (buf[0] == 'M') {
            step_mode = buf[1] == '1';
            continue;
        }
        if (buf[0] == 'P') {
            struct epoll_event tmp[64];
            int k = real_epoll_wait(epfd, tmp, maxev < 64 ? (maxev > 0 ? maxev : 1) : 64, 0);
            len = snprintf(msg, sizeof msg, "R %d", k < 0 ? 0 : k);
            if (send(ctl, msg, len, MSG_NOSIGNAL) < 0)
                return -1;
        }
    }
}

int epoll_wait(int epfd, struct epoll_event *ev, int maxev, int timeout)
{
    init();
    RESOLVE(epoll_wait);
    if (active != 1 || timeout == 0)
        return real_epoll_wait(epfd, ev, maxev, timeout);
    int n = real_epoll_wait(epfd, ev, maxev, 0);
    if (n < 0 || (n > 0 && !step_mode))
        return n;
    if (idle_wait_probe(epfd, maxev, timeout, n) < 0)
        return real_epoll_wait(epfd, ev, maxev, timeout);
    return real_epoll_wait(epfd, ev, maxev, 0);
}

int epoll_pwait(int epfd, struct epoll_event *ev, int maxev, int timeout, const sigset_t *ss)
{
    init();
    RESOLVE(epoll_pwait);
    RESOLVE(epoll_wait);
    if (active != 1 || timeout == 0)
        return real_epoll_pwait(epfd, ev, maxev, timeout, ss);
    int n = real_epoll_pwait(epfd, ev, maxev, 0, ss);
    if (n < 0 || (n > 0 && !step_mode))
        return n;
    if (idle_wait_probe(epfd, maxev, timeout, n) < 0)
        return real_epoll_pwait(epfd, ev, maxev, timeout, ss);
    return real_epoll_pwait(epfd, ev, maxev, 0, ss);
}
