/* vshim.c — LD_PRELOAD shim that turns the real squid binary into a driver-scheduled,
 * virtual-time program (engine E3, DESIGN 4.3).
 *
 *  - epoll_wait(timeout != 0): poll once without blocking; if nothing is ready report
 *    "I <seq> <timeout_ms>" to the driver and block until "K <virtual_now_us>", then poll once
 *    more (timeout 0) and return.  Squid therefore runs only between a kick and the next idle
 *    report: kick -> idle is "run to quiescence".
 *  - time(), gettimeofday(), clock_gettime(): the frozen virtual clock, advanced only by K.
 *  - cache-file mutations (write/pwrite/writev/ftruncate/unlink/rename under VSHIM_CACHE_PREFIX)
 *    are counted; at VSHIM_CRASH_AT the mutation is done not at all / fully / partially
 *    (VSHIM_CRASH_MODE=before|after|partial:<bytes>|partial:half|partial:last) and the process
 *    SIGKILLs itself.  VSHIM_COUNT_FILE logs every counted mutation.
 *
 * Only processes whose executable is named "squid" are affected; helpers run free.
 */
#define _GNU_SOURCE
#include <dlfcn.h>
#include <errno.h>
#include <fcntl.h>
#include <signal.h>
#include <stdarg.h>
#include <stdio.h>
#include <stdlib.h>
#include <string.h>
#include <sys/epoll.h>
#include <sys/socket.h>
#include <sys/stat.h>
#include <sys/time.h>
#include <sys/types.h>
#include <sys/uio.h>
#include <sys/un.h>
#include <time.h>
#include <unistd.h>

static int active = -1;            /* -1 unknown, 0 pass-through, 1 squid */
static int ctl = -1;
static pid_t ctl_pid = 0;
static long long vnow_us = 0;      /* virtual clock, microseconds since the epoch */
static unsigned long idle_seq = 0;

static char cache_prefix[512];
static size_t cache_prefix_len = 0;
static long crash_at = 0;
static char crash_mode[64] = "after";
static long mut_count = 0;
static char count_file[512];
#define MAXFD 65536
static unsigned char tracked[MAXFD];
static char *tracked_name[MAXFD];

static int (*real_epoll_wait)(int, struct epoll_event *, int, int);
static int (*real_epoll_pwait)(int, struct epoll_event *, int, int, const sigset_t *);
static int (*real_clock_gettime)(clockid_t, struct timespec *);
static int (*real_open)(const char *, int, ...);
static int (*real_open64)(const char *, int, ...);
static int (*real_openat)(int, const char *, int, ...);
static int (*real_creat)(const char *, mode_t);
static int (*real_close)(int);
static ssize_t (*real_write)(int, const void *, size_t);
static ssize_t (*real_pwrite)(int, const void *, size_t, off_t);
static ssize_t (*real_pwrite64)(int, const void *, size_t, off_t);
static ssize_t (*real_writev)(int, const struct iovec *, int);
static int (*real_ftruncate)(int, off_t);
static int (*real_ftruncate64)(int, off_t);
static int (*real_unlink)(const char *);
static int (*real_rename)(const char *, const char *);

#define RESOLVE(name) do { if (!real_##name) real_##name = dlsym(RTLD_NEXT, #name); } while (0)

static void init(void)
{
    if (active >= 0)
        return;
    char exe[512];
    ssize_t n = readlink("/proc/self/exe", exe, sizeof(exe) - 1);
    active = 0;
    if (n > 0) {
        exe[n] = 0;
        const char *b = strrchr(exe, '/');
        b = b ? b + 1 : exe;
        if (strcmp(b, "squid") == 0 && getenv("VSHIM_CTL"))
            active = 1;
    }
    const char *t0 = getenv("VSHIM_T0");
    vnow_us = t0 ? atoll(t0) : 0;
    if (!vnow_us)
        active = 0;
    const char *p = getenv("VSHIM_CACHE_PREFIX");
    if (p && *p) {
        snprintf(cache_prefix, sizeof cache_prefix, "%s", p);
        cache_prefix_len = strlen(cache_prefix);
    }
    const char *c = getenv("VSHIM_CRASH_AT");
    crash_at = c ? atol(c) : 0;
    const char *m = getenv("VSHIM_CRASH_MODE");
    if (m)
        snprintf(crash_mode, sizeof crash_mode, "%s", m);
    const char *cf = getenv("VSHIM_COUNT_FILE");
    if (cf)
        snprintf(count_file, sizeof count_file, "%s", cf);
}

__attribute__((constructor)) static void ctor(void) { init(); }

/* ---------------------------------------------------------------- control channel */

static void ctl_connect(void)
{
    if (ctl >= 0 && ctl_pid == getpid())
        return;
    RESOLVE(close);
    ctl = -1;
    const char *path = getenv("VSHIM_CTL");
    if (!path)
        return;
    int s = socket(AF_UNIX, SOCK_SEQPACKET | SOCK_CLOEXEC, 0);
    if (s < 0)
        return;
    struct sockaddr_un a;
    memset(&a, 0, sizeof a);
    a.sun_family = AF_UNIX;
    snprintf(a.sun_path, sizeof a.sun_path, "%s", path);
    if (connect(s, (struct sockaddr *)&a, sizeof a) < 0) {
        real_close(s);
        return;
    }
    /* move out of the way of Squid's descriptor numbering */
    int hi = fcntl(s, F_DUPFD_CLOEXEC, 900);
    if (hi >= 0) {
        real_close(s);
        s = hi;
    }
    ctl = s;
    ctl_pid = getpid();
    char msg[1024], cmd[768];
    int fd = open("/proc/self/cmdline", O_RDONLY);
    ssize_t n = fd >= 0 ? read(fd, cmd, sizeof(cmd) - 1) : 0;
    if (fd >= 0)
        real_close(fd);
    if (n < 0)
        n = 0;
    for (ssize_t i = 0; i < n; ++i)
        if (!cmd[i])
            cmd[i] = ' ';
    cmd[n] = 0;
    int len = snprintf(msg, sizeof msg, "H %d %s", (int)getpid(), cmd);
    send(ctl, msg, len, MSG_NOSIGNAL);
}

static int idle_wait(int timeout_ms)
{
    ctl_connect();
    if (ctl < 0)
        return -1;
    char msg[128];
    int len = snprintf(msg, sizeof msg, "I %lu %d", ++idle_seq, timeout_ms);
    if (send(ctl, msg, len, MSG_NOSIGNAL) < 0)
        return -1;
    for (;;) {
        char buf[128];
        ssize_t n = recv(ctl, buf, sizeof(buf) - 1, 0);
        if (n < 0 && errno == EINTR)
            continue;
        if (n <= 0) {
            /* driver is gone: do not linger */
            _exit(97);
        }
        buf[n] = 0;
        if (buf[0] == 'K') {
            long long t = atoll(buf + 1);
            if (t > vnow_us)
                vnow_us = t;
            return 0;
        }
    }
}

int epoll_wait(int epfd, struct epoll_event *ev, int maxev, int timeout)
{
    init();
    RESOLVE(epoll_wait);
    if (active != 1 || timeout == 0)
        return real_epoll_wait(epfd, ev, maxev, timeout);
    int n = real_epoll_wait(epfd, ev, maxev, 0);
    if (n != 0)
        return n;
    if (idle_wait(timeout) < 0)
        return real_epoll_wait(epfd, ev, maxev, timeout);
    n = real_epoll_wait(epfd, ev, maxev, 0);
    return n;
}

int epoll_pwait(int epfd, struct epoll_event *ev, int maxev, int timeout, const sigset_t *ss)
{
    init();
    RESOLVE(epoll_pwait);
    if (active != 1 || timeout == 0)
        return real_epoll_pwait(epfd, ev, maxev, timeout, ss);
    int n = real_epoll_pwait(epfd, ev, maxev, 0, ss);
    if (n != 0)
        return n;
    if (idle_wait(timeout) < 0)
        return real_epoll_pwait(epfd, ev, maxev, timeout, ss);
    return real_epoll_pwait(epfd, ev, maxev, 0, ss);
}

/* ---------------------------------------------------------------- virtual clock */

int gettimeofday(struct timeval *tv, void *tz)
{
    init();
    (void)tz;
    if (active != 1) {
        struct timespec ts;
        RESOLVE(clock_gettime);
        real_clock_gettime(CLOCK_REALTIME, &ts);
        if (tv) {
            tv->tv_sec = ts.tv_sec;
            tv->tv_usec = ts.tv_nsec / 1000;
        }
        return 0;
    }
    if (tv) {
        tv->tv_sec = vnow_us / 1000000;
        tv->tv_usec = vnow_us % 1000000;
    }
    return 0;
}

int clock_gettime(clockid_t id, struct timespec *ts)
{
    init();
    RESOLVE(clock_gettime);
    if (active != 1 || id == CLOCK_PROCESS_CPUTIME_ID || id == CLOCK_THREAD_CPUTIME_ID)
        return real_clock_gettime(id, ts);
    if (ts) {
        ts->tv_sec = vnow_us / 1000000;
        ts->tv_nsec = (vnow_us % 1000000) * 1000;
    }
    return 0;
}

time_t time(time_t *t)
{
    init();
    time_t r;
    if (active != 1) {
        struct timespec ts;
        RESOLVE(clock_gettime);
        real_clock_gettime(CLOCK_REALTIME, &ts);
        r = ts.tv_sec;
    } else
        r = vnow_us / 1000000;
    if (t)
        *t = r;
    return r;
}

/* ---------------------------------------------------------------- cache-file mutation counting */

static int is_cache_path(const char *p)
{
    return active == 1 && cache_prefix_len && p && strncmp(p, cache_prefix, cache_prefix_len) == 0;
}

static void track(int fd, const char *path)
{
    if (fd >= 0 && fd < MAXFD && is_cache_path(path)) {
        tracked[fd] = 1;
        free(tracked_name[fd]);
        tracked_name[fd] = strdup(path);
    }
}

static void die_now(void)
{
    kill(getpid(), SIGKILL);
    for (;;)
        pause();
}

/* returns: 0 = proceed normally, 1 = crash before (do nothing), 2 = perform fully then crash,
 * 3 = perform partially (*cut bytes) then crash */
static int mutation(const char *op, int fd, const char *path, size_t len, long long off, size_t *cut)
{
    ++mut_count;
    if (count_file[0]) {
        RESOLVE(write);
        RESOLVE(close);
        RESOLVE(open);
        int f = real_open(count_file, O_WRONLY | O_APPEND | O_CREAT, 0666);
        if (f >= 0) {
            char line[900];
            int n = snprintf(line, sizeof line, "%ld %s %zu %lld %s\n", mut_count, op, len, off,
                             path ? path : (fd >= 0 && fd < MAXFD && tracked_name[fd] ? tracked_name[fd] : "?"));
            real_write(f, line, n);
            real_close(f);
        }
    }
    if (!crash_at || mut_count != crash_at)
        return 0;
    if (strcmp(crash_mode, "before") == 0)
        return 1;
    if (strncmp(crash_mode, "partial:", 8) == 0 && len > 1) {
        const char *a = crash_mode + 8;
        size_t k;
        if (strcmp(a, "half") == 0)
            k = len / 2;
        else if (strcmp(a, "last") == 0)
            k = len - 1;
        else
            k = (size_t)atol(a);
        if (k >= len)
            k = len - 1;
        if (k < 1)
            k = 1;
        *cut = k;
        return 3;
    }
    return 2;
}

int open(const char *path, int flags, ...)
{
    init();
    RESOLVE(open);
    mode_t mode = 0;
    if (flags & (O_CREAT | O_TMPFILE)) {
        va_list ap;
        va_start(ap, flags);
        mode = va_arg(ap, mode_t);
        va_end(ap);
    }
    int fd = real_open(path, flags, mode);
    track(fd, path);
    return fd;
}

int open64(const char *path, int flags, ...)
{
    init();
    RESOLVE(open64);
    mode_t mode = 0;
    if (flags & (O_CREAT | O_TMPFILE)) {
        va_list ap;
        va_start(ap, flags);
        mode = va_arg(ap, mode_t);
        va_end(ap);
    }
    int fd = real_open64(path, flags, mode);
    track(fd, path);
    return fd;
}

int openat(int dirfd, const char *path, int flags, ...)
{
    init();
    RESOLVE(openat);
    mode_t mode = 0;
    if (flags & (O_CREAT | O_TMPFILE)) {
        va_list ap;
        va_start(ap, flags);
        mode = va_arg(ap, mode_t);
        va_end(ap);
    }
    int fd = real_openat(dirfd, path, flags, mode);
    track(fd, path);
    return fd;
}

int creat(const char *path, mode_t mode)
{
    init();
    RESOLVE(creat);
    int fd = real_creat(path, mode);
    track(fd, path);
    return fd;
}

int close(int fd)
{
    RESOLVE(close);
    if (fd >= 0 && fd < MAXFD)
        tracked[fd] = 0;
    return real_close(fd);
}

#define IS_TRACKED(fd) ((fd) >= 0 && (fd) < MAXFD && tracked[fd])

ssize_t write(int fd, const void *buf, size_t len)
{
    RESOLVE(write);
    if (!IS_TRACKED(fd))
        return real_write(fd, buf, len);
    size_t cut = 0;
    int m = mutation("write", fd, NULL, len, -1, &cut);
    if (m == 1)
        die_now();
    if (m == 3) {
        real_write(fd, buf, cut);
        die_now();
    }
    ssize_t r = real_write(fd, buf, len);
    if (m == 2)
        die_now();
    return r;
}

ssize_t pwrite(int fd, const void *buf, size_t len, off_t off)
{
    RESOLVE(pwrite);
    if (!IS_TRACKED(fd))
        return real_pwrite(fd, buf, len, off);
    size_t cut = 0;
    int m = mutation("pwrite", fd, NULL, len, (long long)off, &cut);
    if (m == 1)
        die_now();
    if (m == 3) {
        real_pwrite(fd, buf, cut, off);
        die_now();
    }
    ssize_t r = real_pwrite(fd, buf, len, off);
    if (m == 2)
        die_now();
    return r;
}

ssize_t pwrite64(int fd, const void *buf, size_t len, off_t off)
{
    RESOLVE(pwrite64);
    if (!IS_TRACKED(fd))
        return real_pwrite64(fd, buf, len, off);
    size_t cut = 0;
    int m = mutation("pwrite", fd, NULL, len, (long long)off, &cut);
    if (m == 1)
        die_now();
    if (m == 3) {
        real_pwrite64(fd, buf, cut, off);
        die_now();
    }
    ssize_t r = real_pwrite64(fd, buf, len, off);
    if (m == 2)
        die_now();
    return r;
}

ssize_t writev(int fd, const struct iovec *iov, int cnt)
{
    RESOLVE(writev);
    if (!IS_TRACKED(fd))
        return real_writev(fd, iov, cnt);
    size_t len = 0;
    for (int i = 0; i < cnt; ++i)
        len += iov[i].iov_len;
    size_t cut = 0;
    int m = mutation("writev", fd, NULL, len, -1, &cut);
    if (m == 1)
        die_now();
    if (m == 3) {
        RESOLVE(write);
        for (int i = 0; i < cnt && cut; ++i) {
            size_t k = iov[i].iov_len < cut ? iov[i].iov_len : cut;
            real_write(fd, iov[i].iov_base, k);
            cut -= k;
        }
        die_now();
    }
    ssize_t r = real_writev(fd, iov, cnt);
    if (m == 2)
        die_now();
    return r;
}

int ftruncate(int fd, off_t len)
{
    RESOLVE(ftruncate);
    if (!IS_TRACKED(fd))
        return real_ftruncate(fd, len);
    size_t cut = 0;
    int m = mutation("ftruncate", fd, NULL, 0, (long long)len, &cut);
    if (m == 1)
        die_now();
    int r = real_ftruncate(fd, len);
    if (m >= 2)
        die_now();
    return r;
}

int ftruncate64(int fd, off_t len)
{
    RESOLVE(ftruncate64);
    if (!IS_TRACKED(fd))
        return real_ftruncate64(fd, len);
    size_t cut = 0;
    int m = mutation("ftruncate", fd, NULL, 0, (long long)len, &cut);
    if (m == 1)
        die_now();
    int r = real_ftruncate64(fd, len);
    if (m >= 2)
        die_now();
    return r;
}

int unlink(const char *path)
{
    init();
    RESOLVE(unlink);
    if (!is_cache_path(path))
        return real_unlink(path);
    size_t cut = 0;
    int m = mutation("unlink", -1, path, 0, -1, &cut);
    if (m == 1)
        die_now();
    int r = real_unlink(path);
    if (m >= 2)
        die_now();
    return r;
}

int rename(const char *from, const char *to)
{
    init();
    RESOLVE(rename);
    if (!is_cache_path(from) && !is_cache_path(to))
        return real_rename(from, to);
    size_t cut = 0;
    int m = mutation("rename", -1, to, 0, -1, &cut);
    if (m == 1)
        die_now();
    int r = real_rename(from, to);
    if (m >= 2)
        die_now();
    return r;
}
