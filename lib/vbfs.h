// vbfs.h — explicit-state breadth-first exploration of operation sequences on a real object vs a
// reference model, for E1 harnesses (used with vharness.h).
//
// A harness supplies a system description `Sys`:
//
//   struct Sys {
//       struct World { ...real object(s) + reference model, default-constructed = initial state... };
//       size_t numOps() const;
//       bool core(size_t op) const;              // core ops build the interior levels; the others are
//                                                // applied once to every state of every level
//       const std::string &opName(size_t op) const;   // no spaces/tabs; parseable for replay
//       bool apply(World &, size_t op, VB::Fail &);   // run op on real object + model, check the op's own
//                                                // results and the cheap per-step invariant; return false
//                                                // if the op is disabled in this state (precondition)
//       void canon(const World &, std::string &out);  // canonical serialisation of the COMPLETE state: the real
//                                                // object AND the reference model (otherwise a diverged
//                                                // pair could hide behind an already-seen real state)
//       void observe(World &, VB::Fail &);       // full battery of queries vs the model; may perturb the
//                                                // object (it is discarded afterwards) unless
//                                                // observersAreConst, in which case canon is re-checked
//       static const bool observersAreConst;
//       void classify(const World &);            // vacuity counters on distinct states
//       bool leaf;                               // set by the explorer while observing a leaf-level state
//       std::string show(const World &);         // one-line rendering for samples
//       void finish(int shard);                  // V::count(...) for own counters
//   };
//
// Exploration (VB::explore): level 0 = initial state; level d+1 = distinct states reached from level d
// by core ops (d < D).  Every state of every level 0..D gets every op applied.  Hence all sequences of
// <= D core ops followed by one arbitrary op are executed on the real object.  States are rebuilt by
// replaying their history on a fresh World (canon-on-replay asserted).  Work split over shards:
// transitions that build interior levels are executed by every shard (they all need the same level
// sets; deduplicated with hash+check value), all other transitions are partitioned by state index;
// the observer battery runs once per distinct state (interior: partitioned by hash; leaf: per-shard
// 64-bit hash set).
#ifndef VBFS_H
#define VBFS_H

#include "vharness.h"

#include <array>
#include <algorithm>

namespace VB {

struct Fail {
    std::string key, msg;
    void set(const std::string &k, const std::string &m) { if (key.empty()) { key = k; msg = m; } }
    bool bad() const { return !key.empty(); }
};

inline uint64_t hash64(const std::string &s, uint64_t seed)
{
    uint64_t h = 1469598103934665603ULL ^ (seed * 0x9E3779B97F4A7C15ULL);
    const unsigned char *p = (const unsigned char *)s.data();
    size_t n = s.size();
    while (n >= 8) {
        uint64_t w;
        memcpy(&w, p, 8);
        h = (h ^ w) * 0x100000001b3ULL;
        h ^= h >> 31;
        p += 8; n -= 8;
    }
    while (n--) { h ^= *p++; h *= 0x100000001b3ULL; }
    h ^= h >> 29; h *= 0xbf58476d1ce4e5b9ULL; h ^= h >> 32; h *= 0x94d049bb133111ebULL; h ^= h >> 29;
    return h ? h : 1;
}

// open-addressing set of non-zero 64-bit hashes with an optional 64-bit check value
struct FlatMap {
    std::vector<uint64_t> k, v;
    size_t n = 0;
    bool withCheck;
    bool collision = false;
    explicit FlatMap(bool c): withCheck(c) { k.assign(1 << 12, 0); if (c) v.assign(1 << 12, 0); }
    void grow()
    {
        std::vector<uint64_t> ok, ov;
        ok.swap(k); ov.swap(v);
        k.assign(ok.size() * 2, 0);
        if (withCheck) v.assign(ok.size() * 2, 0);
        n = 0;
        for (size_t q = 0; q < ok.size(); ++q) if (ok[q]) insert(ok[q], withCheck ? ov[q] : 0);
    }
    bool contains(uint64_t h) const
    {
        const size_t mask = k.size() - 1;
        for (size_t p = h & mask;; p = (p + 1) & mask) {
            if (!k[p]) return false;
            if (k[p] == h) return true;
        }
    }
    bool insert(uint64_t h, uint64_t chk)     // true if newly inserted
    {
        if ((n + 1) * 10 > k.size() * 6) grow();
        const size_t mask = k.size() - 1;
        for (size_t p = h & mask;; p = (p + 1) & mask) {
            if (!k[p]) { k[p] = h; if (withCheck) v[p] = chk; ++n; return true; }
            if (k[p] == h) { if (withCheck && v[p] != chk) collision = true; return false; }
        }
    }
};

// stores the descriptor of the execution in progress where the crash handler of vharness finds it
inline void setDesc(const std::string &d)
{
    V::State &st = V::S();
    st.cur = d;
    const size_t n = std::min(d.size(), sizeof(st.sh->desc) - 1);
    memcpy(st.sh->desc, d.data(), n);
    st.sh->desc[n] = 0;
}

const int MAXD = 10;
struct Node {
    uint64_t h = 0;
    uint8_t len = 0;
    std::array<uint16_t, MAXD> hist;
};

template <class Sys>
std::string histText(Sys &sys, const Node &nd, int extraOp = -1)
{
    std::string s;
    for (int k = 0; k < nd.len; ++k) { if (k) s += ' '; s += sys.opName(nd.hist[k]); }
    if (extraOp >= 0) { if (nd.len) s += ' '; s += sys.opName(extraOp); }
    return s;
}

// Replays "op op op" with the observer battery after every step (for --replay-case).
template <class Sys>
void replayHistory(Sys &sys, const std::string &text)
{
    std::map<std::string, size_t> byName;
    for (size_t o = 0; o < sys.numOps(); ++o) byName[sys.opName(o)] = o;
    Fail f;
    std::string c1, c2;
    // observers may perturb the object, so each prefix is rebuilt from scratch before it is observed
    std::vector<size_t> ops;
    size_t pos = 0;
    while (pos <= text.size()) {
        size_t e = text.find(' ', pos);
        if (e == std::string::npos) e = text.size();
        const std::string name = text.substr(pos, e - pos);
        pos = e + 1;
        if (name.empty()) continue;
        auto it = byName.find(name);
        if (it == byName.end()) { V::failKey("HARNESS:unknown-op", "unknown operation in replay descriptor: " + name); return; }
        ops.push_back(it->second);
    }
    for (size_t upto = 0; upto <= ops.size() && !f.bad(); ++upto) {
        typename Sys::World w;
        for (size_t k = 0; k < upto && !f.bad(); ++k)
            if (!sys.apply(w, ops[k], f) && !f.bad()) { V::failKey("HARNESS:disabled-op-in-replay", "operation " + sys.opName(ops[k]) + " is not enabled at step " + std::to_string(k)); return; }
        if (f.bad()) break;
        sys.canon(w, c1);
        sys.observe(w, f);
        if (!f.bad() && Sys::observersAreConst) {
            sys.canon(w, c2);
            if (c1 != c2) f.set("observe:mutates", "a const observer changed the state");
        }
    }
    if (f.bad()) V::failKey(f.key, f.msg);
    V::outcome(f.bad() ? "replay:failed" : "replay:ok");
}

template <class Sys>
void rebuild(Sys &sys, const Node &nd, typename Sys::World &w, Fail &f, std::string &scratch)
{
    for (int k = 0; k < nd.len && !f.bad(); ++k)
        if (!sys.apply(w, nd.hist[k], f) && !f.bad()) f.set("HARNESS:replay-diverged", "op disabled on replay");
    if (f.bad()) { f.key = "HARNESS:replay-diverged"; return; }
    sys.canon(w, scratch);
    if (hash64(scratch, 0) != nd.h)
        f.set("HARNESS:canon-on-replay", "replaying '" + histText(sys, nd) + "' produced a different canonical state");
}

// D = number of interior levels built from core ops.  Returns when done or when the deadline hits.
template <class Sys>
void explore(Sys &sys, V::Ctx &ctx, int D)
{
    const int shard = ctx.shard, nshards = ctx.nshards;
    FlatMap seen(true), leaf(false);
    std::vector<Node> level, next;
    std::string cs, cs2;
    uint64_t interiorTrans = 0, partTrans = 0, novelLeaf = 0, observed = 0, disabled = 0, execs = 0;
    const time_t t0 = V::S().start;
    bool cut = false;
    int done = -1;
    uint64_t tick = 0;
    const size_t nops = sys.numOps();
    // progress counters are written to the crash-safe result stream as deltas (level ends, every 1024
    // transitions), so that a run that ends in a crash still reports what it executed
    std::map<std::string, uint64_t> emitted;
    auto emitDelta = [&](const char *name, uint64_t v) {
        uint64_t &last = emitted[name];
        if (v > last) { V::emit(std::string("C\t") + name + "\t" + std::to_string(v - last)); last = v; }
    };
    auto progress = [&]() {
        emitDelta("states_interior", shard == 0 ? seen.n : 0);
        emitDelta("states_leaf", novelLeaf);
        emitDelta("transitions_interior", interiorTrans);
        emitDelta("transitions_partitioned", partTrans);
        emitDelta("transitions_executed_incl_redundant", execs);
        emitDelta("disabled_ops_skipped", disabled);
        emitDelta("states_observed", observed);
    };

    {
        typename Sys::World w;
        Fail f;
        sys.canon(w, cs);
        Node root;
        root.h = hash64(cs, 0);
        seen.insert(root.h, hash64(cs, 77));
        level.push_back(root);
        if (shard == 0) { sys.classify(w); sys.observe(w, f); ++observed; if (f.bad()) V::failKey(f.key, f.msg); }
    }

    for (int d = 0; d <= D && !cut; ++d) {
        next.clear();
        for (size_t idx = 0; idx < level.size() && !cut; ++idx) {
            const Node &nd = level[idx];
            const bool mine = (idx % (size_t)nshards) == (size_t)shard;
            for (size_t o = 0; o < nops; ++o) {
                const bool interior = sys.core(o) && d < D;     // builds the next level: done by every shard
                if (!interior && !mine) continue;
                if ((++tick & 0x3ff) == 0 && ctx.deadlineS > 0 && difftime(time(nullptr), t0) > ctx.deadlineS) { cut = true; break; }
                if ((tick & 0x3ff) == 0) progress();
                setDesc(histText(sys, nd, (int)o));
                typename Sys::World w;
                Fail f;
                rebuild(sys, nd, w, f, cs);
                bool enabled = true;
                if (!f.bad()) enabled = sys.apply(w, o, f);
                if (!enabled && !f.bad()) { ++disabled; continue; }
                ++execs;
                if (interior) { if (shard == 0) ++interiorTrans; }
                else ++partTrans;
                if (f.bad()) { V::failKey(f.key, f.msg); continue; }
                sys.canon(w, cs);
                const uint64_t h = hash64(cs, 0);
                bool observeIt = false;
                if (interior) {
                    if (seen.insert(h, hash64(cs, 77))) {
                        Node nn = nd;
                        nn.hist[nn.len++] = (uint16_t)o;
                        nn.h = h;
                        next.push_back(nn);
                        if (shard == 0) sys.classify(w);
                        observeIt = (h % (uint64_t)nshards) == (uint64_t)shard;
                    }
                } else if (!seen.contains(h)) {
                    if (leaf.insert(h, 0)) { ++novelLeaf; observeIt = true; sys.classify(w); }
                }
                if (observeIt) {
                    ++observed;
                    if (observed % 20011 == 1) V::sample(histText(sys, nd, (int)o) + "  =>  " + sys.show(w));
                    sys.leaf = !interior;       // a Sys may run a lighter battery on leaf states in the quick tier
                    sys.observe(w, f);
                    sys.leaf = false;
                    if (!f.bad() && Sys::observersAreConst) {
                        sys.canon(w, cs2);
                        if (cs2 != cs) f.set("observe:mutates", "a const observer changed the state");
                    }
                    if (f.bad()) V::failKey(f.key, f.msg);
                }
            }
        }
        progress();
        if (!cut) {
            done = d;
            V::emit("C\tshards_done_depth_" + std::to_string(d + 1) + "\t1");
            V::count("level_" + std::to_string(d) + "_states", shard == 0 ? level.size() : 0);
            level.swap(next);
        }
    }
    if (seen.collision) V::failKey("HARNESS:hash-collision", "two different canonical states share a 64-bit hash");
    if (cut) V::S().sh->deadlineHit = 1;
    (void)done;
    size_t ncore = 0;
    for (size_t o = 0; o < nops; ++o) ncore += sys.core(o);
    V::count("interior_depth", shard == 0 ? D : 0);
    V::count("ops_in_alphabet", shard == 0 ? nops : 0);
    V::count("ops_in_core_alphabet", shard == 0 ? ncore : 0);
    progress();
    sys.finish(shard);
    V::outcome(cut ? "bfs:cut-by-deadline" : "bfs:completed");
}

// standard body: one "bfs" case per shard (+ optional extra cases supplied by the caller)
template <class Sys>
void runSharded(Sys &sys, V::Ctx &ctx, int D)
{
    if (V::S().skipUpto > 0) V::S().sh->deadlineHit = 1;     // restarted after a crash: the exploration was cut short
    for (int k = 0; k < ctx.nshards; ++k) {
        // begin_case() hands case number k+1 to shard (k+1) % n: each shard runs exactly one BFS
        if (V::begin_case("bfs")) {
            explore(sys, ctx, D);
            V::end_case();
        }
    }
}

} // namespace VB

#endif
