// vatomic_pre.h — forced pre-include (-include) that substitutes std::atomic<T> / std::atomic_flag
// in *unmodified* Squid sources by scheduler-controlled equivalents.  Every operation on a
// substituted atomic first calls vsched_point(), which lets the E2 explorer decide which
// "process" (coroutine) performs the next atomic step.  Sequentially consistent semantics.
#ifndef VATOMIC_PRE_H
#define VATOMIC_PRE_H

// 1. pull in every standard header that mentions `atomic`, before the macro below exists
#include <atomic>
#include <memory>
#include <mutex>
#include <thread>
#include <future>
#include <condition_variable>
#include <shared_mutex>
#include <functional>
#include <string>
#include <iostream>
#include <sstream>
#include <fstream>
#include <iomanip>
#include <algorithm>
#include <vector>
#include <map>
#include <set>
#include <list>
#include <deque>
#include <queue>
#include <stack>
#include <unordered_map>
#include <unordered_set>
#include <chrono>
#include <random>
#include <regex>
#include <locale>
#include <limits>
#include <optional>
#include <variant>
#include <any>
#include <tuple>
#include <array>
#include <bitset>
#include <numeric>
#include <iterator>
#include <typeinfo>
#include <typeindex>
#include <exception>
#include <stdexcept>
#include <system_error>
#include <new>
#include <utility>
#include <type_traits>
#include <memory_resource>
#include <string_view>
#include <charconv>
#include <codecvt>
#include <complex>
#include <valarray>
#include <ratio>
#include <initializer_list>
#include <scoped_allocator>
#include <cstdint>
#include <cstring>

extern "C" {
// kind: 0 load, 1 store, 2 read-modify-write
void vsched_point(const volatile void *addr, int kind);
void vsched_read(unsigned long long value);   // value observed by the current coroutine (for state hashing)
int vsched_spurious(void);                    // 1 = this compare_exchange_weak fails spuriously
// optional second scheduling point right after the operation (Scenario::pointAfterAtomics): separates the
// atomic step from the plain (non-atomic) accesses to shared memory that follow it in program order
void vsched_after(const volatile void *addr);
}

namespace std {

template <class T>
struct vatomic {
    T v_;

    vatomic() noexcept = default;
    constexpr vatomic(T v) noexcept : v_(v) {}
    vatomic(const vatomic &) = delete;
    vatomic &operator=(const vatomic &) = delete;

    static constexpr bool is_always_lock_free = true;
    bool is_lock_free() const noexcept { return true; }
    bool is_lock_free() const volatile noexcept { return true; }

    T load(memory_order = memory_order_seq_cst) const noexcept {
        vsched_point(this, 0);
        T r = v_;
        note(r);
        vsched_after(this);
        return r;
    }
    void store(T d, memory_order = memory_order_seq_cst) noexcept { vsched_point(this, 1); v_ = d; vsched_after(this); }
    operator T() const noexcept { return load(); }
    T operator=(T d) noexcept { store(d); return d; }

    T exchange(T d, memory_order = memory_order_seq_cst) noexcept {
        vsched_point(this, 2);
        T r = v_; v_ = d; note(r);
        vsched_after(this);
        return r;
    }
    bool compare_exchange_strong(T &expected, T desired, memory_order = memory_order_seq_cst, memory_order = memory_order_seq_cst) noexcept {
        vsched_point(this, 2);
        if (memcmp(&v_, &expected, sizeof(T)) == 0) { v_ = desired; vsched_read(1); vsched_after(this); return true; }
        expected = v_; note(expected);
        vsched_after(this);
        return false;
    }
    bool compare_exchange_weak(T &expected, T desired, memory_order = memory_order_seq_cst, memory_order = memory_order_seq_cst) noexcept {
        vsched_point(this, 2);
        if (memcmp(&v_, &expected, sizeof(T)) == 0) {
            if (vsched_spurious()) { vsched_read(2); vsched_after(this); return false; } // spurious failure: expected unchanged
            v_ = desired; vsched_read(1);
            vsched_after(this);
            return true;
        }
        expected = v_; note(expected);
        vsched_after(this);
        return false;
    }
    T fetch_add(T d, memory_order = memory_order_seq_cst) noexcept { vsched_point(this, 2); T r = v_; v_ = (T)(v_ + d); note(r); vsched_after(this); return r; }
    T fetch_sub(T d, memory_order = memory_order_seq_cst) noexcept { vsched_point(this, 2); T r = v_; v_ = (T)(v_ - d); note(r); vsched_after(this); return r; }
    T fetch_and(T d, memory_order = memory_order_seq_cst) noexcept { vsched_point(this, 2); T r = v_; v_ = (T)(v_ & d); note(r); vsched_after(this); return r; }
    T fetch_or(T d, memory_order = memory_order_seq_cst) noexcept { vsched_point(this, 2); T r = v_; v_ = (T)(v_ | d); note(r); vsched_after(this); return r; }
    T fetch_xor(T d, memory_order = memory_order_seq_cst) noexcept { vsched_point(this, 2); T r = v_; v_ = (T)(v_ ^ d); note(r); vsched_after(this); return r; }

    T operator++() noexcept { return (T)(fetch_add((T)1) + 1); }
    T operator++(int) noexcept { return fetch_add((T)1); }
    T operator--() noexcept { return (T)(fetch_sub((T)1) - 1); }
    T operator--(int) noexcept { return fetch_sub((T)1); }
    T operator+=(T d) noexcept { return (T)(fetch_add(d) + d); }
    T operator-=(T d) noexcept { return (T)(fetch_sub(d) - d); }
    T operator&=(T d) noexcept { return (T)(fetch_and(d) & d); }
    T operator|=(T d) noexcept { return (T)(fetch_or(d) | d); }
    T operator^=(T d) noexcept { return (T)(fetch_xor(d) ^ d); }

private:
    static void note(const T &r) noexcept {
        unsigned long long x = 0;
        memcpy(&x, &r, sizeof(T) < sizeof(x) ? sizeof(T) : sizeof(x));
        vsched_read(x);
    }
};

struct vatomic_flag {
    bool v_;
    vatomic_flag() noexcept : v_(false) {}
    constexpr vatomic_flag(bool b) noexcept : v_(b) {}
    vatomic_flag(const vatomic_flag &) = delete;
    vatomic_flag &operator=(const vatomic_flag &) = delete;
    bool test_and_set(memory_order = memory_order_seq_cst) noexcept { vsched_point(this, 2); bool r = v_; v_ = true; vsched_read(r); vsched_after(this); return r; }
    void clear(memory_order = memory_order_seq_cst) noexcept { vsched_point(this, 1); v_ = false; vsched_after(this); }
};

} // namespace std

// 2. from here on, Squid's `std::atomic<...>` and `std::atomic_flag` name the scheduled versions
#define atomic vatomic
#define atomic_flag vatomic_flag

#endif
