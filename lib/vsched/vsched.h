// vsched.h — E2: coroutine scheduler + preemption-bounded exhaustive explorer.
//
// A Scenario has 2–3 "processes" (coroutines).  Every operation on a substituted atomic
// (vatomic_pre.h) is a scheduling point.  VS::explore() enumerates *all* schedules with at most
// `maxDeviations` deviations (a deviation = switching away from a still-runnable process, or one
// spurious compare_exchange_weak failure), iterating the bound 0,1,2,... so that the first
// counterexample has the fewest deviations.  The scenario's invariant() runs after every atomic
// step, final() when all processes have finished.  Executions are deterministic functions of
// their choice list; the choice list is the replay artefact.
#ifndef VSCHED_H
#define VSCHED_H

#include <functional>
#include <string>
#include <vector>
#include <cstdint>

namespace VS {

struct Scenario {
    std::string name;
    std::function<void()> setup;                  // build fresh shared state (before every execution)
    std::vector<std::function<void()>> procs;     // process bodies
    std::function<void()> invariant;              // after every atomic step (main context)
    std::function<void()> final;                  // after all processes finished
    std::function<void()> teardown;               // after every execution
    // bytes to hash for the state count: the harness appends whatever identifies the shared state
    std::function<void(std::string &)> stateBytes;
    int maxDeviations = 2;
    int startBound = 0;                           // first bound of the iteration (set = maxDeviations to skip the iterative deepening)
    bool spuriousCas = true;
    bool pointAfterAtomics = false;               // extra scheduling point right after every atomic operation, so that plain
                                                  // accesses to shared memory following it form a step of their own
    uint64_t stepBudget = 100000;                 // per execution; exceeding it = livelock
    uint64_t maxExecutions = 0;                   // 0 = unlimited (cap reported if hit)
    bool prune = false;                           // state-hash pruning (sound only if stateBytes+read history capture all local state)
};

struct Stats {
    uint64_t executions = 0, steps = 0, states = 0, points = 0;
    int boundCompleted = -1;
    bool capHit = false;
    bool violated = false;
    std::string violation;        // message of the first violation
    std::vector<int> schedule;    // its choice list
    std::string trace;            // human-readable trace of that execution
    uint64_t pruned = 0;
    uint64_t abandoned = 0;       // executions given up by VS::abandon()
    std::vector<std::pair<std::string, std::vector<int>>> abandonedSamples;   // first schedule per distinct reason (at most 16)
    // conflict witnesses for vacuity guards
    uint64_t contextSwitches = 0;
};

// called from process bodies / invariants
void violation(const std::string &msg);           // record and abort the current execution
void abandon(const std::string &reason);          // give up the current execution WITHOUT reporting a violation (e.g. it ran into
                                                  // a known finding); the exploration goes on; see Stats::abandoned*
int self();                                       // id of the running process, -1 in main context
void note(const std::string &event);              // add a line to the execution trace
void local(uint64_t v);                           // mix a process-local value into the state hash
void waitUntil(const std::function<bool()> &pred);// block the calling process until pred() holds
void yieldPoint();                                // explicit scheduling point (e.g. inside retry loops)
uint64_t stepIndex();                             // global step counter of this execution
uint64_t procSteps();                             // steps taken so far by the calling process (0 in main context)

// explore all schedules with <= sc.maxDeviations deviations; stops at the first violation
void explore(const Scenario &sc, Stats &st, double deadlineS = 0);
// run exactly one schedule (replay); returns true if it violated
bool replay(const Scenario &sc, const std::vector<int> &choices, Stats &st);

std::string fmtSchedule(const std::vector<int> &c);
std::vector<int> parseSchedule(const std::string &s);

} // namespace VS

#endif
