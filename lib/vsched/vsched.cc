// vsched.cc — see vsched.h.  Compiled WITHOUT the vatomic pre-include.
#include "vsched.h"

#include <cstdio>
#include <exception>
#include <stdexcept>
#include <cstdlib>
#include <cstring>
#include <ctime>
#include <unordered_set>
#include <unordered_map>
#include <sys/mman.h>
#include <unistd.h>

extern "C" {
void __sanitizer_start_switch_fiber(void **, const void *, size_t) __attribute__((weak));
void __sanitizer_finish_switch_fiber(void *, const void **, size_t *) __attribute__((weak));
void __asan_unpoison_memory_region(void const volatile *, size_t) __attribute__((weak));
}

namespace VS {

namespace {

const size_t StackSize = 256 * 1024;

struct Point { int arity; int chosen; int altCost; };

struct Proc {
    void *sp = nullptr;    // saved stack pointer while not running
    char *stack = nullptr;
    bool started = false, finished = false;
    std::function<bool()> waitPred;
    bool waiting = false;
    uint64_t rh = 0;       // rolling hash of observed values (local state proxy)
    uint64_t steps = 0;
};

struct Exec {
    const Scenario *sc = nullptr;
    std::vector<Proc> procs;
    int current = -1;          // process running or last run
    int running = -1;          // process whose context is active (-1: main)
    void *mainSp = nullptr;
    const void *mainStackBottom = nullptr; size_t mainStackSize = 0;
    void *mainFake = nullptr;
    std::vector<int> prefix;
    std::vector<Point> points;
    bool aborted = false, violated = false, pruned = false, abandoned = false;
    std::string abandonReason;
    std::string vmsg;
    bool spuriousUsed = false;
    uint64_t steps = 0;
    bool tracing = false;
    std::string trace;
    int devs = 0;
    int bound = 0;
};

Exec *E = nullptr;
std::vector<char *> stackPool;

// Minimal x86-64 context switch (callee-saved registers + stack pointer).  glibc's swapcontext()
// makes a sigprocmask system call per switch, which dominated the run time.
extern "C" void vs_switch(void **saveSp, void *newSp);
asm(R"(
    .text
    .globl vs_switch
    .type vs_switch,@function
vs_switch:
    pushq %rbp
    pushq %rbx
    pushq %r12
    pushq %r13
    pushq %r14
    pushq %r15
    movq %rsp, (%rdi)
    movq %rsi, %rsp
    popq %r15
    popq %r14
    popq %r13
    popq %r12
    popq %rbx
    popq %rbp
    ret
    .size vs_switch,.-vs_switch
)");

inline uint64_t mix(uint64_t h, uint64_t v) {
    h ^= v + 0x9e3779b97f4a7c15ULL + (h << 6) + (h >> 2);
    h *= 0xff51afd7ed558ccdULL;
    h ^= h >> 33;
    return h;
}
inline uint64_t hashBytes(const std::string &s, uint64_t h) {
    const unsigned char *p = (const unsigned char *)s.data();
    size_t n = s.size();
    while (n >= 8) { uint64_t v; memcpy(&v, p, 8); h = mix(h, v); p += 8; n -= 8; }
    uint64_t v = 0; memcpy(&v, p, n); h = mix(h, v ^ (uint64_t)s.size());
    return h;
}

void switchToMain() {
    Exec &e = *E;
    int me = e.running;
    e.running = -1;
    void *fake = nullptr;
    if (__sanitizer_start_switch_fiber) __sanitizer_start_switch_fiber(&fake, e.mainStackBottom, e.mainStackSize);
    vs_switch(&e.procs[me].sp, e.mainSp);
    if (__sanitizer_finish_switch_fiber) __sanitizer_finish_switch_fiber(fake, &e.mainStackBottom, &e.mainStackSize);
}

int startingProc = -1;

void procEntry() {
    Exec &e = *E;
    const int id = startingProc;
    if (__sanitizer_finish_switch_fiber) __sanitizer_finish_switch_fiber(nullptr, &e.mainStackBottom, &e.mainStackSize);
    try {
        e.sc->procs[id]();
    } catch (const std::exception &ex) {
        if (!e.violated) { e.violated = true; e.vmsg = std::string("uncaught exception in p") + std::to_string(id) + ": " + ex.what(); }
    } catch (...) {
        if (!e.violated) { e.violated = true; e.vmsg = "uncaught exception in p" + std::to_string(id); }
    }
    e.procs[id].finished = true;
    e.running = -1;
    // final switch: no fake stack save => ASan destroys this fiber's fake stack
    if (__sanitizer_start_switch_fiber) __sanitizer_start_switch_fiber(nullptr, e.mainStackBottom, e.mainStackSize);
    void *dead;
    vs_switch(&dead, e.mainSp);
    abort();   // never resumed
}

void resume(int id) {
    Exec &e = *E;
    Proc &p = e.procs[id];
    e.running = id;
    e.current = id;
    if (!p.started) {
        p.started = true;
        startingProc = id;
        // initial frame: 6 callee-saved registers, entry address, a null return address
        uintptr_t top = ((uintptr_t)p.stack + StackSize) & ~(uintptr_t)15;
        void **sp = (void **)top;
        *--sp = nullptr;                 // fake return address of procEntry (keeps rsp%16 == 8 at entry)
        *--sp = (void *)procEntry;
        for (int i = 0; i < 6; ++i) *--sp = nullptr;
        p.sp = sp;
    }
    if (__sanitizer_start_switch_fiber) __sanitizer_start_switch_fiber(&e.mainFake, p.stack, StackSize);
    vs_switch(&e.mainSp, p.sp);
    if (__sanitizer_finish_switch_fiber) __sanitizer_finish_switch_fiber(e.mainFake, nullptr, nullptr);
}

int choose(int arity, int altCost) {
    Exec &e = *E;
    size_t idx = e.points.size();
    int c = idx < e.prefix.size() ? e.prefix[idx] : 0;
    if (c >= arity) {
        fprintf(stderr, "vsched: replay divergence at point %zu: choice %d, arity %d\n", idx, c, arity);
        _exit(3);
    }
    e.points.push_back({arity, c, altCost});
    if (c) e.devs += altCost;
    return c;
}

std::unordered_set<uint64_t> *stateSet = nullptr;
std::unordered_map<uint64_t, int> *visited = nullptr;

uint64_t stateHash() {
    Exec &e = *E;
    std::string b;
    if (e.sc->stateBytes) e.sc->stateBytes(b);
    uint64_t h = hashBytes(b, 1469598103934665603ULL);
    for (auto &p : e.procs) {
        h = mix(h, p.rh);
        h = mix(h, (p.finished ? 1 : 0) | (p.started ? 2 : 0) | (p.waiting ? 4 : 0));
    }
    h = mix(h, e.spuriousUsed);
    return h;
}

// one execution; returns with e.points filled
void runOnce(const Scenario &sc, const std::vector<int> &prefix, int bound, bool tracing, Stats &st) {
    static Exec storage;
    storage = Exec();
    Exec &e = storage;
    E = &e;
    e.sc = &sc;
    e.prefix = prefix;
    e.bound = bound;
    e.tracing = tracing;
    size_t n = sc.procs.size();
    e.procs.resize(n);
    while (stackPool.size() < n) {
        char *s = (char *)mmap(nullptr, StackSize, PROT_READ | PROT_WRITE, MAP_PRIVATE | MAP_ANONYMOUS, -1, 0);
        if (s == MAP_FAILED) { perror("mmap stack"); _exit(3); }
        stackPool.push_back(s);
    }
    for (size_t i = 0; i < n; ++i) {
        e.procs[i].stack = stackPool[i];
        if (__asan_unpoison_memory_region) __asan_unpoison_memory_region(stackPool[i], StackSize);
    }
    if (sc.setup) sc.setup();
    if (sc.invariant && !e.violated) sc.invariant();
    while (!e.aborted && !e.violated) {
        std::vector<int> enabled;
        bool allDone = true;
        for (size_t i = 0; i < n; ++i) {
            Proc &p = e.procs[i];
            if (p.finished) continue;
            allDone = false;
            if (p.waiting) { if (!p.waitPred()) continue; }
            enabled.push_back((int)i);
        }
        if (allDone) break;
        if (enabled.empty()) {
            std::string who;
            for (size_t i = 0; i < n; ++i) if (!e.procs[i].finished) who += " p" + std::to_string(i);
            e.violated = true; e.vmsg = "deadlock: no enabled process; blocked:" + who;
            break;
        }
        // canonical order: the current process first if still enabled, then ascending ids
        bool curEnabled = false;
        for (int x : enabled) if (x == e.current) curEnabled = true;
        if (curEnabled) {
            std::vector<int> o; o.push_back(e.current);
            for (int x : enabled) if (x != e.current) o.push_back(x);
            enabled.swap(o);
        }
        int pick = 0;
        if (enabled.size() > 1) {
            if (sc.prune && visited && e.points.size() >= prefix.size()) {
                uint64_t k = mix(stateHash(), (uint64_t)(e.current + 1));
                // stores are not part of the read history: the per-process step counts tell apart two
                // positions of a process between which it only wrote values that were already there
                for (auto &p : e.procs) k = mix(k, p.steps);
                int rem = bound - e.devs;
                auto it = visited->find(k);
                if (it != visited->end() && it->second >= rem) { e.pruned = true; e.aborted = true; ++st.pruned; break; }
                (*visited)[k] = rem;
            }
            pick = choose((int)enabled.size(), curEnabled ? 1 : 0);
        }
        int next = enabled[pick];
        if (next != e.current && e.current >= 0) ++st.contextSwitches;
        e.procs[next].waiting = false;
        e.procs[next].waitPred = nullptr;
        resume(next);
        ++e.steps; ++e.procs[next].steps;
        if (e.violated || e.aborted) break;
        if (sc.invariant) sc.invariant();
        if (stateSet && sc.stateBytes) stateSet->insert(stateHash());
        if (e.steps > sc.stepBudget) {
            e.violated = true; e.vmsg = "livelock: step budget exceeded";
        }
    }
    if (!e.violated && !e.aborted && sc.final) sc.final();
    st.steps += e.steps;
    ++st.executions;
    if (sc.teardown) sc.teardown();
}

struct Dfs {
    const Scenario &sc; Stats &st; int bound; double deadline; bool stop = false;
    void go(const std::vector<int> &prefix) {
        if (stop) return;
        runOnce(sc, prefix, bound, false, st);
        Exec &e = *E;            // still valid: points copied below before the next run
        std::vector<Point> pts = e.points;
        st.points += pts.size();
        if (e.abandoned && !e.violated) {
            ++st.abandoned;
            bool seen = false;
            for (auto &x : st.abandonedSamples) if (x.first == e.abandonReason) seen = true;
            if (!seen && st.abandonedSamples.size() < 16) {
                std::vector<int> c;
                for (auto &p : pts) c.push_back(p.chosen);
                st.abandonedSamples.push_back({e.abandonReason, c});
            }
        }
        if (e.violated) {
            st.violated = true; st.violation = e.vmsg;
            st.schedule.clear();
            for (auto &p : pts) st.schedule.push_back(p.chosen);
            stop = true;
            return;
        }
        if (sc.maxExecutions && st.executions >= sc.maxExecutions) { st.capHit = true; stop = true; return; }
        if (deadline > 0 && (st.executions & 0xff) == 0 && (double)time(nullptr) > deadline) { st.capHit = true; stop = true; return; }
        std::vector<int> choices;
        for (auto &p : pts) choices.push_back(p.chosen);
        int cost = 0;
        for (size_t i = 0; i < prefix.size() && i < pts.size(); ++i) if (pts[i].chosen) cost += pts[i].altCost;
        for (size_t i = prefix.size(); i < pts.size() && !stop; ++i) {
            // cost of deviations strictly before i (all defaults between prefix end and i cost nothing)
            if (cost + pts[i].altCost > bound) continue;
            for (int alt = 1; alt < pts[i].arity && !stop; ++alt) {
                std::vector<int> np(choices.begin(), choices.begin() + i);
                np.push_back(alt);
                go(np);
            }
        }
    }
};

} // anonymous namespace

void violation(const std::string &msg) {
    Exec &e = *E;
    if (!e.violated) { e.violated = true; e.vmsg = msg; }
    if (e.running >= 0) switchToMain();   // never resumed
}
void abandon(const std::string &reason) {
    Exec &e = *E;
    if (!e.violated && !e.abandoned) { e.abandoned = true; e.aborted = true; e.abandonReason = reason; }
    if (e.running >= 0) switchToMain();   // never resumed
}
int self() { return E ? E->running : -1; }
void note(const std::string &ev) {
    if (E && E->tracing) E->trace += "  [" + std::to_string(E->steps) + "] p" + std::to_string(E->running) + ": " + ev + "\n";
}
void local(uint64_t v) { if (E && E->running >= 0) E->procs[E->running].rh = mix(E->procs[E->running].rh, v); }
uint64_t stepIndex() { return E ? E->steps : 0; }
uint64_t procSteps() { return (E && E->running >= 0) ? E->procs[E->running].steps : 0; }
void waitUntil(const std::function<bool()> &pred) {
    Exec &e = *E;
    if (e.running < 0) return;
    if (pred()) return;
    Proc &p = e.procs[e.running];
    p.waiting = true; p.waitPred = pred;
    switchToMain();
}
void yieldPoint() { if (E && E->running >= 0) switchToMain(); }

void explore(const Scenario &sc, Stats &st, double deadlineS) {
    std::unordered_set<uint64_t> states;
    stateSet = sc.stateBytes ? &states : nullptr;
    double dl = deadlineS > 0 ? (double)time(nullptr) + deadlineS : 0;
    for (int b = sc.startBound > 0 ? sc.startBound : 0; b <= sc.maxDeviations; ++b) {
        std::unordered_map<uint64_t, int> vis;
        visited = sc.prune ? &vis : nullptr;
        Dfs d{sc, st, b, dl};
        d.go({});
        if (st.violated) {
            // re-run twice with tracing; both must fail identically
            Stats t1, t2;
            bool v1 = replay(sc, st.schedule, t1);
            bool v2 = replay(sc, st.schedule, t2);
            if (!v1 || !v2 || t1.violation != t2.violation) {
                fprintf(stderr, "vsched: violation not reproducible on replay (%d %d): %s\n", v1, v2, st.violation.c_str());
                _exit(3);
            }
            st.trace = t1.trace;
            break;
        }
        if (d.stop) break;
        st.boundCompleted = b;
    }
    st.states = states.size();
    stateSet = nullptr; visited = nullptr;
}

bool replay(const Scenario &sc, const std::vector<int> &choices, Stats &st) {
    auto *ss = stateSet; auto *vv = visited;
    stateSet = nullptr; visited = nullptr;
    runOnce(sc, choices, 1 << 20, true, st);
    stateSet = ss; visited = vv;
    Exec &e = *E;
    st.violated = e.violated; st.violation = e.vmsg; st.trace = e.trace; st.schedule = choices;
    return e.violated;
}

std::string fmtSchedule(const std::vector<int> &c) {
    // trailing zeros are defaults; drop them
    size_t n = c.size();
    while (n && c[n - 1] == 0) --n;
    std::string s;
    for (size_t i = 0; i < n; ++i) { if (i) s += ","; s += std::to_string(c[i]); }
    return s;
}
std::vector<int> parseSchedule(const std::string &s) {
    std::vector<int> v;
    size_t p = 0;
    while (p < s.size()) { v.push_back(atoi(s.c_str() + p)); size_t q = s.find(',', p); if (q == std::string::npos) break; p = q + 1; }
    return v;
}

} // namespace VS

extern "C" {

void vsched_point(const volatile void *addr, int kind) {
    using namespace VS;
    if (!E || E->running < 0) return;       // main context (setup / invariants): not scheduled
    if (E->tracing) {
        static const char *k[] = {"load", "store", "rmw"};
        char b[96]; snprintf(b, sizeof b, "  [%llu] p%d: %s @%p\n", (unsigned long long)E->steps, E->running, k[kind], (void *)addr);
        E->trace += b;
    }
    switchToMain();
}

void vsched_after(const volatile void *addr) {
    using namespace VS;
    if (!E || E->running < 0 || !E->sc->pointAfterAtomics) return;
    if (E->tracing) {
        char b[96]; snprintf(b, sizeof b, "  [%llu] p%d: done @%p\n", (unsigned long long)E->steps, E->running, (void *)addr);
        E->trace += b;
    }
    switchToMain();
}

void vsched_read(unsigned long long v) {
    using namespace VS;
    if (!E || E->running < 0) return;
    E->procs[E->running].rh = mix(E->procs[E->running].rh, v);
}

int vsched_spurious(void) {
    using namespace VS;
    if (!E || E->running < 0 || !E->sc->spuriousCas || E->spuriousUsed) return 0;
    int c = choose(2, 1);
    if (c) E->spuriousUsed = true;
    return c;
}

}
