// vharness.h — common driver for E1 (sequential small-scope) harnesses.
//
// A harness is a function  void body(V::Ctx &)  that enumerates cases deterministically:
//
//     for (...) { if (!V::begin_case(desc)) continue;  ...run real code...;
//                 if (bad) V::fail("why");  V::outcome("class"); }
//
// The driver runs the body in a forked child.  Before every case the child stores the case
// descriptor in a shared page; if the child dies (ASan/UBSan report, assert, signal) the parent
// records "crash at <case>" as a violation and restarts the child, which skips everything up to
// and including the crashed case.  Sharding (--shard i/n), replay of one case (--replay-case
// <desc>) and the global deadline (--deadline-s) are handled in begin_case().
// At the end one JSON object is printed on stdout (consumed by vverif/seq.py).
#ifndef VHARNESS_H
#define VHARNESS_H

#include <string>
#include <vector>
#include <map>
#include <set>
#include <functional>
#include <cstdio>
#include <cstdlib>
#include <cstring>
#include <cstdint>
#include <ctime>
#include <unistd.h>
#include <sys/mman.h>
#include <sys/wait.h>

namespace V {

struct Ctx {
    std::string tier = "quick";
    int shard = 0, nshards = 1;
    std::string replayCase;       // when non-empty: run only the case with exactly this descriptor
    bool replay = false;
    double deadlineS = 0;         // 0 = none
    bool quick() const { return tier == "quick"; }
    bool thorough() const { return tier == "thorough"; }
};

struct Shared {                   // lives in a MAP_SHARED page set
    volatile uint64_t caseIndex;  // index of the case being run (1-based), all shards counted
    volatile uint64_t evaluations;
    volatile int inCase;
    volatile int done;
    volatile int deadlineHit;
    char desc[8192];
    // result stream written by the child (append-only), so results survive a crash
    volatile size_t outLen;
    char out[1];
};

static const size_t SharedSize = 64u << 20;

struct State {
    Ctx ctx;
    Shared *sh = nullptr;
    uint64_t index = 0;           // cases seen in this child so far
    uint64_t skipUpto = 0;        // skip cases with index <= skipUpto (after a crash)
    time_t start = 0;
    std::string cur;
    std::map<std::string, uint64_t> outcomes;
    std::map<std::string, uint64_t> counters;
    std::vector<std::string> samples;
    uint64_t nfail = 0;
    unsigned sampleEvery = 1;
    uint64_t sampled = 0;
};

inline State &S() { static State s; return s; }

inline std::string jsonEscape(const std::string &s) {
    std::string o;
    for (unsigned char c : s) {
        switch (c) {
        case '"': o += "\\\""; break;
        case '\\': o += "\\\\"; break;
        case '\n': o += "\\n"; break;
        case '\r': o += "\\r"; break;
        case '\t': o += "\\t"; break;
        default:
            if (c < 0x20 || c >= 0x7f) { char b[8]; snprintf(b, sizeof b, "\\u%04x", c); o += b; }
            else o += (char)c;
        }
    }
    return o;
}

// printable, reversible rendering of arbitrary bytes for case descriptors: \xHH for non-printables
inline std::string esc(const std::string &s) {
    std::string o;
    for (unsigned char c : s) {
        if (c == '\\') o += "\\\\";
        else if (c >= 0x20 && c < 0x7f) o += (char)c;
        else { char b[8]; snprintf(b, sizeof b, "\\x%02x", c); o += b; }
    }
    return o;
}
inline std::string unesc(const std::string &s) {
    std::string o;
    for (size_t i = 0; i < s.size(); ++i) {
        if (s[i] == '\\' && i + 1 < s.size()) {
            if (s[i+1] == '\\') { o += '\\'; ++i; }
            else if (s[i+1] == 'x' && i + 3 < s.size()) {
                o += (char)strtol(s.substr(i+2, 2).c_str(), nullptr, 16); i += 3;
            } else o += s[i];
        } else o += s[i];
    }
    return o;
}

inline void emit(const std::string &line) {   // append a result line to the crash-safe stream
    Shared *sh = S().sh;
    size_t n = line.size();
    if (sh->outLen + n + 1 >= SharedSize - sizeof(Shared)) return;
    memcpy(sh->out + sh->outLen, line.data(), n);
    sh->out[sh->outLen + n] = '\n';
    sh->outLen += n + 1;
}

// Returns true if the caller must run this case.
inline bool begin_case(const std::string &desc) {
    State &s = S();
    ++s.index;
    if (s.sh->deadlineHit) return false;
    if (s.ctx.replay) {
        if (desc != s.ctx.replayCase) return false;
    } else {
        // the deadline test must precede the shard filter: 0x400 is a multiple of the usual shard
        // count, so behind the filter only shard 0 would ever look at the clock
        if (s.ctx.deadlineS > 0 && (s.index & 0x3ff) == 0 &&
            difftime(time(nullptr), s.start) > s.ctx.deadlineS) { s.sh->deadlineHit = 1; return false; }
        if ((s.index % (uint64_t)s.ctx.nshards) != (uint64_t)s.ctx.shard) return false;
        if (s.index <= s.skipUpto) return false;
    }
    s.cur = desc;
    size_t n = desc.size() < sizeof(s.sh->desc) - 1 ? desc.size() : sizeof(s.sh->desc) - 1;
    memcpy(s.sh->desc, desc.data(), n);
    s.sh->desc[n] = 0;
    s.sh->caseIndex = s.index;
    s.sh->inCase = 1;
    ++s.sh->evaluations;
    // keep a few written-out samples, spread over the run
    // (emitted at once so that they survive a crash of this child)
    if (s.sampled < 6 && (s.sh->evaluations == 1 || (s.sh->evaluations % 9973) == 0)) {
        ++s.sampled;
        emit("S\t" + desc);
    }
    return true;
}

inline void end_case() { S().sh->inCase = 0; }

inline void fail(const std::string &msg) {
    State &s = S();
    ++s.nfail;
    if (s.nfail <= 200)
        emit("F\t" + s.cur + "\t" + msg);
}
// like fail() but with an explicit stable key used to match known findings
inline void failKey(const std::string &key, const std::string &msg) {
    State &s = S();
    ++s.nfail;
    if (s.nfail <= 200)
        emit("K\t" + key + "\t" + s.cur + "\t" + msg);
}
inline void outcome(const std::string &klass) { ++S().outcomes[klass]; }
inline void count(const std::string &name, uint64_t n = 1) { S().counters[name] += n; }
inline void setCount(const std::string &name, uint64_t n) { S().counters[name] = n; }
inline void sample(const std::string &s) { if (S().samples.size() < 12) S().samples.push_back(s); }

inline void flushChild() {
    State &s = S();
    for (auto &o : s.outcomes) emit("O\t" + o.first + "\t" + std::to_string(o.second));
    for (auto &c : s.counters) emit("C\t" + c.first + "\t" + std::to_string(c.second));
    for (auto &x : s.samples) emit("S\t" + x);
    emit("N\t" + std::to_string(s.nfail));
}

inline int run(int argc, char **argv, const std::function<void(Ctx &)> &body) {
    State &s = S();
    for (int i = 1; i < argc; ++i) {
        std::string a = argv[i];
        if (a == "--tier" && i + 1 < argc) s.ctx.tier = argv[++i];
        else if (a == "--shard" && i + 1 < argc) { sscanf(argv[++i], "%d/%d", &s.ctx.shard, &s.ctx.nshards); }
        else if (a == "--replay-case" && i + 1 < argc) { s.ctx.replay = true; s.ctx.replayCase = argv[++i]; }
        else if (a == "--deadline-s" && i + 1 < argc) s.ctx.deadlineS = atof(argv[++i]);
    }
    s.sh = (Shared *)mmap(nullptr, SharedSize, PROT_READ | PROT_WRITE, MAP_SHARED | MAP_ANONYMOUS, -1, 0);
    if (s.sh == MAP_FAILED) { perror("mmap"); return 2; }
    s.start = time(nullptr);
    uint64_t skip = 0;
    std::vector<std::string> crashes;
    int restarts = 0;
    for (;;) {
        fflush(stdout); fflush(stderr);
        pid_t pid = fork();
        if (pid < 0) { perror("fork"); return 2; }
        if (pid == 0) {
            s.skipUpto = skip;
            body(s.ctx);
            s.sh->inCase = 0;
            flushChild();
            s.sh->done = 1;
            fflush(stdout); fflush(stderr);
            _exit(0);
        }
        int st = 0;
        waitpid(pid, &st, 0);
        if (s.sh->done) break;
        // child died
        std::string where = s.sh->inCase ? std::string(s.sh->desc) : std::string("(outside a case, after: ") + s.sh->desc + ")";
        char b[64];
        if (WIFSIGNALED(st)) snprintf(b, sizeof b, "signal %d", WTERMSIG(st));
        else snprintf(b, sizeof b, "exit %d", WEXITSTATUS(st));
        crashes.push_back(where + "\t" + b);
        if (!s.sh->inCase || s.ctx.replay || ++restarts > 200) break;
        skip = s.sh->caseIndex;
        s.sh->inCase = 0;
    }
    // ---- JSON report
    std::string out(s.sh->out, s.sh->outLen);
    std::map<std::string, uint64_t> outcomes, counters;
    std::vector<std::string> samples;
    std::vector<std::vector<std::string>> fails;
    uint64_t nfail = 0;
    size_t pos = 0;
    while (pos < out.size()) {
        size_t e = out.find('\n', pos);
        if (e == std::string::npos) e = out.size();
        std::string line = out.substr(pos, e - pos);
        pos = e + 1;
        std::vector<std::string> f;
        size_t p = 0;
        for (;;) { size_t t = line.find('\t', p); if (t == std::string::npos) { f.push_back(line.substr(p)); break; } f.push_back(line.substr(p, t - p)); p = t + 1; }
        if (f[0] == "F" && f.size() >= 3) fails.push_back({"", f[1], f[2]});
        else if (f[0] == "K" && f.size() >= 4) fails.push_back({f[1], f[2], f[3]});
        else if (f[0] == "O" && f.size() >= 3) outcomes[f[1]] += strtoull(f[2].c_str(), nullptr, 10);
        else if (f[0] == "C" && f.size() >= 3) counters[f[1]] += strtoull(f[2].c_str(), nullptr, 10);
        else if (f[0] == "S" && f.size() >= 2) { if (samples.size() < 12) samples.push_back(f[1]); }
        else if (f[0] == "N" && f.size() >= 2) nfail += strtoull(f[1].c_str(), nullptr, 10);
    }
    // deadline_hit also covers "gave up after too many crashes": the space was not enumerated completely
    printf("{\"evaluations\": %llu, \"deadline_hit\": %s, \"nfail\": %llu,\n", (unsigned long long)s.sh->evaluations,
           (s.sh->deadlineHit || !s.sh->done) ? "true" : "false", (unsigned long long)(nfail > fails.size() ? nfail : fails.size()));
    printf(" \"outcomes\": {");
    bool first = true;
    for (auto &o : outcomes) { printf("%s\"%s\": %llu", first ? "" : ", ", jsonEscape(o.first).c_str(), (unsigned long long)o.second); first = false; }
    printf("},\n \"counters\": {");
    first = true;
    for (auto &o : counters) { printf("%s\"%s\": %llu", first ? "" : ", ", jsonEscape(o.first).c_str(), (unsigned long long)o.second); first = false; }
    printf("},\n \"samples\": [");
    first = true;
    for (auto &x : samples) { printf("%s\"%s\"", first ? "" : ", ", jsonEscape(x).c_str()); first = false; }
    printf("],\n \"failures\": [");
    first = true;
    for (auto &f : fails) {
        printf("%s{\"key\": \"%s\", \"case\": \"%s\", \"msg\": \"%s\"}", first ? "" : ",\n  ", jsonEscape(f[0]).c_str(), jsonEscape(f[1]).c_str(), jsonEscape(f[2]).c_str());
        first = false;
    }
    printf("],\n \"crashes\": [");
    first = true;
    for (auto &c : crashes) {
        size_t t = c.find('\t');
        printf("%s{\"case\": \"%s\", \"how\": \"%s\"}", first ? "" : ",\n  ", jsonEscape(c.substr(0, t)).c_str(), jsonEscape(c.substr(t + 1)).c_str());
        first = false;
    }
    printf("]}\n");
    return 0;
}

} // namespace V

#define VHARNESS_MAIN(body) int main(int argc, char **argv) { return V::run(argc, argv, body); }

#endif
