"""C60 ICAP adaptation delivers exactly the virgin or the adapted message — E3, fault enumeration.

The real (ASan) squid binary runs in lock-step between a driver-played client, a driver-played origin and a
driver-played ICAP server (lib/vverif/icap.py).  One instance carries 12 ICAP services ({REQMOD, RESPMOD} x
preview {off, 0, 4} x bypass {on, off}); the URL path of a case selects the service through adaptation_access.
A case = mode x virgin body size x preview x service behaviour (incl. every abort point) x bypass (x ICAP
connection fresh / reused, x framing of the adapted head).  Virgin body byte i = f(0,i), adapted byte i = f(1,i)
(period 251) and the heads carry X-Virgin / X-Adapted markers, so the observer (client for RESPMOD, origin for
REQMOD) can tell exactly which message, or which mix, it got.
"""
import glob
import os
import re

from vverif import httpref
from vverif import icap
from vverif import lockstep as ls
from vverif import lsx
from vverif.bodyrelay import describe_diff
from vverif.core import Result, Violation, HarnessError

LEVEL = 'fault_enumeration'

PREVIEWS = ('off', 0, 4)
MODES = ('resp', 'req')
BYPASS = ('on', 'off')
ADAPTED_EXTRA = 7            # the adapted body is 7 bytes longer than the virgin body (and uses the other pattern)


def svc(mode, pv, bp):
    return '%s-p%s-b%s' % (mode, pv, bp)


def squid_conf(icap_port):
    L = ['icap_enable on',
         'icap_service_failure_limit -1',
         'icap_persistent_connections on',
         'icap_preview_enable on',
         'icap_connect_timeout 10 seconds',
         'icap_io_timeout 30 seconds',
         'read_timeout 60 seconds',
         'cache deny all']
    for mode in MODES:
        for pv in PREVIEWS:
            for bp in BYPASS:
                s = svc(mode, pv, bp)
                name = 's_' + s.replace('-', '_')
                L.append('icap_service %s %s icap://127.0.0.1:%d/%s bypass=%s' % (
                    name, 'reqmod_precache' if mode == 'req' else 'respmod_precache', icap_port, s, bp))
                L.append('acl a_%s urlpath_regex ^/%s/' % (name, s))
                L.append('adaptation_access %s allow a_%s' % (name, name))
    return '\n'.join(L) + '\n'


def options_for(path):
    m = re.match(r'^/(req|resp)-p(off|\d+)-b(on|off)$', path)
    if not m:
        raise HarnessError('OPTIONS for unknown service path %r' % path)
    h = [('Methods', 'REQMOD' if m.group(1) == 'req' else 'RESPMOD'), ('Service', 'vverif'), ('Options-TTL', '864000'),
         ('Allow', '204')]
    if m.group(2) != 'off':
        h += [('Preview', m.group(2)), ('Transfer-Preview', '*')]
    return h


# ------------------------------------------------------------------ behaviours of the ICAP service

# name -> (kind, when, extras); 'fault' = the ICAP transaction fails; 'used' = adapted content may already be in use
BEHAVIOURS = {
    '204-late':             dict(kind='204', when='late'),                       # 204 outside the preview (after 100 Continue)
    '204-early':            dict(kind='204', when='early'),                      # 204 inside the preview / before the body was read
    '200-body':             dict(kind='200', when='late', body=True),            # 100 Continue, then 200 with an adapted body
    '200-body-early':       dict(kind='200', when='early', body=True),           # 200 with an adapted body right after the preview
    '200-body-te':          dict(kind='200', when='late', body=True, fr='te'),   # adapted head without Content-Length
    '200-head':             dict(kind='200', when='early', body=False),          # 200 with an adapted head only (null-body)
    '200-head-late':        dict(kind='200', when='late', body=False),
    '200-cut-before-head':  dict(kind='200', when='late', body=True, cut='before-head', fault=True),
    '200-cut-mid-head':     dict(kind='200', when='late', body=True, cut='mid-head', fault=True),
    '200-cut-mid-body':     dict(kind='200', when='late', body=True, cut='mid-body', fault=True, used=True),
    '200-cut-before-last':  dict(kind='200', when='late', body=True, cut='before-last', fault=True, used=True),
    '200-cut-mid-body-te':  dict(kind='200', when='late', body=True, cut='mid-body', fr='te', fault=True, used=True),
    '200-cut-before-last-te': dict(kind='200', when='late', body=True, cut='before-last', fr='te', fault=True, used=True),
    'status-500-early':     dict(kind='status', when='early', code=500, reason='Server Error', fault=True),
    'status-500-late':      dict(kind='status', when='late', code=500, reason='Server Error', fault=True),
    'status-404-early':     dict(kind='status', when='early', code=404, reason='ICAP Service Not Found', fault=True),
    'close-early':          dict(kind='close', when='early', fault=True),
    'close-late':           dict(kind='close', when='late', fault=True),
    'garbage-early':        dict(kind='garbage', when='early', fault=True),
    'satisfy':              dict(kind='200', when='late', body=True, satisfy=True),  # REQMOD only: the service answers the request itself
}
THOROUGH_ONLY_BEHAVIOURS = {
    '200-cut-mid-body-rst': dict(kind='200', when='late', body=True, cut='mid-body', cut_how='rst', fault=True, used=True),
    '200-cut-mid-head-early': dict(kind='200', when='early', body=True, cut='mid-head', fault=True),
    '200-cut-before-last-early': dict(kind='200', when='early', body=True, cut='before-last', fault=True, used=True),
    'garbage-late-close':   dict(kind='garbage', when='late', then='close', fault=True),
    'status-100-twice':     dict(kind='status', when='late', code=100, reason='Continue', fault=True),  # a second, unexpected 100
}
GARBAGE = b'\x16\x03\x01\x00\xa5 this is not ICAP\r\n\r\n'


def beh_spec(name):
    return BEHAVIOURS.get(name) or THOROUGH_ONLY_BEHAVIOURS[name]


def sizes_for(ctx):
    pv = 4
    base = [0, 1, pv - 1, pv, pv + 1, 16 * 1024 + 1]
    return base if ctx.quick else base + [4096, BACKUP_LIMIT - 1, BACKUP_LIMIT, BACKUP_LIMIT + 1, 200000]


def all_cases(ctx):
    cases = []
    T = not ctx.quick
    names = list(BEHAVIOURS) + (list(THOROUGH_ONLY_BEHAVIOURS) if T else [])
    for pconn in (('fresh', 'reused') if T else ('fresh',)):
        for mode in MODES:
            for size in sizes_for(ctx):
                for pv in PREVIEWS:
                    for beh in names:
                        if beh == 'satisfy' and mode != 'req':
                            continue
                        for bp in BYPASS:
                            cases.append({'n': 1000 + len(cases), 'mode': mode, 'size': size, 'pv': pv, 'beh': beh,
                                          'bypass': bp, 'pconn': pconn})
    if not T:
        # quick: the reused-connection dimension for the behaviours where a pconn race matters, two sizes
        for mode in MODES:
            for size in (1, 5):
                for pv in PREVIEWS:
                    for beh in ('204-late', '200-body', 'close-early', 'close-late', '200-cut-before-head', 'status-500-early'):
                        for bp in BYPASS:
                            cases.append({'n': 1000 + len(cases), 'mode': mode, 'size': size, 'pv': pv, 'beh': beh,
                                          'bypass': bp, 'pconn': 'reused'})
    return cases


def describe(c):
    return '%smod size=%d preview=%s %s bypass=%s pconn=%s' % (c['mode'], c['size'], c['pv'], c['beh'], c['bypass'], c['pconn'])


def family(beh):
    if beh.startswith('204'):
        return '204'
    if beh.startswith('200-cut-before-head') or beh.startswith('200-cut-mid-head'):
        return '200-aborted-in-head'
    if beh.startswith('200-cut'):
        return '200-aborted-in-body'
    if beh.startswith('200') or beh == 'satisfy':
        return '200'
    if beh.startswith('status'):
        return 'icap-error-status'
    return beh.split('-')[0]          # close | garbage


def key_of(c, got='?'):
    # identity of a finding: mode + family of service behaviour + bypass + virgin body or not + what the observer got
    # ("bad" = a mix / corrupted / silently truncated message); size, preview and connection reuse are description
    return '%smod:%s:bypass-%s:%s:got-%s' % (c['mode'], family(c['beh']), c['bypass'],
                                             'nobody' if c['size'] == 0 else 'body', got)


# ------------------------------------------------------------------ the world

BACKUP_LIMIT = 64 * 1024      # BodyPipe::MaxCapacity: Squid can bypass / echo only what it still holds


class IWorld(lsx.RetryWorld):
    """World + ICAP server + back-pressure-safe senders (a 64 KB message does not fit one non-blocking send)."""

    def __init__(self, ctx, name, port_base):
        self.icap_port = port_base + 2
        super().__init__(ctx, name, port_base, conf=squid_conf(self.icap_port))
        self.icap = icap.IcapServer(self.icap_port, lambda: self.sq.now_us, options_for)
        self.outq = []          # [conn, pending bytes]

    def queue(self, conn, data):
        self.outq.append([conn, data])
        self._flush()

    def _flush(self):
        moved = False
        for q in self.outq:
            conn, data = q
            if conn.closed or conn.reset:
                q[1] = b''
                continue
            n = conn.send(data)
            if n:
                q[1] = data[n:]
                moved = True
        self.outq = [q for q in self.outq if q[1]]
        return moved

    def _origin_step(self, responder, ex):
        p = super()._origin_step(responder, ex)
        q = self.icap.step()
        r = self._flush()
        return p or q or r

    def origin_conn_of(self, m):
        for oc in self.oconns:
            if oc.requests and oc.requests[-1] is m:
                return oc.c
        raise HarnessError('origin connection of a request not found')

    def stop(self):
        try:
            super().stop()
        finally:
            self.icap.close()


def make_world(ctx, shard):
    return IWorld(ctx, 'w%d' % shard, ls.port_base_for_check(ctx.pid, shard))


# ------------------------------------------------------------------ messages

def virgin_body(size):
    return httpref.body_pattern(0, size)


def adapted_body(size, spec):
    if not spec.get('body'):
        return b''
    return httpref.body_pattern(1, size + ADAPTED_EXTRA)


def client_request(w, mode, path, n, size):
    url = w.url(path)
    if mode == 'resp':
        return ('GET %s HTTP/1.1\r\nHost: %s\r\nX-Case: %d\r\n\r\n' % (url, w.hostport(), n)).encode('latin1')
    vb = virgin_body(size)
    return ('POST %s HTTP/1.1\r\nHost: %s\r\nX-Virgin: %d\r\nContent-Type: application/octet-stream\r\nContent-Length: %d\r\n\r\n' % (
        url, w.hostport(), n, len(vb))).encode('latin1') + vb


def origin_response(w, mode, n, size):
    date = ls.http_date(w.sq.now_us)
    if mode == 'resp':
        vb = virgin_body(size)
        return ('HTTP/1.1 200 OK\r\nDate: %s\r\nContent-Type: application/octet-stream\r\nX-Virgin: %d\r\nContent-Length: %d\r\n'
                'Cache-Control: no-store\r\n\r\n' % (date, n, len(vb))).encode('latin1') + vb
    body = b'origin-reply-%d' % n
    return ('HTTP/1.1 200 OK\r\nDate: %s\r\nX-Origin: %d\r\nContent-Length: %d\r\nCache-Control: no-store\r\n\r\n' % (
        date, n, len(body))).encode('latin1') + body


def adapted_head(w, mode, n, size, spec, req):
    """The adapted HTTP head the ICAP service returns (built from the case, not from Squid's bytes, except the
    request target, which is copied from the encapsulated request line)."""
    ab = adapted_body(size, spec)
    cl = '' if spec.get('fr') == 'te' else 'Content-Length: %d\r\n' % len(ab)
    date = ls.http_date(w.sq.now_us)
    if mode == 'resp' or spec.get('satisfy'):
        if spec.get('body'):
            return ('HTTP/1.1 200 OK\r\nDate: %s\r\nContent-Type: application/octet-stream\r\nX-Adapted: %d\r\n%s'
                    'Cache-Control: no-store\r\n\r\n' % (date, n, cl)).encode('latin1')
        return ('HTTP/1.1 403 Forbidden\r\nDate: %s\r\nX-Adapted: %d\r\nContent-Length: 0\r\nCache-Control: no-store\r\n\r\n' % (
            date, n)).encode('latin1')
    target = req.http_start('req').split(b' ')[1].decode('latin1')
    if spec.get('body'):
        return ('POST %s HTTP/1.1\r\nHost: %s\r\nX-Adapted: %d\r\nContent-Type: application/octet-stream\r\n%s\r\n' % (
            target, w.hostport(), n, cl)).encode('latin1')
    return ('GET %s HTTP/1.1\r\nHost: %s\r\nX-Adapted: %d\r\n\r\n' % (target, w.hostport(), n)).encode('latin1')


def make_policy(w, mode, n, size, spec, tag, log):
    """The behaviour of the ICAP service for the transaction whose URL ends in `tag`."""
    def policy(req):
        start = req.http_start('req')
        if tag.encode() not in start:
            raise HarnessError('ICAP request for an unexpected URL: %r (expected %s)' % (start[:120], tag))
        b = {'kind': spec['kind'], 'when': spec['when']}
        if spec['kind'] == '204' and '204' not in req.allow and (req.preview is None or spec['when'] == 'late'):
            # Squid did not offer "Allow: 204" (it cannot keep the whole virgin body): a 204 is legal inside the preview
            # only, so a conforming service sends the unmodified message back in a 200 instead
            sec = 'res' if mode == 'resp' else 'req'
            log.append('echo-200')
            return {'kind': '200', 'when': 'late', 'section': sec, 'http_head': req.sections[sec + '-hdr'], 'echo': True,
                    'http_body': None if req.body_kind == 'null-body' else b'', 'cut': None}
        if spec['kind'] == '200':
            b['section'] = 'res' if (mode == 'resp' or spec.get('satisfy')) else 'req'
            b['http_head'] = adapted_head(w, mode, n, size, spec, req)
            b['http_body'] = adapted_body(size, spec) if spec.get('body') else None
            b['cut'] = spec.get('cut')
            b['cut_how'] = spec.get('cut_how', 'fin')
            ab = b['http_body']
            if ab and len(ab) > 16:
                b['chunks'] = [5, len(ab) // 2]        # three data chunks
        elif spec['kind'] == 'status':
            b['code'], b['reason'] = spec['code'], spec['reason']
        elif spec['kind'] == 'garbage':
            b['bytes'] = GARBAGE
            b['then'] = spec.get('then', 'open')
        return b
    return policy


# ------------------------------------------------------------------ oracle

def classify(m, raw, eof, n, vb, ab, adapted_status, virgin_status, squid_error_ok):
    """Which message is this?  m: httpref.Msg parsed from `raw` (a response at the client, or a request at the origin).
    -> (class, problem-or-None); class in virgin | adapted | error | trunc-virgin | trunc-adapted | none | hang-* | bad."""
    if not raw:
        return ('none' if eof else 'hang-nothing'), None
    if m.error:
        return 'bad', 'not a well-formed HTTP/1.1 message: %s; starts %r' % (m.error, raw[:100])
    if not m.head_complete:
        both = (b'X-Virgin' in raw) and (b'X-Adapted' in raw)
        if both:
            return 'bad', 'partial head carrying both markers: %r' % raw[:200]
        return ('trunc-head' if eof else 'hang-head'), None
    hv, ha = m.get('x-virgin'), m.get('x-adapted')
    if hv is not None and ha is not None:
        return 'bad', 'head carries both the virgin and the adapted marker (X-Virgin: %s, X-Adapted: %s)' % (hv, ha)
    if hv is None and ha is None:
        if m.kind == 'response' and squid_error_ok and m.has('x-squid-error') and m.status >= 400:
            if not m.complete:
                return 'bad', 'Squid error reply is itself incomplete'
            for name, b in (('virgin', vb), ('adapted', ab)):
                if len(b) >= 8 and b[:8] in m.body:
                    return 'bad', 'Squid error reply contains %s body bytes' % name
            return 'error', None
        return 'bad', 'message carries neither marker and is not a Squid error reply: %r' % raw[:160]
    which, want, mark = ('virgin', vb, hv) if hv is not None else ('adapted', ab, ha)
    if mark != str(n):
        return 'bad', '%s marker %r belongs to another transaction (this is %d)' % (which, mark, n)
    if m.kind == 'response':
        want_status = virgin_status if which == 'virgin' else adapted_status
        if m.status != want_status:
            return 'bad', '%s head with status %d (expected %d)' % (which, m.status, want_status)
    if m.get_all('transfer-encoding') and m.get_all('content-length'):
        return 'bad', 'both Transfer-Encoding and Content-Length'
    if m.complete:
        if m.consumed != len(raw):
            return 'bad', '%d bytes after the end of the %s message: %r' % (len(raw) - m.consumed, which, raw[m.consumed:m.consumed + 40])
        if m.body == want:
            return which, None
        other = ab if which == 'virgin' else vb
        if m.body == other and other != want:
            return 'bad', 'MIX: %s head with the complete %s body' % (which, 'adapted' if which == 'virgin' else 'virgin')
        return 'bad', 'complete-looking %s message with a wrong body (%s framing): %s' % (which, m.framing, describe_diff(m.body, want))
    # incomplete
    if want[:len(m.body)] != m.body:
        return 'bad', 'MIX/corruption: partial body under a %s head is not a prefix of the %s body: %s' % (
            which, which, describe_diff(m.body, want[:len(m.body)]))
    if not eof:
        return 'hang-' + which, None
    return 'trunc-' + which, None


def allowed_classes(bypass, size, spec):
    if spec['kind'] == '204':
        return {'virgin'}
    if not spec.get('fault'):
        return {'satisfied'} if spec.get('satisfy') else {'adapted'}
    can_bypass = bypass == 'on'
    if spec.get('used'):
        # the failure comes after adapted content went downstream: an error or a visibly truncated adapted message;
        # the virgin message only if bypass is on (and Squid had not used the adapted content after all); when only
        # the ICAP last-chunk is missing the observer may hold the adapted message with its body intact
        return ({'error', 'trunc-adapted'} | ({'virgin'} if can_bypass else set())
                | ({'adapted'} if spec.get('cut') == 'before-last' else set()))
    if not can_bypass:
        return {'error'}
    # optional service, nothing adapted was used: the virgin message.  A virgin body of 64 KB or more cannot be kept
    # (BodyPipe capacity, documented: "not all ICAP errors can be bypassed"), there an error is acceptable as well
    return {'virgin'} if size < BACKUP_LIMIT else {'virgin', 'error'}


# ------------------------------------------------------------------ one transaction, one case

class Obs:
    pass


def transact(w, mode, sv, n, size, spec, tag):
    """One client transaction through service `sv` whose ICAP side behaves as `spec`; returns what every party saw."""
    o = Obs()
    o.log = []
    first_xact = len(w.icap.xacts)
    w.icap.policy = make_policy(w, mode, n, size, spec, tag, o.log)
    method = 'GET' if mode == 'resp' else 'POST'
    req = client_request(w, mode, '/%s/%s' % (sv, tag), n, size)

    def responder(m):
        w.queue(w.origin_conn_of(m), origin_response(w, mode, n, size))
        return None
    cl = w.sq.client()
    w.queue(cl, req)
    steps = 80 + size // 2048
    ex = w.fetch(b'', responder, method=method, client=cl, max_steps=steps, keep_client=True)
    m = httpref.parse_response(cl.inbuf, method, eof=cl.eof)
    o.waited = 0
    if not cl.eof and not (m.complete and not m.error):
        # neither a complete response nor a close: give the timeouts a chance before calling it a hang
        while o.waited < 150:
            w.sq.advance(5000)
            w._origin_step(responder, ex)
            o.waited += 5
            cl.pump()
            mm = httpref.parse_response(cl.inbuf, method, eof=cl.eof)
            if cl.eof or (mm.complete and not mm.error):
                break
        for _ in range(4):
            w.sq.settle()
            w._origin_step(responder, ex)
            cl.pump()
    o.method = method
    o.client_raw = cl.inbuf
    o.client_eof = cl.eof
    cl.close()
    w.sq.settle(1)
    w._origin_step(None, ex)
    # what the origin saw (complete requests and a possible truncated tail), before the connections are closed
    o.origin_msgs = []
    for oc in w.oconns:
        off = 0
        for r in oc.requests:
            o.origin_msgs.append((r, oc.raw[off:off + r.consumed], True))
            off += r.consumed
        tail = oc.raw[oc.parsed_upto:]
        if tail:
            o.origin_msgs.append((httpref.parse_request(tail), tail, oc.c.eof or oc.c.closed))
    o.origin_raw = ex.origin_raw
    w.outq = []
    w.close_origin_conns()
    o.icap_tr = w.icap.transcript(first_xact)
    o.icap_all = '; '.join('%s %s %s' % (x['method'], x['path'], '|'.join(x['events'])) for x in w.icap.xacts[first_xact:])
    o.xacts = [x for x in w.icap.xacts[first_xact:] if x['method'] != 'OPTIONS']
    o.events = [e for x in o.xacts for e in x['events']]
    o.icap_problems = list(w.icap.problems)
    return o


def judge(mode, n, size, spec, o, echo):
    """-> (class, problem, detail): what the observer (client for RESPMOD, origin for REQMOD) received."""
    vb = virgin_body(size)
    ab = adapted_body(size, spec)
    cm = httpref.parse_response(o.client_raw, o.method, eof=o.client_eof)
    adapted_status = 200 if spec.get('body') else 403
    if mode == 'resp':
        cls, prob = classify(cm, o.client_raw, o.client_eof, n, vb, ab, adapted_status, 200, True)
        return cls, prob, 'client: ' + cls
    # REQMOD: the origin is the observer of the adapted/virgin request; the client sees the origin's reply,
    # a Squid error, or (request satisfaction) the adapted response
    ocls = []
    prob = None
    for r, raw, closed in o.origin_msgs:
        k, p = classify(r, raw, closed, n, vb, ab, 0, 0, False)
        ocls.append(k)
        prob = prob or p
    if cm.head_complete and not cm.error and cm.has('x-origin'):
        ccls, cprob = ('origin-reply', None)
        if cm.get('x-origin') != str(n) or not cm.complete or cm.body != b'origin-reply-%d' % n:
            cprob = 'client got a wrong origin reply: %r' % o.client_raw[:200]
    else:
        ccls, cprob = classify(cm, o.client_raw, o.client_eof, n, b'', ab if spec.get('satisfy') else b'', 200, 200, True)
    prob = prob or cprob
    uniq = sorted(set(ocls))
    if not ocls:
        cls = 'satisfied' if ccls == 'adapted' else ('error' if ccls in ('error', 'none') else 'client-' + ccls)
    elif uniq == ['virgin'] or uniq == ['adapted']:
        cls = uniq[0]
        if len(ocls) > 1:
            cls += '-x%d' % len(ocls)
        if ccls not in ('origin-reply', 'error'):
            prob = prob or 'origin received the %s request but the client got %s' % (uniq[0], ccls)
    elif all(k in ('trunc-adapted', 'trunc-head') for k in uniq):
        cls = 'trunc-adapted' if ccls in ('error', 'none') else 'trunc-adapted/client-' + ccls
    elif all(k in ('trunc-virgin', 'trunc-head') for k in uniq):
        cls = 'trunc-virgin'
    else:
        cls = 'origin-' + '+'.join(uniq)
    return cls, prob, 'origin: %s; client: %s' % (ocls or 'nothing', ccls)


PRIME = dict(kind='204', when='late')


def run_case(w, c):
    spec = beh_spec(c['beh'])
    n = c['n']
    sv = svc(c['mode'], c['pv'], c['bypass'])
    w.icap.begin_case()
    notes = []
    violation = None
    tr = ''
    if c['pconn'] == 'reused':
        # a 204 transaction on the same service leaves an idle persistent ICAP connection behind
        po = transact(w, c['mode'], sv, n, 1, PRIME, 'prime%d' % n)
        pcls, pprob, pdetail = judge(c['mode'], n, 1, PRIME, po, False)
        tr = 'PRIME O:%r\nC:%r eof=%s\n%s\n' % (po.origin_raw[:600], po.client_raw[:600], po.client_eof, po.icap_tr)
        if pprob or pcls != 'virgin':
            violation = '[%s] %s: the priming 204 transaction (1-byte body) gave "%s" %s [%s]' % (
                key_of(dict(c, beh='204-late', size=1), 'bad' if pprob else pcls), describe(c), pcls, pprob or '', pdetail)
        idle = len(w.icap.open_conns())
        if idle < 1 and not violation:
            raise HarnessError('no idle ICAP connection after the priming transaction (%s): %s' % (describe(c), po.icap_all))
        notes.append('primed(idle=%d)' % idle)
    o = transact(w, c['mode'], sv, n, c['size'], spec, 'c%d' % n)
    w.icap.close_all()
    w.sq.settle(2)
    echo = 'echo-200' in o.log
    cls, prob, detail = judge(c['mode'], n, c['size'], spec, o, echo)
    allowed = allowed_classes(c['bypass'], c['size'], spec)
    if not violation:
        if prob:
            violation = prob
        elif re.sub(r'-x\d+$', '', cls) not in allowed:
            violation = 'observer received "%s" but the ICAP service behaviour "%s" with bypass=%s allows only %s' % (
                cls, c['beh'], c['bypass'], sorted(allowed))
        if violation:
            got = 'bad' if prob else re.sub(r'-x\d+$', '', cls)
            violation = '[%s] %s: %s [%s]' % (key_of(c, got), describe(c), violation, detail)
    # vacuity / sanity data about the ICAP side
    if not o.xacts:
        raise HarnessError('no ICAP transaction was started for %s (adaptation_access did not match?)' % describe(c))
    did = o.events
    if not violation and ((spec['kind'] == '204' and not echo and '204' not in did)
                          or (spec['kind'] == 'status' and not any(e.startswith('status-') for e in did))):
        raise HarnessError('the ICAP service never got to its scripted answer in %s: %s' % (describe(c), o.icap_all))
    previewed = any(x['req'] is not None and x['req'].preview is not None for x in o.xacts)
    ieof = any(x['req'] is not None and x['req'].ieof for x in o.xacts)
    flags = (('P' if previewed else '') + ('I' if ieof else '') + ('C' if '100-continue' in did else '')
             + ('R' if len(o.xacts) > 1 else '') + ('E' if echo else ''))
    outcome = '%s:%s[%s]->%s' % (c['mode'], c['beh'], flags, cls)
    if o.waited:
        notes.append('waited %ds' % o.waited)
    big = c['size'] > 4096
    transcript = 'CASE %s\n%sO:%r\nC:%r eof=%s\n%s\nnotes=%s' % (
        describe(c), tr, (o.origin_raw[:700] + b'...%d' % len(o.origin_raw)) if big else o.origin_raw,
        (o.client_raw[:700] + b'...%d' % len(o.client_raw)) if big else o.client_raw, o.client_eof, o.icap_tr, notes)
    info = {'cls': cls, 'icap_problems': o.icap_problems, 'flags': flags, 'icap_xacts': len(o.xacts), 'waited': o.waited}
    return {'outcome': outcome, 'violation': violation, 'transcript': transcript, 'info': info}


ASSUME = ['the real squid binary (ASan build of the current tree) runs under the lock-step/virtual-time shim; client, origin and the ICAP '
          'server are played by the driver; strict driver-side HTTP and ICAP codecs are trusted',
          'one instance per shard carries 12 ICAP services (mode x preview x bypass) selected by the URL path; every case starts without idle '
          'ICAP connections (pconn=fresh) or right after one priming 204 transaction on the same service (pconn=reused)',
          'icap_service_failure_limit -1 (a failing service is never suspended), OPTIONS answered with Options-TTL 10 days; virgin bodies carry '
          'Content-Length; "bypass must yield the virgin message" is demanded for virgin bodies below 64 KB (BodyPipe capacity, what Squid can '
          'keep); at or above 64 KB a failing optional service may also end in an error',
          'a failure of an essential service (bypass=off) must not let the virgin message through: the statement lists the origin message only '
          'after a 204 or a bypassed failure']
RULE = ('product of mode {REQMOD, RESPMOD} x virgin body size x preview {off, 0, 4} x ICAP service behaviour (204 in/outside preview, 200 with '
        'adapted body/head, 200 aborted at 4 points, ICAP 4xx/5xx, close, garbage, request satisfaction; early/late; adapted head with/without '
        'Content-Length) x bypass {on, off} x ICAP connection {fresh, reused}; non-trivial = cases in which an ICAP REQMOD/RESPMOD transaction '
        'ran to its scripted answer and the observer received a classifiable message (virgin / adapted / error / truncated)')


def build(ctx):
    """lockstep.build_squid plus a forced relink when a convenience library is newer than the binary: automake
    leaves libraries named through $(VARIABLES) in squid_LDADD (e.g. $(ADAPTATION_LIBS)) out of squid_DEPENDENCIES,
    so after a change below src/adaptation/ `make all` rebuilds libadaptation.la but not src/squid."""
    exe = ls.build_squid(ctx)
    libs = glob.glob(os.path.join(ctx.tree, 'src', '*', '.libs', '*.a')) + glob.glob(os.path.join(ctx.tree, 'src', '*', '*', '.libs', '*.a'))
    newer = [l for l in libs if os.path.getmtime(l) > os.path.getmtime(exe)]
    if newer:
        ctx.vbuild('src:-W main.o squid')          # -W: treat main.o as new => relink, nothing is touched
        stale = [l for l in newer if os.path.getmtime(l) > os.path.getmtime(exe)]
        if stale:
            raise HarnessError('squid binary is older than %s even after a forced relink' % stale[:3])
    return exe


_TRANSCRIPTS = {}
_SEEN = {}          # per shard process: violation key -> case numbers, in order of first appearance
PER_KEY = 2         # cases per key and shard that go through confirmation replays and are reported individually


def vkey(what):
    m = re.match(r'^\[([^\]]+)\] ', what or '')
    return m.group(1) if m else None


def run_case_dedup(w, c):
    """run_case, except that from the third case on with the same violation key (per shard) the case is only
    counted (outcome "more-of:<key>"), so that one root cause does not eat the engine's per-shard violation budget."""
    r = run_case(w, c)
    prev = _TRANSCRIPTS.get(c['n'])
    if prev is not None and prev != r['transcript'] and len(_TRANSCRIPTS) < 400:
        # debugging aid for the engine's determinism obligation: keep both transcripts
        import os
        with open(os.path.join(w.sq.ctx.rundir, 'nondet-%d.txt' % c['n']), 'w') as f:
            f.write(prev + '\n=====\n' + r['transcript'] + '\n')
    if len(_TRANSCRIPTS) < 400:
        _TRANSCRIPTS[c['n']] = r['transcript']
    if r['violation']:
        k = vkey(r['violation'])
        s = _SEEN.setdefault(k, [])
        if c['n'] not in s:
            s.append(c['n'])
        if s.index(c['n']) >= PER_KEY:
            r = dict(r, violation=None, outcome='more-of:' + k)
    return r


def run(ctx):
    build(ctx)
    cases = all_cases(ctx)
    r = ls.run_cases(ctx, cases, run_case_dedup, make_world, key_of=describe, determinism_n=8)
    oc = r['outcomes']
    more = {}
    for k in list(oc):
        if k.startswith('more-of:'):
            more[k[8:]] = oc[k]
    by_cls, by_flag = {}, {}
    for k, v in oc.items():
        cls = k.rsplit(':got-', 1)[-1] if k.startswith('more-of:') else k.split('->')[-1]
        by_cls[cls] = by_cls.get(cls, 0) + v
        fm = re.search(r'\[([A-Z]*)\]->', k)
        for f in (fm.group(1) if fm else ''):
            by_flag[f] = by_flag.get(f, 0) + v
    nontrivial = sum(v for k, v in by_cls.items() if k.split('-x')[0] in ('virgin', 'adapted', 'error', 'trunc-adapted', 'satisfied'))
    n_bad = sum(1 for _d, what, c in r['violations']) + sum(more.values())
    if not r['deadline_hit'] and n_bad * 4 < max(1, r['evaluations']):
        # vacuity guards (skipped when a quarter of the space violates: then the violations are the message)
        for need in ('virgin', 'adapted', 'error', 'trunc-adapted', 'satisfied'):
            if by_cls.get(need, 0) < 10:
                raise HarnessError('vacuity guard: only %d cases ended as %r: %r' % (by_cls.get(need, 0), need, by_cls))
        for f, meaning in (('P', 'a preview was sent'), ('I', 'the preview carried ieof'), ('C', 'the service said 100 Continue'),
                           ('R', 'Squid retried on a second ICAP connection')):
            if by_flag.get(f, 0) < 10:
                raise HarnessError('vacuity guard: only %d cases in which %s: %r' % (by_flag.get(f, 0), meaning, by_flag))
    seen = {}
    vio = []
    for _d, what, c in r['violations']:
        k = vkey(what) or key_of(c)
        seen[k] = seen.get(k, 0) + 1
        if seen[k] == 1:
            vio.append(Violation(k, what, {'case': c}))
    for v in vio:
        extra = seen[v.key] - 1 + more.get(v.key, 0)
        if extra:
            v.what += ' (+%d more cases with this key)' % extra
    n_violating = sum(seen.values()) + sum(more.values())
    obs = ['squid problem during %s: %s' % (k, what[:300]) for k, what, c in r['crashes']]
    vio += [Violation('crash:' + k, 'squid crashed/asserted during case %s: %s' % (k, what), {'case': c}) for k, what, c in r['crashes']]
    samples = [{'case': describe(s['case']), 'outcome': s['outcome']} for s in r['samples']]
    cov = {'evaluations': r['evaluations'], 'distinct_nontrivial': nontrivial, 'rule': RULE, 'samples': samples,
           'outcome_classes': oc, 'observer_classes': by_cls, 'icap_flags': by_flag, 'exhaustive': not r['deadline_hit'] and r['evaluations'] == len(cases),
           'kicks': r['kicks'], 'determinism_replays': r['replays'], 'cases_total': len(cases),
           'violating_cases': n_violating, 'sizes': sizes_for(ctx), 'behaviours': len(BEHAVIOURS) + (0 if ctx.quick else len(THOROUGH_ONLY_BEHAVIOURS))}
    return Result(LEVEL, cov, vio, ASSUME, obs)


def replay(ctx, data):
    build(ctx)
    w = make_world(ctx, 0)
    w.start()
    try:
        r = run_case(w, data['case'])
        print(r['transcript'])
        print('outcome:', r['outcome'], r['info'])
    finally:
        w.stop()
    v = [Violation(vkey(r['violation']), r['violation'], data)] if r['violation'] else []
    return Result(LEVEL, {}, v, ASSUME)
