"""C14 Conditional requests are answered according to their validators — E3, bounded input product.

Part A: representation {strong ETag, weak ETag, none} x Last-Modified {none, T0} x If-None-Match x
If-Modified-Since x If-Match x state {cached and fresh, uncached}.  Part B: the cached entry is stale,
the origin (a reference server played by the driver) either still has the same representation with
changed end-to-end headers (it answers 304 to matching validators) or a new one (200), the client sends
one of several conditionals, and a follow-up unconditional GET looks at what later hits carry.
Oracle: an independent RFC 9110 section 13 evaluator applied to the representation that would otherwise
be sent; see evaluate()/allowed_statuses().
"""
import re
import time

from vverif import lockstep as ls
from vverif import lsx
from vverif.core import Result, Violation, HarnessError

LEVEL = 'exploration'

T0 = ls.T0_US // 1_000_000 - 86400        # Last-Modified of version 1


def hd(t):
    return time.strftime('%a, %d %b %Y %H:%M:%S GMT', time.gmtime(t))


def hd850(t):
    return time.strftime('%A, %d-%b-%y %H:%M:%S GMT', time.gmtime(t))


ETAGS = {'strong': '"a"', 'weak': 'W/"a"', 'none': None}
INM_Q = [None, '"a"', 'W/"a"', '"b"', '*', '"b", "a"', 'a']
INM_T = INM_Q + ['W/"b", W/"a"', '"a', '"b","a"', '"A"']
IMS_Q = [None, 'T0-1', 'T0', 'T0+1', 'garbage']
IMS_T = IMS_Q + ['future', 'T0/850']
IM_Q = [None, '"a"', '"b"', '*']
IM_T = IM_Q + ['W/"a"', '"b", "a"']
# part B: client conditionals on a stale entry
BCOND_Q = [{}, {'inm': '"a"'}, {'inm': '"b"'}, {'inm': 'W/"a"'}, {'inm': '*'}, {'ims': 'T0'}, {'ims': 'T0-1'}, {'inm': '"c"'}]
BCOND_T = BCOND_Q + [{'ims': 'T0+7200'}, {'inm': '"b"', 'ims': 'T0'}, {'im': '"a"'}, {'im': '"b"'}, {'inm': 'W/"c"'}, {'inm': '"a", "c"'}]


def ims_value(sym, now_s):
    if sym is None:
        return None
    if sym == 'garbage':
        return 'yesterday-ish'
    if sym == 'future':
        return hd(now_s + 3600)
    if sym == 'T0/850':
        return hd850(T0)
    m = re.match(r'^T0([+-][0-9]+)?$', sym)
    return hd(T0 + int(m.group(1) or 0))


# ------------------------------------------------------------------ reference evaluator (RFC 9110 8.8.3, 13.1, 13.2.2)

ETAG_RE = re.compile(r'^(W/)?"([\x21\x23-\x7e\x80-\xff]*)"$')


def parse_etag_list(v):
    """-> '*' | list of (weak, opaque) | None when the field value is not a valid #entity-tag / '*'."""
    v = v.strip(' \t')
    if v == '*':
        return '*'
    out = []
    # entity-tags cannot contain '"' or ',' inside the opaque part except ',' -- split on commas outside quotes
    items, cur, inq = [], '', False
    for ch in v:
        if ch == '"':
            inq = not inq
        if ch == ',' and not inq:
            items.append(cur)
            cur = ''
        else:
            cur += ch
    items.append(cur)
    for it in items:
        it = it.strip(' \t')
        if it == '':
            continue
        m = ETAG_RE.match(it)
        if not m:
            return None
        out.append((bool(m.group(1)), m.group(2)))
    return out or None


def parse_http_date(v):
    """IMF-fixdate, rfc850-date or asctime-date -> epoch seconds, else None."""
    import calendar
    for fmt in ('%a, %d %b %Y %H:%M:%S GMT', '%A, %d-%b-%y %H:%M:%S GMT', '%a %b %d %H:%M:%S %Y'):
        try:
            return calendar.timegm(time.strptime(v.strip(), fmt))
        except ValueError:
            pass
    return None


def allowed_statuses(cond, rep):
    """cond: dict(inm=, ims=, im=) of raw field values (or absent); rep: dict(etag, lm, date) of the representation that
    would otherwise be sent.  Returns (set of allowed statuses, explanation)."""
    retag = None
    if rep['etag'] is not None:
        m = ETAG_RE.match(rep['etag'])
        retag = (bool(m.group(1)), m.group(2))
    # step 1: If-Match
    im = cond.get('im')
    if im is not None:
        lst = parse_etag_list(im)
        if lst is None:
            im_state = 'unknown'
        elif lst == '*':
            im_state = 'pass'
        else:
            ok = retag is not None and not retag[0] and any((not w) and o == retag[1] for w, o in lst)
            im_state = 'pass' if ok else 'fail'
        if im_state == 'fail':
            return {412}, 'If-Match %r does not strongly match ETag %r' % (im, rep['etag'])
    else:
        im_state = 'pass'
    extra = {412} if im_state == 'unknown' else set()
    # step 3: If-None-Match (takes precedence over If-Modified-Since)
    inm = cond.get('inm')
    ims_says_304 = False
    ims = cond.get('ims')
    if ims is not None:
        t = parse_http_date(ims)
        if t is not None:
            if rep['lm'] is not None:
                ims_says_304 = rep['lm'] <= t
            else:
                # no modification date: an origin ignores the field (9110 13.1.3); a cache may compare with Date (9111 4.3.2)
                ims_says_304 = rep['date'] is not None and rep['date'] <= t
    if inm is not None:
        lst = parse_etag_list(inm)
        if lst is None:
            # malformed: a recipient may ignore the field (then If-Modified-Since decides) or treat it as not matching
            return ({200} | ({304} if ims_says_304 else set()) | extra), 'malformed If-None-Match %r' % inm
        if lst == '*':
            return {304, 200} | extra, 'If-None-Match: * and a representation exists'
        hit = retag is not None and any(o == retag[1] for w, o in lst)
        if hit:
            return {304, 200} | extra, 'If-None-Match %r weakly matches ETag %r' % (inm, rep['etag'])
        return {200} | extra, 'If-None-Match %r matches nothing (ETag %r); If-Modified-Since must be ignored' % (inm, rep['etag'])
    if ims_says_304:
        return {304, 200} | extra, 'not modified since %r (Last-Modified %s)' % (ims, hd(rep['lm']) if rep['lm'] is not None else None)
    return {200} | extra, 'no validator of the request matches (ETag %r, Last-Modified %s, If-Modified-Since %r)' % (
        rep['etag'], hd(rep['lm']) if rep['lm'] is not None else None, ims)


def origin_decision(m, rep, now_s):
    """The driver's origin is a reference server: strict choices inside what allowed_statuses() permits."""
    cond = {}
    for k, h in (('inm', 'if-none-match'), ('ims', 'if-modified-since'), ('im', 'if-match')):
        vs = m.get_all(h)
        if vs:
            cond[k] = ', '.join(vs)
    r = dict(rep)
    r['date'] = None           # an origin ignores If-Modified-Since without a modification date
    al, why = allowed_statuses(cond, r)
    if al == {412} or (412 in al and len(al) > 1):
        return 412
    return 304 if 304 in al else 200


# ------------------------------------------------------------------ cases

def all_cases(quick):
    cases = []
    n = [1000]
    inms, imss, ims_ = (INM_Q, IMS_Q, IM_Q) if quick else (INM_T, IMS_T, IM_T)
    for et in ('strong', 'weak', 'none'):
        for lm in (False, True):
            for state in ('cached', 'uncached'):
                for inm in inms:
                    for ims in imss:
                        for im in ims_:
                            n[0] += 1
                            cases.append({'n': n[0], 'part': 'A', 'etag': et, 'lm': lm, 'state': state, 'inm': inm, 'ims': ims, 'im': im})
    bconds = BCOND_Q if quick else BCOND_T
    for et in ('strong', 'weak', 'none'):
        for lm in (False, True):
            for scen in ('same', 'changed'):
                for c in bconds:
                    n[0] += 1
                    cases.append({'n': n[0], 'part': 'B', 'etag': et, 'lm': lm, 'scenario': scen, 'cond': c})
    return cases


def make_world(ctx, shard):
    # odd shards keep the entries in the shared memory cache (MemStore, also usable by a single -N process), whose
    # header update after a 304 rewrites the first slices of the entry in place; even shards use the local one
    conf = 'memory_cache_shared on\ncache_mem 16 MB\n' if shard % 2 else ''
    return lsx.RetryWorld(ctx, 'w%d' % shard, ls.port_base_for_check(ctx.pid, shard), conf=conf, memory_cache=True)


class Origin:
    """Reference origin for one URL."""

    def __init__(self, w, rep, max_age):
        self.w = w
        self.rep = rep
        self.max_age = max_age
        self.log = []

    def respond(self, m):
        now_s = self.w.sq.now_us // 1_000_000
        rep = self.rep
        st = origin_decision(m, rep, now_s)
        seen = ['%s: %s' % (k, v) for k, v in m.headers if k.lower() in ('if-none-match', 'if-modified-since', 'if-match')]
        self.log.append('origin got [%s] -> %d (%s)' % ('; '.join(seen), st, rep['marker']))
        h = 'Date: %s\r\nCache-Control: max-age=%d\r\nX-Marker: %s\r\n' % (hd(now_s), self.max_age, rep['marker'])
        for x in rep.get('extra', []):
            h += x + '\r\n'
        if rep['etag'] is not None:
            h += 'ETag: %s\r\n' % rep['etag']
        if rep['lm'] is not None:
            h += 'Last-Modified: %s\r\n' % hd(rep['lm'])
        if st == 304:
            return ('HTTP/1.1 304 Not Modified\r\n' + h + '\r\n').encode('latin1')
        if st == 412:
            return ('HTTP/1.1 412 Precondition Failed\r\n' + h + 'Content-Length: 0\r\n\r\n').encode('latin1')
        return ('HTTP/1.1 200 OK\r\n' + h + 'Content-Type: text/plain\r\nContent-Length: %d\r\n\r\n' % len(rep['body'])).encode('latin1') + rep['body']


def cond_lines(cond):
    out = ''
    if cond.get('inm') is not None:
        out += 'If-None-Match: %s\r\n' % cond['inm']
    if cond.get('ims') is not None:
        out += 'If-Modified-Since: %s\r\n' % cond['ims']
    if cond.get('im') is not None:
        out += 'If-Match: %s\r\n' % cond['im']
    return out


def do_get(w, path, cond, origin, tr, tag):
    req = 'GET %s HTTP/1.1\r\nHost: %s\r\n%s\r\n' % (w.url(path), w.hostport(), cond_lines(cond))
    n0 = len(origin.log)
    ex = w.fetch(req.encode('latin1'), origin.respond)
    r = ex.response
    ok = r is not None and not r.error and r.complete
    st = r.status if ok else 0
    tr.append('%s GET %s [%s] -> %s body=%r marker=%r etag=%r; %s' % (
        tag, path, cond_lines(cond).replace('\r\n', '; '), st, (r.body[:20] if ok else None), (r.get('x-marker') if ok else None),
        (r.get('etag') if ok else None), ' | '.join(origin.log[n0:]) or 'origin not contacted'))
    return st, r if ok else None, len(ex.origin_requests), origin.log[n0:]


def check_response(st, r, cond, rep, what):
    """Apply the oracle to one client response.  Returns violation text or None."""
    al, why = allowed_statuses(cond, rep)
    if st not in al:
        kind = '304' if st == 304 else '412' if st == 412 else 'status'
        if al == {412}:
            kind = 'no-412'
        return '[%s] %s: answered %s, allowed %s because %s' % (kind, what, st, sorted(al), why)
    if st == 200 and r.body != rep['body']:
        return '[body] %s: 200 carries body %r, the representation that would be sent has %r' % (what, r.body[:30], rep['body'][:30])
    if st == 304 and r.body:
        return '[body] %s: 304 with a body' % what
    return None


def run_case(w, case):
    n = case['n']
    path = '/k%d' % n
    tr = []
    now_s = w.sq.now_us // 1_000_000

    def result(outcome, violation=None):
        w.close_origin_conns()
        return {'outcome': outcome, 'violation': violation, 'transcript': '\n'.join(tr)}
    rep1 = {'etag': ETAGS[case['etag']], 'lm': T0 if case['lm'] else None, 'body': ('v1-%d' % n).encode(), 'marker': 'm1', 'extra': ['X-Old: o1', 'X-Tag: old'], 'date': now_s}
    if case['part'] == 'A':
        origin = Origin(w, rep1, 3600)
        cond = {'inm': case['inm'], 'ims': ims_value(case['ims'], now_s), 'im': case['im']}
        if case['state'] == 'cached':
            st, r, oc, _ = do_get(w, path, {}, origin, tr, 'prime')
            if st != 200 or oc != 1 or r.body != rep1['body']:
                return result('A:prime-failed')
        st, r, oc, olog = do_get(w, path, cond, origin, tr, 'cond')
        if st == 0:
            return result('A:%s:broken' % case['state'], '[broken] no complete response to the conditional request')
        what = 'conditional GET (%s) on a %s representation (ETag %s, Last-Modified %s)' % (
            cond_lines(cond).replace('\r\n', '; ') or 'none', case['state'], rep1['etag'], 'T0' if case['lm'] else None)
        v = check_response(st, r, cond, rep1, what)
        al, _ = allowed_statuses(cond, rep1)
        src = 'hit' if oc == 0 else 'origin'
        return result('A:%s:%s:%d%s' % (case['state'], src, st, '(304-allowed)' if 304 in al and st == 200 else ''), v)

    # part B: stale entry, revalidation
    origin = Origin(w, rep1, 60)
    st, r, oc, _ = do_get(w, path, {}, origin, tr, 'prime')
    if st != 200 or oc != 1 or r.body != rep1['body']:
        return result('B:prime-failed')
    w.sq.advance(120_000)
    now2 = w.sq.now_us // 1_000_000
    if case['scenario'] == 'same':
        rep2 = dict(rep1, marker='m2', extra=['X-New: n2', 'X-Tag: one', 'X-Tag: two'], date=now2)   # a field name repeated on two lines
    else:
        e2 = {'strong': '"c"', 'weak': 'W/"c"', 'none': None}[case['etag']]
        rep2 = {'etag': e2, 'lm': (T0 + 3600) if case['lm'] else None, 'body': ('v2-%d' % n).encode(), 'marker': 'm2', 'extra': ['X-New: n2', 'X-Tag: one', 'X-Tag: two'], 'date': now2}
    origin.rep = rep2
    c = case['cond']
    cond = {'inm': c.get('inm'), 'im': c.get('im'), 'ims': ims_value(c.get('ims'), now2)}
    st, r, oc, olog = do_get(w, path, cond, origin, tr, 'reval')
    if st == 0:
        return result('B:broken', '[broken] no complete response to the request for the stale entry')
    origin_304 = any('-> 304' in l for l in olog)
    origin_200 = any('-> 200' in l for l in olog)
    # the representation that would otherwise be sent: the origin's current one if it was asked, else the stored one
    rep_now = rep2 if oc else rep1
    what = 'GET (%s) for a stale entry (ETag %s, Last-Modified %s), origin %s' % (
        cond_lines(cond).replace('\r\n', '; ') or 'unconditional', rep1['etag'], 'T0' if case['lm'] else None,
        'not contacted' if not oc else 'has the same representation' if case['scenario'] == 'same' else 'has a new representation')
    v = check_response(st, r, cond, rep_now, what)
    if case['scenario'] == 'changed' and rep2['etag'] is None and rep2['lm'] is None and origin_304 and not origin_200:
        # neither representation has a validator: a 304 from the origin cannot tell Squid which one it confirms
        # (RFC 9111 4.3.4 lets the cache pick its only stored response), so nothing can be asserted
        tr.append('(no validators at all: 304 is ambiguous, not asserted)')
        v = None
    oc1 = 'B:%s:reval-%s:client-%d' % (case['scenario'], 'none' if not oc else '304' if origin_304 else '200' if origin_200 else 'other', st)
    if v:
        return result(oc1, v)
    # follow-up: what do later hits carry?
    st2, r2, oc2, _ = do_get(w, path, {}, origin, tr, 'later')
    if st2 == 0:
        return result(oc1 + ':later-broken', '[broken] no complete response to the follow-up GET')
    if oc2:
        v = check_response(st2, r2, {}, rep2, 'follow-up GET (origin contacted)')
        return result(oc1 + ':later-refetched', v)
    if origin_304 and not origin_200 and case['scenario'] == 'same':
        # revalidated by 304: unchanged body, updated headers
        if st2 != 200 or r2.body != rep1['body']:
            v = '[refresh-body] after the origin revalidated the entry with 304, a later hit has status %s body %r (stored body %r)' % (st2, r2.body[:30], rep1['body'])
        elif r2.get('x-marker') != 'm2' or r2.get('x-new') != 'n2':
            v = '[refresh-headers] after the origin revalidated the entry with 304 carrying X-Marker: m2 and X-New: n2, a later hit has X-Marker %r X-New %r' % (
                r2.get('x-marker'), r2.get('x-new'))
        elif sorted(x.strip() for l in r2.get_all('x-tag') for x in l.split(',')) != ['one', 'two']:
            # RFC 9111 3.2: all instances of a field named in the 304 replace all stored instances
            v = '[refresh-headers] the 304 carried X-Tag: one and X-Tag: two (stored: X-Tag: old); a later hit has X-Tag %r' % (r2.get_all('x-tag'),)
        return result(oc1 + ':later-hit-refreshed' + ('' if r2.get('x-old') == 'o1' else ':x-old-dropped'), v)
    if origin_200 and st2 == 200 and r2.body == rep1['body'] and case['scenario'] == 'changed':
        return result(oc1 + ':later-hit-OLD-BODY')
    v = None
    if st2 != 200 or r2.body not in (rep1['body'], rep2['body']):
        v = '[body] follow-up hit has status %s body %r' % (st2, r2.body[:30])
    return result(oc1 + ':later-hit', v)


def key_of(case):
    if case['part'] == 'A':
        return 'A:%s:%s:lm=%s:inm=%s:ims=%s:im=%s' % (case['state'], case['etag'], case['lm'], case['inm'], case['ims'], case['im'])
    return 'B:%s:%s:lm=%s:%s' % (case['scenario'], case['etag'], case['lm'], ','.join('%s=%s' % kv for kv in sorted(case['cond'].items())))


def vkey(what, case):
    """Stable identity: failed obligation + the input class (for part B the ETag kind / Last-Modified presence, which do
    not change the code path taken, are left out)."""
    kind = re.match(r'^\[([a-z0-9-]+)\]', what).group(1)
    if case['part'] == 'B':
        return '%s:B:%s:%s' % (kind, case['scenario'], ','.join('%s=%s' % kv for kv in sorted(case['cond'].items())) or 'unconditional')
    return kind + ':' + key_of(case)


ASSUME = ['the real squid binary (ASan build of the current tree, memory cache only) runs under the lock-step/virtual-time shim; client and origin are played by the driver',
          'the origin is a reference server: it evaluates whatever conditionals Squid sends against its current representation and answers 200/304/412 accordingly',
          '304 is accepted only when the reference evaluation of the client\'s validators against the representation that would otherwise be sent says "not modified"; 200 with the full body '
          'is always accepted unless If-Match fails (then 412 is required); a malformed If-None-Match may be ignored or treated as non-matching; without Last-Modified a cache may compare '
          'If-Modified-Since with the stored Date (RFC 9111 4.3.2)',
          'If-Unmodified-Since, If-Range, HEAD and Vary interplay are outside the bound']
RULE = ('part A: ETag kind x Last-Modified x If-None-Match x If-Modified-Since x If-Match x {cached fresh, uncached}; part B: ETag kind x Last-Modified x origin {same representation '
        'with new headers, new representation} x client conditional, on a stale entry, each followed by an unconditional GET; non-trivial = part A cases that carried at least one '
        'conditional field and were answered, plus part B cases in which the origin was asked to revalidate')


def run(ctx):
    ls.build_squid(ctx)
    cases = all_cases(ctx.quick)
    r = ls.run_cases(ctx, cases, run_case, make_world, key_of=key_of)
    oc = r['outcomes']
    n304hit = sum(v for k, v in oc.items() if k.startswith('A:cached:hit:304'))
    n412hit = sum(v for k, v in oc.items() if k.startswith('A:cached:hit:412'))
    n200hit = sum(v for k, v in oc.items() if k.startswith('A:cached:hit:200'))
    n304rel = sum(v for k, v in oc.items() if k.startswith('A:uncached:origin:304'))
    refreshed = sum(v for k, v in oc.items() if 'later-hit-refreshed' in k)
    reval200 = sum(v for k, v in oc.items() if ':reval-200:' in k)
    answered_a = sum(v for k, v in oc.items() if re.match(r'^A:(cached|uncached):(hit|origin):\d', k))
    reval = sum(v for k, v in oc.items() if k.startswith('B:') and ':reval-' in k and ':reval-none' not in k)
    plain_a = 3 * 2 * 2   # cases without any conditional field
    nontrivial = max(0, answered_a - plain_a) + reval
    if not r['violations'] and not r['deadline_hit']:
        if min(n304hit, n412hit, n200hit, n304rel) < 20 or refreshed < 5 or reval200 < 5:
            raise HarnessError('vacuity guard: hit-304=%d hit-412=%d hit-200=%d relayed-304=%d refreshed-by-304=%d revalidated-200=%d: %r' % (
                n304hit, n412hit, n200hit, n304rel, refreshed, reval200, oc))
    vio = [Violation(vkey(what, c), what, {'case': c}) for k, what, c in r['violations']]
    obs = ['squid problem during %s: %s' % (k, what[:300]) for k, what, c in r['crashes']]
    old = sum(v for k, v in oc.items() if 'later-hit-OLD-BODY' in k)
    if old:
        obs.append('%d part-B cases: after the origin answered the revalidation with a new 200 representation, a later hit still served the old body (not asserted by C14)' % old)
    vio += [Violation('crash:' + k, 'squid crashed/asserted during case %s: %s' % (k, what), {'case': c}) for k, what, c in r['crashes']]
    cov = {'evaluations': r['evaluations'], 'distinct_nontrivial': nontrivial, 'rule': RULE, 'samples': r['samples'],
           'outcome_classes': oc, 'exhaustive': not r['deadline_hit'] and r['evaluations'] == len(cases), 'kicks': r['kicks'],
           'determinism_replays': r['replays'], 'cases_total': len(cases),
           'hit_304': n304hit, 'hit_412': n412hit, 'hit_200': n200hit, 'relayed_304': n304rel, 'refreshed_by_304': refreshed, 'revalidated_200': reval200}
    return Result(LEVEL, cov, vio, ASSUME, obs)


def replay(ctx, data):
    ls.build_squid(ctx)
    w = make_world(ctx, 0)
    w.start()
    try:
        r = run_case(w, data['case'])
        print(r['transcript'])
        print('outcome:', r['outcome'])
    finally:
        w.stop()
    v = [Violation(vkey(r['violation'], data['case']), r['violation'], data)] if r['violation'] else []
    return Result(LEVEL, {}, v, ASSUME)
