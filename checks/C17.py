"""C17 Completed disk cache entries survive a clean restart - E3, all short operation histories.

Alphabet over two URLs u1,u2: S1(u) / S3(u) = plain GET with the origin ready to serve a 1-slot / 3-slot
object, O(u) = reload (overwrite with a new version of the other size), P(u) = PURGE.  Every history of
length <= 3 (quick) / <= 4 (thorough) is run against the real squid binary on a rock and on a ufs cache_dir
with ample space (cache_mem 0, so every hit is a disk hit); histories are independent (each uses its own
pair of URLs) and are batched into one instance lifetime.  Before the clean shutdown (SIGTERM under virtual
time) every URL of the reference map is requested once more: an entry counts as "completely stored" only if
that request is a disk hit with the right bytes.  After the restart on the same directory every URL is
requested again.  Oracle: each URL that the reference map holds (completely stored, not purged since) is
served without contacting the origin, byte-identical to the mapped version.
"""
import itertools
import os
import shutil
import time

from vverif import cachesim as cs
from vverif import lockstep as ls
from vverif.core import Result, Violation, HarnessError

LEVEL = 'fault_enumeration'

SIZE1 = 1500      # with swap metadata and reply headers: one 4096-byte rock slot / one ufs data write
SIZE3 = 9500      # three rock slots / three ufs data writes
OPS = ['S1', 'S3', 'O', 'P']
ALPHABET = [(o, u) for o in OPS for u in (1, 2)]
STORE_OF = {'rock': 'rock-ample', 'ufs': 'ufs-ample'}
BATCH = 150


def histories(maxlen):
    out = []
    for n in range(1, maxlen + 1):
        out += [list(h) for h in itertools.product(ALPHABET, repeat=n)]
    return out


def hist_str(h):
    return ' '.join('%s(u%d)' % (o, u) for o, u in h)


def projection(h, u):
    return ','.join(o for o, uu in h if uu == u)


class Model:
    """Reference map of one history: url -> (version, size) currently held by the cache."""

    def __init__(self):
        self.map = {}
        self.nextver = {1: 1, 2: 1}


def run_batch(ctx, shard, store, template, batch):
    """batch: list of (hid, history).  Returns dict(results: {hid: dict}, transcript, starts, ...)."""
    cw = cs.CacheWorld(ctx, 'b%d' % shard, shard, STORE_OF[store], template)
    out = {}
    tr = []
    anomalies = []
    try:
        r = cw.first_life(count=False)
        if r:
            raise HarnessError('instance did not start: ' + r)
        models = {}
        for slot, (hid, h) in enumerate(batch):
            md = Model()
            models[hid] = md
            for o, u in h:
                uidx = 10 * (slot + 1) + u
                if o in ('S1', 'S3'):
                    size = SIZE1 if o == 'S1' else SIZE3
                    ver = md.nextver[u]
                    ex = cw.store(uidx, ver, size, must_fetch=False)
                    if ex is None:
                        raise HarnessError('squid died during %s: %s' % (hist_str(h), cw.sq.health_problems()))
                    if ex.origin_requests:
                        md.nextver[u] += 1
                        if u in md.map:
                            anomalies.append('%s %s: %s(u%d) went to the origin although the model holds %r' % (store, hist_str(h), o, u, md.map[u]))
                        md.map[u] = (ver, size)
                        ok = ex.response and ex.response.complete and ex.response.body == cs.body_of(uidx, ver, size)
                    else:
                        ok = u in md.map and ex.response and ex.response.complete and ex.response.body == cs.body_of(uidx, *md.map[u])
                    if not ok:
                        anomalies.append('%s %s: response to %s(u%d) is not the expected body' % (store, hist_str(h), o, u))
                elif o == 'O':
                    ver = md.nextver[u]
                    size = SIZE1 if (u in md.map and md.map[u][1] == SIZE3) else SIZE3
                    ex = cw.store(uidx, ver, size, reload=True)
                    if ex is None:
                        raise HarnessError('squid died during %s: %s' % (hist_str(h), cw.sq.health_problems()))
                    md.nextver[u] += 1
                    md.map[u] = (ver, size)
                else:
                    st = cw.purge(uidx)
                    if st is None:
                        raise HarnessError('squid died during %s: %s' % (hist_str(h), cw.sq.health_problems()))
                    if st not in (200, 404):
                        raise HarnessError('PURGE answered %s' % st)
                    md.map.pop(u, None)
                cw.sq.advance(1000, rounds=1)
        cw.sq.advance(2000)
        # "completely stored": a disk hit with the right bytes right before the shutdown
        stored = {}
        for slot, (hid, h) in enumerate(batch):
            md = models[hid]
            stored[hid] = {}
            for u in sorted(md.map):
                uidx = 10 * (slot + 1) + u
                cw.served[uidx] = [md.map[u]]
                p = cw.probe(uidx)
                if p.kind == 'hit' and not p.problem and p.ver == md.map[u][0]:
                    stored[hid][u] = md.map[u]
                else:
                    anomalies.append('%s %s: u%d is not a clean disk hit before the shutdown (%s %s)' % (store, hist_str(h), u, p.kind, p.problem))
        hp = cw.sq.health_problems()
        if hp:
            raise HarnessError('instance unhealthy before shutdown: %s' % hp)
        cw.sq.advance(2000)
        rc = cw.shutdown()
        if rc != 0:
            raise HarnessError('clean shutdown returned %r: %s' % (rc, cw.sq.cache_log()[-600:]))
        rr = cw.restart()
        if rr is not None:
            raise HarnessError('restart after a clean shutdown failed: ' + rr)
        for slot, (hid, h) in enumerate(batch):
            res = {'hist': h, 'expected': 0, 'violations': [], 'purged_hits': 0}
            for u in (1, 2):
                uidx = 10 * (slot + 1) + u
                exp = stored[hid].get(u)
                cw.served[uidx] = [exp] if exp else list(cw.served.get(uidx, []))
                p = cw.probe(uidx)
                tr.append('%d:%s' % (hid, p.summary()))
                if exp is None:
                    if p.kind == 'hit' and projection(h, u):
                        res['purged_hits'] += 1
                    continue
                res['expected'] += 1
                want = cs.tag_of(uidx, exp[0])
                if p.kind != 'hit':
                    res['violations'].append(('lost', u, 'u%d (%s, %d bytes; operations on it: %s) was a disk hit before the clean shutdown but after the restart '
                                              'the request went to the origin (%s)' % (u, want, exp[1], projection(h, u), p.kind)))
                elif p.problem or p.ver != exp[0]:
                    res['violations'].append(('wrong-bytes', u, 'u%d (%s; operations on it: %s): hit after restart differs: %s' % (
                        u, want, projection(h, u), p.problem or 'served version %s' % p.tag)))
            out[hid] = res
        hp = cw.sq.health_problems()
        if hp:
            raise HarnessError('restarted instance unhealthy: %s' % hp)
        return {'results': out, 'transcript': ' '.join(tr), 'starts': cw.starts, 'anomalies': anomalies,
                'kicks': cw.kicks + cw.sq.kicks}
    finally:
        cw.close()


def make_template(ctx, store):
    """`squid -z` once per store; every batch starts from a copy."""
    sk = STORE_OF[store]
    cd, conf = cs.STORES[sk]
    sq = ls.Squid(ctx, 'tmpl-' + store, cs.squid_port_base(ctx.pid, -1), cache_dir=cd, conf=conf)
    sq.write_conf()
    sq._chown()
    sq.init_cache()
    return sq.cache_path, sq.dir


def key_of(store, kind, h, u):
    return '%s:%s:%s' % (store, kind, projection(h, u))


ASSUME = [
    'the real ASan squid binary (-N, cache_mem 0) under the lock-step/virtual-time shim; the driver plays client and origin; shutdown is SIGTERM with shutdown_lifetime 1 s of virtual time',
    'independent histories (disjoint URLs) share one instance lifetime; a violating history is re-run alone on a fresh directory before it is reported',
    '"completely stored" is observed, not assumed: the URL was served as a disk hit with the right bytes immediately before the shutdown',
    'aufs/diskd are not run (same UFSSwapDir/rebuild code as ufs, different I/O strategy)',
]
RULE = ('one case = (store, history): a sequence of <= L operations over {S1,S3,O,P} x {u1,u2}, then clean shutdown, restart, probe; non-trivial = '
        'histories after which the reference map holds at least one completely stored, not purged URL (so the restart oracle compared bytes)')


def run(ctx):
    ls.build_squid(ctx)
    L = 3 if ctx.quick else 4
    hs = histories(L)
    stores = ['rock', 'ufs']
    if os.environ.get('VERIF_C17_STORES'):
        stores = os.environ['VERIF_C17_STORES'].split(',')
    tmpl = {}
    tdirs = []
    for s in stores:
        tmpl[s], d = make_template(ctx, s)
        tdirs.append(d)
    # work items: (store, [(hid, history)...]) batches, dealt round-robin to shards
    items = []
    for s in stores:
        ids = list(enumerate(hs))
        per = max(1, min(BATCH, (len(ids) + ctx.ncpu - 1) // ctx.ncpu))
        for i in range(0, len(ids), per):
            items.append((s, ids[i:i + per]))
    t_end = ctx.t0 + ctx.deadline_s

    def worker(shard, its):
        res = {'done': [], 'deadline_hit': False, 'starts': 0, 'replays': 0, 'anomalies': [], 'kicks': 0, 'violations': []}
        longest = [20.0]
        for n, (store, batch) in enumerate(its):
            if time.time() + 1.5 * longest[0] + 5 > t_end:
                res['deadline_hit'] = True
                break
            t = time.time()
            r = run_batch(ctx, shard, store, tmpl[store], batch)
            longest[0] = max(longest[0], time.time() - t)
            res['starts'] += r['starts']
            res['kicks'] += r['kicks']
            res['anomalies'] += r['anomalies'][:5]
            if n == 0 and shard < 2:
                r2 = run_batch(ctx, shard, store, tmpl[store], batch)
                res['replays'] += 1
                res['starts'] += r2['starts']
                if r2['transcript'] != r['transcript']:
                    raise HarnessError('nondeterminism: batch of %s gave different post-restart observations on two runs' % store)
            for hid, hr in sorted(r['results'].items()):
                vs = []
                if hr['violations']:
                    # replay before report: the history alone, twice
                    alone = [run_batch(ctx, shard, store, tmpl[store], [(hid, hr['hist'])]) for _ in range(2)]
                    res['replays'] += 2
                    res['starts'] += sum(a['starts'] for a in alone)
                    same = [sorted((k, u) for k, u, _ in a['results'][hid]['violations']) for a in alone]
                    mine = sorted((k, u) for k, u, _ in hr['violations'])
                    if same[0] == mine and same[1] == mine:
                        vs = [(key_of(store, k, hr['hist'], u), '%s, history [%s] then clean shutdown and restart: %s' % (store, hist_str(hr['hist']), w),
                               {'store': store, 'history': hr['hist']}) for k, u, w in hr['violations']]
                    else:
                        rb = run_batch(ctx, shard, store, tmpl[store], batch)
                        res['replays'] += 1
                        if sorted((k, u) for k, u, _ in rb['results'][hid]['violations']) != mine:
                            raise HarnessError('violation of history [%s] on %s is not reproducible' % (hist_str(hr['hist']), store))
                        vs = [('%s:%s:batch-dependent:%s' % (store, k, projection(hr['hist'], u)),
                               '%s, history [%s] inside a batch of %d independent histories: %s' % (store, hist_str(hr['hist']), len(batch), w),
                               {'store': store, 'batch': [hh for _, hh in batch], 'history': hr['hist']}) for k, u, w in hr['violations']]
                    if time.time() > t_end - 30:
                        res['deadline_hit'] = True
                res['violations'] += vs
                res['done'].append({'store': store, 'hist': hr['hist'], 'expected': hr['expected'], 'viol': len(vs), 'purged_hits': hr['purged_hits']})
        return res
    try:
        parts = ls.run_sharded(ctx, worker, items)
    finally:
        for d in tdirs:
            shutil.rmtree(d, ignore_errors=True)
    parts = [p for p in parts if p]
    done = [d for p in parts for d in p['done']]
    vio = [Violation(k, w, rp) for p in parts for k, w, rp in p['violations']]
    anomalies = [a for p in parts for a in p['anomalies']]
    nontrivial = sum(1 for d in done if d['expected'])
    expected = sum(d['expected'] for d in done)
    purged_hits = sum(d['purged_hits'] for d in done)
    total = len(hs) * len(stores)
    if done and not vio and (nontrivial < len(done) // 3 or expected < nontrivial):
        raise HarnessError('vacuity guard: only %d of %d histories left a completely stored entry' % (nontrivial, len(done)))
    if anomalies and not vio:
        # the reference model and squid disagreed before the restart (not C17's subject, but it weakens the run)
        if len(anomalies) > len(done) // 20:
            raise HarnessError('reference model and squid disagree in-life too often: %r' % anomalies[:3])
    step = max(1, len(done) // 6)
    samples = [{'store': d['store'], 'history': hist_str(d['hist']), 'urls_expected_after_restart': d['expected'],
                'violations': d['viol']} for d in done[::step][:6]]
    obs = []
    if purged_hits:
        obs.append('%d URLs that the model does not hold (purged, or never completely stored) were nevertheless served as hits with consistent bytes after the restart '
                   '(allowed by C17; rock does not erase purged slots on disk)' % purged_hits)
    obs += ['in-life disagreement: ' + a for a in anomalies[:5]]
    per_store = {}
    for d in done:
        ps = per_store.setdefault(d['store'], {'histories': 0, 'with_expected_urls': 0, 'violating': 0})
        ps['histories'] += 1
        ps['with_expected_urls'] += 1 if d['expected'] else 0
        ps['violating'] += 1 if d['viol'] else 0
    cov = {'evaluations': len(done), 'distinct_nontrivial': nontrivial, 'rule': RULE, 'samples': samples,
           'exhaustive': len(done) == total and not any(p['deadline_hit'] for p in parts),
           'histories_total': total, 'max_history_length': L, 'alphabet': ['%s(u%d)' % a for a in ALPHABET],
           'urls_compared_after_restart': expected, 'per_store': per_store,
           'squid_starts': sum(p['starts'] for p in parts), 'kicks': sum(p['kicks'] for p in parts),
           'determinism_and_violation_replays': sum(p['replays'] for p in parts), 'batch_size': BATCH,
           'hits_for_urls_outside_the_map': purged_hits}
    return Result(LEVEL, cov, vio, ASSUME, obs)


def replay(ctx, data):
    ls.build_squid(ctx)
    store = data['store']
    t, d = make_template(ctx, store)
    try:
        hists = data.get('batch') or [data['history']]
        batch = list(enumerate([[tuple(x) for x in h] for h in hists]))
        r = run_batch(ctx, 0, store, t, batch)
    finally:
        shutil.rmtree(d, ignore_errors=True)
    vio = []
    target = [tuple(x) for x in data['history']]
    for hid, hr in r['results'].items():
        print(hist_str(hr['hist']), '->', hr['violations'] or 'ok')
        if hr['hist'] == target:
            for k, u, w in hr['violations']:
                key = key_of(store, k, hr['hist'], u) if not data.get('batch') else '%s:%s:batch-dependent:%s' % (store, k, projection(hr['hist'], u))
                vio.append(Violation(key, w, data))
    print(r['transcript'])
    return Result(LEVEL, {}, vio, ASSUME)
