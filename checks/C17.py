"""C17 Completed disk cache entries survive a clean restart - E3, all short operation histories.

Alphabet over two URLs u1,u2: S1(u) / S3(u) = plain GET with the origin ready to serve a 1-slot / 3-slot
object, O(u) = reload (overwrite with a new version of the other size), P(u) = PURGE.  A history is run
against the real squid binary (-N, cache_mem 0, so every hit is a disk hit) on a rock or a ufs cache_dir
with ample space; then every URL of the reference map is requested once more (an entry counts as
"completely stored" only if that request is a disk hit with the right bytes), squid is shut down cleanly
(SIGTERM under virtual time), restarted on the same directory, and every URL is requested again.
Oracle: each URL the reference map holds (completely stored, not purged since) is served without
contacting the origin, byte-identical to the mapped version.

Two ways of running the histories (each history always has its own pair of URLs):
  batched  - many independent histories in one instance lifetime, one shutdown/restart for all of them
             (2 starts per ~40-150 histories);
  isolated - one history per lifetime: history, shutdown, restart, probe, and the restarted instance then
             runs the next history (1 start per history).  Needed for rock, whose allocator hands out the
             lowest free slot: in a batch the slots a history leaves behind are overwritten by its successors,
             so what a restart would have made of them is never seen.
"""
import itertools
import os
import shutil
import time

from vverif import cachesim as cs
from vverif import lockstep as ls
from vverif.core import Result, Violation, HarnessError, load_findings

LEVEL = 'fault_enumeration'

SIZE1 = 1500      # with swap metadata and reply headers: one 4096-byte rock slot / one ufs data write
SIZE3 = 9500      # three rock slots / three ufs data writes
OPS = ['S1', 'S3', 'O', 'P']
ALPHABET = [(o, u) for o in OPS for u in (1, 2)]
STORE_OF = {'rock': 'rock-ample', 'ufs': 'ufs-ample'}
ROCK_SLOT = 4096
BATCH = 150
STALE_KEY = 'rock:lost:stale-slots-of-replaced-version'


def histories(maxlen, alphabet=ALPHABET, minlen=1):
    out = []
    for n in range(minlen, maxlen + 1):
        out += [list(h) for h in itertools.product(alphabet, repeat=n)]
    return out


def hist_str(h):
    return ' '.join('%s(u%d)' % (o, u) for o, u in h)


def projection(h, u):
    return ','.join(o for o, uu in h if uu == u)


def plan(ctx):
    """Work of a tier: list of (mode, store, [history...])."""
    single = [(o, 1) for o in OPS]
    if ctx.quick:
        iso = histories(2) + histories(3, single, 3)
        bat = histories(3)
    else:
        iso = histories(3) + histories(4, single, 4)
        bat = histories(4)
    return {'isolated': {'rock': iso}, 'batched': {'rock': bat, 'ufs': bat}}


class Model:
    """Reference map of one history: url -> (version, size) currently held by the cache."""

    def __init__(self):
        self.map = {}
        self.nextver = {1: 1, 2: 1}


def stale_same_key_slots(path, tag):
    """rock only: find the inode slot holding the reply header with X-V: <tag>, walk its chain, and return
    (slots in the chain, other non-empty slots on disk that carry the same store key), or None."""
    import struct
    slots = {}
    try:
        with open(path, 'rb') as f:
            f.seek(16384)
            i = 0
            while True:
                b = f.read(ROCK_SLOT)
                if len(b) < cs.ROCK_HDR:
                    break
                k0, k1, esz, psz, ver, first, nxt = struct.unpack('<QQQIIii', b[:cs.ROCK_HDR])
                if first or nxt or psz:
                    slots[i] = (k0, k1, first, nxt, ver, (b'X-V: ' + tag.encode() + b'\r\n') in b[cs.ROCK_HDR:cs.ROCK_HDR + psz])
                i += 1
    except OSError:
        return None
    inodes = [i for i, s in slots.items() if s[5] and s[2] == i]
    if len(inodes) != 1:
        return None
    ino = inodes[0]
    key = slots[ino][:2]
    chain = []
    i = ino
    while i >= 0 and i in slots and i not in chain:
        chain.append(i)
        i = slots[i][3]
    stale = sorted(i for i, s in slots.items() if s[:2] == key and i not in chain)
    return chain, stale, {i: slots[i][4] for i in chain + stale}


def run_groups(ctx, shard, store, template, groups, dump=False, t_end=None):
    """groups: list of lists of (hid, history).  Each group is run in one instance lifetime and followed by
    pre-shutdown probes, clean shutdown, restart and probes; the restarted instance runs the next group.
    Returns dict(results {hid: ...}, transcript, starts, anomalies, kicks)."""
    cw = cs.CacheWorld(ctx, 'b%d' % shard, shard, STORE_OF[store], template)
    out = {}
    tr = []
    anomalies = []
    seq = 0
    try:
        r = cw.first_life(count=False)
        if r:
            raise HarnessError('instance did not start: ' + r)
        t_start = time.time()
        incomplete = False
        for gi, group in enumerate(groups):
            if t_end is not None and gi and time.time() + 1.5 * (time.time() - t_start) / gi + 5 > t_end:
                incomplete = True       # the tier deadline does not allow another lifetime
                break
            models = {}
            uof = {}
            for hid, h in group:
                seq += 1
                md = Model()
                models[hid] = md
                uof[hid] = {1: 10 * seq + 1, 2: 10 * seq + 2}
                for o, u in h:
                    uidx = uof[hid][u]
                    if o in ('S1', 'S3'):
                        size = SIZE1 if o == 'S1' else SIZE3
                        ver = md.nextver[u]
                        ex = cw.store(uidx, ver, size, must_fetch=False)
                        if ex is None:
                            raise HarnessError('squid died during %s: %s' % (hist_str(h), cw.sq.health_problems()))
                        if ex.origin_requests:
                            md.nextver[u] += 1
                            if u in md.map:
                                anomalies.append('%s [%s]: %s(u%d) went to the origin although the model holds %r' % (store, hist_str(h), o, u, md.map[u]))
                            md.map[u] = (ver, size)
                            ok = ex.response and ex.response.complete and ex.response.body == cs.body_of(uidx, ver, size)
                        else:
                            ok = u in md.map and ex.response and ex.response.complete and ex.response.body == cs.body_of(uidx, *md.map[u])
                        if not ok:
                            anomalies.append('%s [%s]: response to %s(u%d) is not the expected body' % (store, hist_str(h), o, u))
                    elif o == 'O':
                        ver = md.nextver[u]
                        size = SIZE1 if (u in md.map and md.map[u][1] == SIZE3) else SIZE3
                        ex = cw.store(uidx, ver, size, reload=True)
                        if ex is None:
                            raise HarnessError('squid died during %s: %s' % (hist_str(h), cw.sq.health_problems()))
                        md.nextver[u] += 1
                        md.map[u] = (ver, size)
                    else:
                        st = cw.purge(uidx)
                        if st is None:
                            raise HarnessError('squid died during %s: %s' % (hist_str(h), cw.sq.health_problems()))
                        if st not in (200, 404):
                            raise HarnessError('PURGE answered %s' % st)
                        md.map.pop(u, None)
                    cw.quiesce()
                    cw.sq.advance(1000, rounds=1)
            cw.sq.advance(2000)
            # "completely stored": a disk hit with the right bytes right before the shutdown
            stored = {}
            for hid, h in group:
                md = models[hid]
                stored[hid] = {}
                for u in sorted(md.map):
                    uidx = uof[hid][u]
                    cw.served[uidx] = [md.map[u]]
                    p = cw.probe(uidx)
                    if p.kind == 'hit' and not p.problem and p.ver == md.map[u][0]:
                        stored[hid][u] = md.map[u]
                    else:
                        anomalies.append('%s [%s]: u%d is not a clean disk hit before the shutdown (%s %s)' % (store, hist_str(h), u, p.kind, p.problem))
            hp = cw.sq.health_problems()
            if hp:
                raise HarnessError('instance unhealthy before shutdown: %s' % hp)
            cw.quiesce()
            cw.sq.advance(2000)
            rc = cw.shutdown()
            if rc != 0:
                raise HarnessError('clean shutdown returned %r: %s' % (rc, cw.sq.cache_log()[-600:]))
            db = os.path.join(cw.sq.cache_path, 'rock')
            if dump and store == 'rock':
                print('rock db after the clean shutdown:')
                for l in cs.dump_rock(db, ROCK_SLOT):
                    print('  ' + l)
            rr = cw.restart()
            if rr is not None:
                raise HarnessError('restart after a clean shutdown failed: ' + rr)
            if dump:
                print('cache.log of the restarted instance:')
                print('\n'.join(l for l in cw.sq.cache_log().split('\n') if 'ebuild' in l or 'WARNING' in l or 'ntries' in l or 'nvalid' in l)[:3000])
            for hid, h in group:
                res = {'hist': h, 'expected': 0, 'violations': [], 'purged_hits': 0}
                for u in (1, 2):
                    uidx = uof[hid][u]
                    exp = stored[hid].get(u)
                    cw.served[uidx] = [exp] if exp else list(cw.served.get(uidx, []))
                    p = cw.probe(uidx)
                    tr.append('%d:%s' % (hid, p.summary()))
                    if exp is None:
                        if p.kind == 'hit' and projection(h, u):
                            res['purged_hits'] += 1
                        continue
                    res['expected'] += 1
                    want = cs.tag_of(uidx, exp[0])
                    if p.kind != 'hit':
                        key = '%s:lost:%s' % (store, projection(h, u))
                        why = ''
                        if store == 'rock':
                            st = stale_same_key_slots(db, want)
                            if st and st[1]:
                                key = STALE_KEY
                                why = ('; the db file holds its complete chain in slots %s (versions %s) plus %d more slot(s) %s with the same store key left over '
                                       'from a replaced/purged version (versions %s), which makes the rebuild discard the entry' % (
                                           st[0], sorted(set(st[2][i] for i in st[0])), len(st[1]), st[1], sorted(set(st[2][i] for i in st[1]))))
                        res['violations'].append((key, 'u%d (%s, %d bytes; operations on it: %s) was a disk hit right before the clean shutdown but after the restart '
                                                  'the request went to the origin%s' % (u, want, exp[1], projection(h, u), why)))
                    elif p.problem or p.ver != exp[0]:
                        res['violations'].append(('%s:wrong-bytes:%s' % (store, projection(h, u)), 'u%d (%s; operations on it: %s): hit after restart differs: %s' % (
                            u, want, projection(h, u), p.problem or 'served version %s' % p.tag)))
                out[hid] = res
            hp = cw.sq.health_problems()
            if hp:
                raise HarnessError('restarted instance unhealthy: %s' % hp)
        return {'results': out, 'transcript': ' '.join(tr), 'starts': cw.starts, 'anomalies': anomalies,
                'kicks': cw.kicks + cw.sq.kicks, 'incomplete': incomplete}
    finally:
        cw.close()


def make_template(ctx, store):
    """`squid -z` once per store; every execution starts from a copy."""
    sk = STORE_OF[store]
    cd, conf = cs.STORES[sk]
    sq = ls.Squid(ctx, 'tmpl-' + store, cs.squid_port_base(ctx.pid, -1), cache_dir=cd, conf=conf)
    sq.write_conf()
    sq._chown()
    sq.init_cache()
    return sq.cache_path, sq.dir


ASSUME = [
    'the real ASan squid binary (-N, cache_mem 0) under the lock-step/virtual-time shim; the driver plays client and origin; shutdown is SIGTERM with shutdown_lifetime 1 s of virtual time',
    'every history uses its own pair of URLs; batched histories share one instance lifetime, isolated ones are separated by a clean restart; a violating history is re-run alone on a fresh directory before it is reported',
    '"completely stored" is observed, not assumed: the URL was served as a disk hit with the right bytes immediately before the shutdown (entries displaced earlier, e.g. by a rock anchor collision, are thereby excluded as evicted)',
    'aufs/diskd are not run (same UFSSwapDir/rebuild code as ufs, different I/O strategy)',
]
RULE = ('one case = (mode, store, history): a sequence of operations over {S1,S3,O,P} x {u1,u2}, then clean shutdown, restart, probe; non-trivial = '
        'histories after which the reference map holds at least one completely stored, not purged URL (so the restart oracle compared bytes)')


def run(ctx):
    ls.build_squid(ctx)
    pl = plan(ctx)
    only = os.environ.get('VERIF_C17_STORES')      # development aid
    listed = {f.get('key') for f in load_findings().get('findings', []) if f.get('property') == ctx.pid}
    stores = sorted({s for m in pl.values() for s in m if not only or s in only.split(',')})
    tmpl = {}
    tdirs = []
    for s in stores:
        tmpl[s], d = make_template(ctx, s)
        tdirs.append(d)
    # work items: (mode, store, groups) - isolated chains first (they cost the most), dealt round-robin to shards
    items = []
    total = 0
    for mode in ('isolated', 'batched'):
        for s, hs in sorted(pl[mode].items()):
            if s not in stores:
                continue
            ids = list(enumerate(hs))
            total += len(ids)
            if mode == 'isolated':
                n = ctx.ncpu * (1 if ctx.quick else 3)
                for i in range(n):
                    part = ids[i::n]
                    if part:
                        items.append((mode, s, [[x] for x in part]))
            else:
                per = BATCH
                for i in range(0, len(ids), per):
                    items.append((mode, s, [ids[i:i + per]]))
    t_end = ctx.t0 + ctx.deadline_s

    def worker(shard, its):
        res = {'done': [], 'deadline_hit': False, 'starts': 0, 'replays': 0, 'anomalies': [], 'kicks': 0, 'violations': []}
        per_start = [6.0]
        confirmed = set()
        for n, (mode, store, groups) in enumerate(its):
            if len(confirmed) >= 10:
                # enough distinct violations to report; do not spend the tier on replays
                res['deadline_hit'] = True
                break
            need = per_start[0] * 2 * 1.3 + 10
            if time.time() + need > t_end:
                res['deadline_hit'] = True
                continue
            t = time.time()
            r = run_groups(ctx, shard, store, tmpl[store], groups, t_end=t_end)
            if r['incomplete']:
                res['deadline_hit'] = True
            per_start[0] = max(per_start[0], (time.time() - t) / max(1, r['starts']))
            res['starts'] += r['starts']
            res['kicks'] += r['kicks']
            res['anomalies'] += r['anomalies'][:5]
            if n == 0 and shard < 2 and not r['incomplete']:
                r2 = run_groups(ctx, shard, store, tmpl[store], groups, t_end=t_end)
                res['replays'] += 1
                res['starts'] += r2['starts']
                if r2['incomplete']:
                    res['deadline_hit'] = True
                elif r2['transcript'] != r['transcript']:
                    raise HarnessError('nondeterminism: %s %s work item gave different post-restart observations on two runs' % (mode, store))
            for hid, hr in sorted(r['results'].items()):
                vs = []
                keys = sorted(k for k, _ in hr['violations'])
                if keys and not all(k in confirmed for k in keys):
                    # replay before report: the history alone on a fresh directory, twice (once for recorded findings)
                    reps = 1 if all(k in listed for k in keys) else 2
                    same = True
                    for _ in range(reps):
                        a = run_groups(ctx, shard, store, tmpl[store], [[(hid, hr['hist'])]])
                        res['replays'] += 1
                        res['starts'] += a['starts']
                        same = same and sorted(k for k, _ in a['results'][hid]['violations']) == keys
                    if same:
                        confirmed.update(keys)
                    else:
                        # depends on what ran before it in the same directory: re-run the whole work item
                        rb = run_groups(ctx, shard, store, tmpl[store], groups)
                        res['replays'] += 1
                        res['starts'] += rb['starts']
                        if sorted(k for k, _ in rb['results'][hid]['violations']) != keys:
                            raise HarnessError('violation of history [%s] on %s is not reproducible' % (hist_str(hr['hist']), store))
                        upto = []
                        for g in groups:
                            upto.append([hh for _, hh in g])
                            if any(i == hid for i, _ in g):
                                break
                        vs = [(k + ':context-dependent', '%s (%s), history [%s] after other histories in the same directory: %s' % (store, mode, hist_str(hr['hist']), w),
                               {'store': store, 'groups': upto, 'history': hr['hist']}) for k, w in hr['violations']]
                if keys and not vs:
                    vs = [(k, '%s, history [%s] then clean shutdown and restart: %s' % (store, hist_str(hr['hist']), w),
                           {'store': store, 'history': hr['hist']}) for k, w in hr['violations']]
                res['violations'] += vs
                res['done'].append({'mode': mode, 'store': store, 'hist': hr['hist'], 'expected': hr['expected'], 'viol': [k for k, _, _ in vs],
                                    'purged_hits': hr['purged_hits']})
        return res
    try:
        parts = ls.run_sharded(ctx, worker, items)
    finally:
        for d in tdirs:
            shutil.rmtree(d, ignore_errors=True)
    parts = [p for p in parts if p]
    done = [d for p in parts for d in p['done']]
    vio = [Violation(k, w, rp) for p in parts for k, w, rp in p['violations']]
    anomalies = [a for p in parts for a in p['anomalies']]
    nontrivial = sum(1 for d in done if d['expected'])
    expected = sum(d['expected'] for d in done)
    purged_hits = sum(d['purged_hits'] for d in done)
    if done and not vio and (nontrivial < len(done) // 3 or expected < nontrivial):
        raise HarnessError('vacuity guard: only %d of %d histories left a completely stored entry' % (nontrivial, len(done)))
    if len(anomalies) > max(20, len(done) // 10):
        # the reference model and squid disagreed before the restart (not C17's subject, but it weakens the run)
        raise HarnessError('reference model and squid disagree in-life too often (%d): %r' % (len(anomalies), anomalies[:3]))
    step = max(1, len(done) // 6)
    samples = [{'mode': d['mode'], 'store': d['store'], 'history': hist_str(d['hist']), 'urls_expected_after_restart': d['expected'],
                'violations': d['viol']} for d in done[::step][:6]]
    samples += [{'mode': d['mode'], 'store': d['store'], 'history': hist_str(d['hist']), 'urls_expected_after_restart': d['expected'],
                 'violations': d['viol']} for d in done if d['viol']][:2]
    obs = []
    if purged_hits:
        obs.append('%d URLs that the model does not hold (purged, or not a disk hit before the shutdown) were nevertheless served as hits with consistent bytes after '
                   'the restart (allowed by C17; rock does not erase the slots of purged entries)' % purged_hits)
    obs += ['in-life disagreement (entry displaced before the shutdown, e.g. rock anchor collision): ' + a for a in anomalies[:4]]
    per = {}
    for d in done:
        ps = per.setdefault('%s/%s' % (d['mode'], d['store']), {'histories': 0, 'with_expected_urls': 0, 'violating': 0})
        ps['histories'] += 1
        ps['with_expected_urls'] += 1 if d['expected'] else 0
        ps['violating'] += 1 if d['viol'] else 0
    cov = {'evaluations': len(done), 'distinct_nontrivial': nontrivial, 'rule': RULE, 'samples': samples,
           'exhaustive': len(done) == total and not any(p['deadline_hit'] for p in parts),
           'histories_total': total, 'alphabet': ['%s(u%d)' % a for a in ALPHABET],
           'spaces': ('quick: isolated rock = all histories of length <= 2 over both URLs + all of length 3 over one URL; batched rock+ufs = all of length <= 3'
                      if ctx.quick else
                      'thorough: isolated rock = all histories of length <= 3 over both URLs + all of length 4 over one URL; batched rock+ufs = all of length <= 4'),
           'urls_compared_after_restart': expected, 'per_mode_and_store': per,
           'squid_starts': sum(p['starts'] for p in parts), 'kicks': sum(p['kicks'] for p in parts),
           'determinism_and_violation_replays': sum(p['replays'] for p in parts), 'batch_size_max': BATCH,
           'in_life_disagreements': len(anomalies), 'hits_for_urls_outside_the_map': purged_hits}
    return Result(LEVEL, cov, vio, ASSUME, obs)


def replay(ctx, data):
    ls.build_squid(ctx)
    store = data['store']
    t, d = make_template(ctx, store)
    target = [tuple(x) for x in data['history']]
    try:
        gl = data.get('groups') or [[data['history']]]
        groups = []
        hid = 0
        for g in gl:
            gg = []
            for h in g:
                gg.append((hid, [tuple(x) for x in h]))
                hid += 1
            groups.append(gg)
        r = run_groups(ctx, 0, store, t, groups, dump=(hid == 1))
    finally:
        shutil.rmtree(d, ignore_errors=True)
    vio = []
    for hid, hr in r['results'].items():
        print('[%s] ->' % hist_str(hr['hist']), hr['violations'] or 'ok')
        if hr['hist'] == target:
            for k, w in hr['violations']:
                vio.append(Violation(k + (':context-dependent' if data.get('groups') else ''), w, data))
    print(r['transcript'])
    return Result(LEVEL, {}, vio, ASSUME)
