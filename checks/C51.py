"""C51 Bounded LRU/TTL map behaves like its specification — E1, explicit-state BFS over ClpMap operation sequences."""
from vverif import seq
from vverif.core import Result, HarnessError

LEVEL = 'model_checking'
RULE = ('one real ClpMap<std::string, value-with-declared-size> (initial capacity: room for 2 small entries, default TTL 5) vs a '
        'reference list model; every sequence of <= D operations (D = 6 quick, 8 thorough) from: add(k, small|big, ttl) for k in '
        '{a,b,c} x ttl in {-1,0,1,10} (big = costs 2 units), add with the default TTL, get(k), del(k), setMemLimit in '
        '{0, 1, 1 unit, 2 units, 2 units+1, 3 units}, clock advance by {1,2,11}; after every step get/add results, '
        'memoryUsed() <= memLimit(), memoryUsed() and entries() are compared with the reference; on every distinct state also '
        'memLimit, freeMem, the traversal (as a set) and the sum of accounted sizes')
ASSUME = ['src/base/ClpMap.h of the scratch copy of the current tree compiled into the harness (header-only), testClpMap link set, '
          'squid_curtime owned by the harness',
          'reference = the documented policies: expired entries are hidden and dropped when touched; capacity victims are purged '
          'strictly from the least-recently-used end (expired entries are not preferred); a rejected add (negative TTL, too '
          'big) still removes the old entry of that key, but add on a zero-capacity map changes nothing',
          'entry cost = key length + declared value size + a constant measured on the real map at start-up',
          'canonical state drops the absolute clock (expiry is kept relative to now, everything already expired is -1: the clock '
          'is monotonic and far from overflow), hash-bucket layout and pool statistics; it includes LRU order, values, accounted '
          'sizes, index->entry mapping, limit, used, default TTL and the value-generation bit of the harness']


def _build(ctx):
    return seq.build(ctx, 'tests/testClpMap', ['C51_clpmap.cc'])


def _result(ctx, m):
    c = m['counters']
    viol = seq.violations_from(m)
    harness = [v for v in viol if v.key.startswith('HARNESS:')]
    if harness:
        raise HarnessError('%s: %s' % (harness[0].key, harness[0].what[:500]))
    depth = 0
    while c.get('shards_done_depth_%d' % (depth + 1), 0) == ctx.ncpu:
        depth += 1
    if not viol:
        for k, least in (('get_hits', 100), ('get_misses', 100), ('get_on_expired', 100), ('adds_accepted', 100), ('adds_rejected', 100),
                         ('adds_replacing_an_entry', 100), ('adds_that_purged_lru', 100), ('limit_changes_that_purged', 100),
                         ('states_full', 50), ('states_holding_expired_entry', 50)):
            if c.get(k, 0) < least:
                raise HarnessError('vacuity guard: %s=%s < %s' % (k, c.get(k, 0), least))
        if depth < 2 and not m['deadline_hit']:
            raise HarnessError('no depth completed')
    states = c.get('states_interior', 0) + c.get('states_leaf', 0)
    trans = c.get('transitions_interior', 0) + c.get('transitions_partitioned', 0)
    cov = {
        'states': states, 'transitions': trans, 'traces_validated_against_impl': trans,
        'states_interior_distinct': c.get('states_interior', 0),
        'states_leaf_distinct_per_shard_sum': c.get('states_leaf', 0),
        'states_observed_with_full_battery': c.get('states_observed', 0),
        'bound_completed': 'all sequences of <= %d operations from the alphabet of %d operations' % (depth, c.get('ops_in_alphabet', 0)),
        'depth_completed': depth,
        'rule': RULE, 'samples': [s for s in m['samples'] if s != 'bfs'][:8] or m['samples'],
        'exhaustive': not m['deadline_hit'], 'deadline_hit': m['deadline_hit'],
        'counters': c, 'outcome_classes': m['outcomes'],
    }
    return Result(LEVEL, cov, viol, ASSUME)


def run(ctx):
    exe = _build(ctx)
    return _result(ctx, seq.run(ctx, exe))


def replay(ctx, data):
    exe = _build(ctx)
    m = seq.replay_case(ctx, exe, data['case'])
    m.setdefault('deadline_hit', False)
    viol = seq.violations_from(m)
    if not viol and not m['outcomes']:
        raise HarnessError('replay descriptor did not run: %r' % data['case'])
    return Result(LEVEL, {}, viol, ASSUME)
