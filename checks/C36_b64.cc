// C36 — Base64 coding and Basic credential splitting (E1).
// Real code:
//  * lib/base64.cc of the current tree (compiled in C36_tree.cc with HAVE_NETTLE_BASE64_H undefined),
//  * the base64 implementation the configured build links (libnettle when HAVE_NETTLE_BASE64_H; same API),
//  * Auth::Basic::Config::decode / decodeCleartext (src/auth/basic/Config.cc) with the real Auth::User,
//    Auth::Basic::User, UserRequest and CredentialsCache objects, recompiled from the current tree.
#include "squid.h"
#include "base64.h"
#include "auth/basic/Config.h"
#include "auth/basic/User.h"
#include "auth/basic/UserRequest.h"
#include "auth/UserRequest.h"
#include "auth/User.h"
#include "mem/forward.h"

#include "vharness.h"
#include <string>
#include <vector>
#include <cstring>

#if HAVE_NETTLE_BASE64_H
#define C36_IMPL "configured-libnettle"
#else
#define C36_IMPL "configured-lib-base64"
#endif
#include "C36_codec.inc"

void c36_tree_roundtrip(const std::string &raw, bool allSplits);
const char *c36_tree_decode_text(const std::string &text);
void c36_tree_counters(uint64_t &enc, uint64_t &dec);

namespace {

uint64_t nBasic = 0, nTexts = 0;

std::string latin1ToUtf8(const std::string &s) {
    std::string o;
    for (unsigned char c : s) {
        if (c < 0x80) o += (char)c;
        else { o += (char)(0xC0 | (c >> 6)); o += (char)(0x80 | (c & 0x3F)); }
    }
    return o;
}

struct BasicOut { bool haveUser = false; bool haveName = false; std::string name; bool havePass = false; std::string pass; };

BasicOut basicDecode(Auth::Basic::Config &cfg, const std::string &header, const char *realm) {
    ++nBasic;
    BasicOut o;
    // the header value lives in an exact heap block (C string): over-reads are caught by ASan
    char *h = (char *)malloc(header.size() + 1);
    memcpy(h, header.c_str(), header.size() + 1);
    Auth::UserRequest::Pointer ur = cfg.decode(h, nullptr, realm);
    free(h);
    if (ur == nullptr) return o;
    Auth::User::Pointer u = ur->user();
    if (u == nullptr) return o;
    o.haveUser = true;
    if (u->username()) { o.haveName = true; o.name = u->username(); }
    if (const auto *bu = dynamic_cast<const Auth::Basic::User *>(u.getRaw())) {
        if (bu->passwd) { o.havePass = true; o.pass = bu->passwd; }
    }
    return o;
}

// the oracle for a header whose credentials text (after scheme and white space) decodes to `clear`
// cls: rcValid => must be decoded; rcLenient => may be rejected; returns outcome class
const char *checkBasic(Auth::Basic::Config &cfg, const std::string &header, const char *realm, RefClass cls, std::string clear, const std::string &what) {
    const BasicOut o = basicDecode(cfg, header, realm);
    if (V::S().ctx.shard % 3 == 0 && (nBasic % 9001) == 17)
        V::sample("Basic::decode(\"" + V::esc(header) + "\", casesensitive=" + std::to_string(cfg.casesensitive) + ") -> " + (o.haveUser ? "user \"" + V::esc(o.name) + "\" password " + (o.havePass ? "\"" + V::esc(o.pass) + "\"" : "(none)") : std::string("no user")) + " [" + what + "]");
    const std::string ctx = "Basic decode of \"" + V::esc(header) + "\" (casesensitive=" + std::to_string(cfg.casesensitive) + ", utf8=" + std::to_string(cfg.utf8) + ", realm=" + (realm ? realm : "none") + ", " + what + ")";
    if (cls == rcMalformed) {
        if (o.haveUser) {
            V::failKey("basic:malformed-base64-accepted:" + clear, ctx + " produced user \"" + V::esc(o.name) + "\" although the base64 text is malformed: " + clear);
            return "basic:malformed-ACCEPTED";
        }
        return "basic:malformed-rejected";
    }
    if (clear.find('\0') != std::string::npos) return "basic:skipped-nul";
    const bool crlf = clear.find_first_of("\r\n") != std::string::npos;
    if (!o.haveUser) {
        if (cls == rcValid && !crlf) { V::failKey("basic:valid-credentials-rejected", ctx + " produced no user"); return "basic:valid-REJECTED"; }
        return crlf ? "basic:crlf-rejected" : "basic:lenient-rejected";
    }
    if (cfg.utf8) {
        // valid UTF-8 over the enumerated alphabet <=> no lone 0xE9 byte (the only other high bytes form C3 A9)
        bool valid = true;
        for (size_t i = 0; i < clear.size(); ++i) {
            const unsigned char c = clear[i];
            if (c < 0x80) continue;
            if (c == 0xC3 && i + 1 < clear.size() && (unsigned char)clear[i+1] == 0xA9) { ++i; continue; }
            valid = false;
        }
        if (!valid) clear = latin1ToUtf8(clear);
    }
    const size_t colon = clear.find(':');
    std::string user = colon == std::string::npos ? clear : clear.substr(0, colon);
    const bool wantPass = colon != std::string::npos;
    const std::string pass = wantPass ? clear.substr(colon + 1) : "";
    if (!cfg.casesensitive) for (auto &c : user) if (c >= 'A' && c <= 'Z') c = c - 'A' + 'a';
    if (!o.haveName || o.name != user) {
        V::failKey("basic:user-name-is-not-the-text-before-the-first-colon", ctx + ": user name \"" + V::esc(o.name) + "\", expected \"" + V::esc(user) + "\"");
        return "basic:WRONG-USER";
    }
    if (pass.empty()) {      // absent or empty password: Squid documents that it drops empty passwords
        if (o.havePass && !o.pass.empty()) { V::failKey("basic:password-invented", ctx + ": password \"" + V::esc(o.pass) + "\" but none was sent"); return "basic:WRONG-PASS"; }
        return wantPass ? "basic:user-with-empty-password" : "basic:user-without-password";
    }
    if (!o.havePass || o.pass != pass) {
        V::failKey("basic:password-is-not-the-text-after-the-first-colon", ctx + ": password \"" + V::esc(o.havePass ? o.pass : "(none)") + "\", expected \"" + V::esc(pass) + "\"");
        return "basic:WRONG-PASS";
    }
    return clear.find(':', colon + 1) != std::string::npos ? "basic:user-and-password-with-colon" : "basic:user-and-password";
}

void basicConfigs(const std::function<void(Auth::Basic::Config &, const char *)> &f) {
    static Auth::Basic::Config *cfg = nullptr;
    if (!cfg) cfg = new Auth::Basic::Config;
    for (int cs = 0; cs < 2; ++cs)
        for (int u8 = 0; u8 < 2; ++u8)
            for (int r = 0; r < 2; ++r) {
                cfg->casesensitive = cs;
                cfg->utf8 = u8;
                f(*cfg, r ? "realm1" : nullptr);
            }
}

// cleartext credentials -> all header spellings x all configurations
void basicCleartextCase(const std::string &clear) {
    const std::string b64 = refEncode(clear);
    static const char *pre[] = {"Basic ", "basic  ", "BASIC\t "};
    static const char *suf[] = {"", "\n", " "};
    basicConfigs([&](Auth::Basic::Config &cfg, const char *realm) {
        for (int p = 0; p < 3; ++p)
            for (int s = 0; s < 3; ++s) {
                if (p && s) continue;
                V::outcome(checkBasic(cfg, std::string(pre[p]) + b64 + suf[s], realm, s == 2 ? rcLenient : rcValid, clear, "credentials " + V::esc(clear)));
            }
    });
}

// arbitrary (mostly malformed) text after "Basic "
void basicTextCase(const std::string &text) {
    if (text.find('\0') != std::string::npos) return;       // a header value is a C string
    // what decodeCleartext documents: skip white space, then cut at the first LF (strtok semantics)
    size_t b = 0;
    while (b < text.size() && isspace((unsigned char)text[b])) ++b;
    std::string t = text.substr(b);
    const size_t lf = t.find('\n');
    if (lf != std::string::npos) t = t.substr(0, lf);
    const RefDecoded ref = refDecode(t);
    basicConfigs([&](Auth::Basic::Config &cfg, const char *realm) {
        if (cfg.utf8) return;
        V::outcome(checkBasic(cfg, "Basic " + text, realm, ref.cls, ref.cls == rcMalformed ? std::string(ref.why) : ref.bytes, std::string("base64 text class: ") + (ref.cls == rcMalformed ? "malformed" : ref.cls == rcValid ? "valid" : "lenient")));
    });
}

void bothRoundTrip(const std::string &raw, bool allSplits) {
    if (V::S().ctx.shard % 3 == 2 && raw.size() >= 2 && raw.size() <= 5 && ((unsigned char)raw[0] * 7 + raw.size()) % 61 == 3)
        V::sample("encode(" + V::esc(raw) + ") = \"" + implEncode(raw, 1) + "\" (cut after 1 octet), decodes back at every cut of the text");
    codecRoundTrip(raw, allSplits);
    c36_tree_roundtrip(raw, allSplits);
}

std::string pattern(size_t len, unsigned k) {
    std::string s(len, '\0');
    for (size_t i = 0; i < len; ++i)
        s[i] = k == 0 ? (char)((i * 37 + len * 11 + 5) & 255) : k == 1 ? '\0' : k == 2 ? (char)0xFF : (char)((i * i + 3 * i + len) >> 1 & 255);
    return s;
}

void body(V::Ctx &ctx)
{
    const bool quick = ctx.quick();
    Mem::Init();

    // ---- (a) round trip of every byte string up to length 3 (quick: length 3 over 40 byte values)
    std::vector<int> sub;
    for (int i = 0; i < 256; ++i)
        if (!quick || i < 6 || i >= 250 || (i % 9) == 0 || i == '=' || i == '/' || i == '+' || i == ':' || i == 0x7f || i == 0x80) sub.push_back(i);
    uint64_t nrt = 0;
    if (V::begin_case("rt:len0")) { bothRoundTrip("", true); ++nrt; V::end_case(); }
    for (int a = 0; a < 256; ++a) {
        char d[32]; snprintf(d, sizeof d, "rt:len1-2:first=%02x", a);
        if (!V::begin_case(d)) continue;
        bothRoundTrip(std::string(1, (char)a), true); ++nrt;
        for (int b = 0; b < 256; ++b) { const char s[2] = {(char)a, (char)b}; bothRoundTrip(std::string(s, 2), true); ++nrt; }
        V::end_case();
    }
    for (int a : sub)
        for (int b : sub) {
            char d[40]; snprintf(d, sizeof d, "rt:len3:first=%02x%02x", a, b);
            if (!V::begin_case(d)) continue;
            for (int c : sub) { const char s[3] = {(char)a, (char)b, (char)c}; bothRoundTrip(std::string(s, 3), true); ++nrt; }
            V::end_case();
        }
    // ---- (b) longer strings: every length 4..300 (quick) / 4..1100 (thorough) in 4 byte patterns, all 2-piece splits up to 64,
    //          and 8 KB strings with every (thorough) or every 17th (quick) split point
    const size_t maxLen = quick ? 300 : 1100;
    for (size_t len = 4; len <= maxLen; ++len) {
        char d[32]; snprintf(d, sizeof d, "rt:len=%zu", len);
        if (!V::begin_case(d)) continue;
        for (unsigned k = 0; k < 4; ++k) { bothRoundTrip(pattern(len, k), len <= 64); ++nrt; }
        V::end_case();
    }
    for (size_t len : {8191u, 8192u, 8193u})
        for (unsigned k = 0; k < (quick ? 1u : 4u); ++k) {
            char d[48]; snprintf(d, sizeof d, "rt:len=%zu:pattern=%u", len, k);
            if (!V::begin_case(d)) continue;
            bothRoundTrip(pattern(len, k), !quick); ++nrt;
            V::end_case();
        }
    V::S().outcomes["codec:roundtrip"] += nrt;

    // ---- (c) arbitrary text over a 12-symbol alphabet: up to length 5 (quick) / 6 (thorough), every 2-piece split, both implementations;
    //          the same text (NUL-free, up to length 4 / 5) as the credentials of a Basic header
    static const char alpha[] = {'A', 'Q', 'B', '/', '+', '=', '-', '_', ' ', '\n', '\0', (char)0x80};
    const int NA = 12;
    const int L = quick ? 5 : 6;
    for (int len = 0; len <= L; ++len) {
        const int fixed = len < 2 ? len : 2;                 // the first two symbols name the case
        std::vector<int> idx(len, 0);
        for (;;) {
            std::string prefix;
            for (int i = 0; i < fixed; ++i) prefix += alpha[idx[i]];
            if (V::begin_case("txt:len=" + std::to_string(len) + ":prefix=" + V::esc(prefix))) {
                std::vector<int> rest(len - fixed, 0);
                for (;;) {
                    std::string s = prefix;
                    for (int i : rest) s += alpha[i];
                    const char *c1 = codecDecodeText(s);
                    const char *c2 = c36_tree_decode_text(s);
                    V::outcome(std::string(C36_IMPL ":") + c1);
                    V::outcome(std::string("tree-lib-base64:") + c2);
                    if (V::S().ctx.shard % 3 == 1 && ((++nTexts % 5003) == 11 || (c2[0] != 'm' && nTexts % 37 == 0)))
                        V::sample("decode(\"" + V::esc(s) + "\") at every cut: lib/base64.cc " + c2 + ", " C36_IMPL " " + c1);
                    if (len <= L - 1) basicTextCase(s);
                    int k = (int)rest.size() - 1;
                    while (k >= 0 && ++rest[k] == NA) { rest[k] = 0; --k; }
                    if (k < 0) break;
                }
                V::end_case();
            }
            int k = fixed - 1;
            while (k >= 0 && ++idx[k] == NA) { idx[k] = 0; --k; }
            if (k < 0) break;
        }
    }

    // ---- (d) Basic credentials: every string of up to 5 (quick) / 6 (thorough) tokens over
    //          {u, S, :, p, SP, 0xE9, "é" in UTF-8, LF} as the cleartext, 5 header spellings x casesensitive x utf8 x realm
    static const char *toks[] = {"u", "S", ":", "p", " ", "\xe9", "\xc3\xa9", "\n"};
    const int NT = 8;
    const int LC = quick ? 5 : 6;
    for (int len = 0; len <= LC; ++len) {
        const int fixed = len < 2 ? len : 2;
        std::vector<int> idx(len, 0);
        for (;;) {
            std::string prefix;
            for (int i = 0; i < fixed; ++i) prefix += toks[idx[i]];
            if (V::begin_case("cred:len=" + std::to_string(len) + ":prefix=" + V::esc(prefix))) {
                std::vector<int> rest(len - fixed, 0);
                for (;;) {
                    std::string s = prefix;
                    for (int i : rest) s += toks[i];
                    basicCleartextCase(s);
                    int k = (int)rest.size() - 1;
                    while (k >= 0 && ++rest[k] == NT) { rest[k] = 0; --k; }
                    if (k < 0) break;
                }
                V::end_case();
            }
            int k = fixed - 1;
            while (k >= 0 && ++idx[k] == NT) { idx[k] = 0; --k; }
            if (k < 0) break;
        }
    }
    // the classic examples
    if (V::begin_case("cred:examples")) {
        for (const char *c : {"Aladdin:open sesame", "user:pass:word", ":onlypass", "onlyuser", "onlyuser:", "a::", "::", "UsEr:PaSs", "x:y\r"})
            basicCleartextCase(c);
        V::end_case();
    }

    uint64_t e = 0, d = 0;
    c36_tree_counters(e, d);
    V::count("encode_calls", nEncodeCalls + e);
    V::count("decode_calls", nDecodeCalls + d);
    V::count("basic_decode_calls", nBasic);
}

} // namespace

VHARNESS_MAIN(body)
