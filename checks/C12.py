"""C12 Stale responses are not served without revalidation — E3, bounded input/history product on the virtual clock.

One client + one origin around the real squid binary (lock-step shim, virtual time, memory cache on, no
refresh_pattern lines, i.e. default refresh rules).  Every case uses its own URL:

  t0        request 1; the origin answers 200 with the case's freshness information (lifetime source, N, Date
            skew, Age, must-revalidate) -- the store attempt
  t0 + adv  (the driver advances Squid's clock) request 2 with the case's Cache-Control
  [thorough histories: one more clock advance and a request 3; the origin answers revalidations with 304]

Oracle = an RFC 9111 age/lifetime calculator written here from the case spec (never Squid's opinion):
lifetime L = s-maxage, else max-age, else Expires - Date; initial age = max(now - Date, Age, 0); current age =
initial age + resident time.  Whenever the statement requires contacting the origin -- current age >= L + 2 s and
no client max-stale covering the staleness (must-revalidate cancels max-stale), or the request carries
max-age=0 / no-cache -- the origin must have received a request for the URL before the client gets the first
byte of its answer.  Nothing is asserted for fresh entries or inside the 2 s margin around the boundary.
"""
import re
import time

from vverif import lockstep as ls
from vverif.core import Result, Violation, HarnessError

LEVEL = 'exploration'
BIG = 86400
MARGIN = 2

SOURCES = ['max-age', 's-maxage', 'expires', 's-maxage+max-age-big', 'max-age+expires-big']
CC2_Q = ['', 'max-age=0', 'no-cache', 'max-stale', 'max-stale=5']
CC2_T = CC2_Q + ['Max-Age=0', 'NO-CACHE', 'max-stale, max-age=0', 'max-stale=5, no-cache', 'max-stale=2000', 'max-age=0, max-stale=100000']
ADV = ['b-2', 'b+2', 'b+8', 'b+1000']
ADV_T = ADV + ['b+60']


def all_cases(tier):
    cases = []
    n = [0]

    def add(**kw):
        n[0] += 1
        c = {'n': n[0], 'kind': 'product', 'src': 'max-age', 'N': 60, 'skew': 0, 'age': None, 'mr': False, 'adv': 'b+2',
             'cc2': '', 'lm': True, 'hist': None}
        c.update(kw)
        cases.append(c)

    quick = tier == 'quick'
    Ns = [0, 1, 60] if quick else [0, 1, 5, 60, 3600]
    skews = [0, -30, 30] if quick else [0, -30, 30, -3600]
    ages = [None, 10] if quick else [None, 10, 100]
    cc2s = CC2_Q if quick else CC2_T
    for src in SOURCES:
        for N in Ns:
            for skew in skews:
                for age in ages:
                    for mr in (False, True):
                        for adv in (ADV if quick else ADV_T):
                            for cc2 in cc2s:
                                add(src=src, N=N, skew=skew, age=age, mr=mr, adv=adv, cc2=cc2)
    if not quick:
        # without Last-Modified (Squid then refuses to store short-lived responses; the oracle is the same)
        for src in SOURCES:
            for N in (0, 60, 3600):
                for mr in (False, True):
                    for adv in ADV:
                        for cc2 in CC2_Q:
                            add(kind='no-lm', src=src, N=N, mr=mr, adv=adv, cc2=cc2, lm=False)
        # Date far in the past (more than a day): stale on arrival by any reading of "relative to Date"
        for src in ('max-age', 'expires', 's-maxage'):
            for N in (60, 3600):
                for mr in (False, True):
                    for adv in ('a0', 'a30'):
                        for cc2 in ('', 'max-stale=5'):
                            add(kind='old-date', src=src, N=N, skew=-90000, mr=mr, adv=adv, cc2=cc2)
        # three-request histories: gaps relative to the lifetime, revalidations answered with 304 (same version,
        # new Date => the lifetime restarts) or 200 (new version)
        for src in ('max-age', 's-maxage', 'expires'):
            for N in (1, 60):
                for mr in (False, True):
                    for g1 in ('fresh', 'stale'):
                        for g2 in ('fresh', 'stale', 'far'):
                            for reval in ('304', '200'):
                                for cc3 in ('', 'max-stale=5', 'max-age=0'):
                                    add(kind='history', src=src, N=N, mr=mr, adv=g1, cc2='', hist={'g2': g2, 'reval': reval, 'cc3': cc3})
    return cases


# ---------------------------------------------------------------- reference model (RFC 9111 4.2)

def resp_headers(case, now_us, version):
    """Header lines of the origin's 200 response for this case, sent at virtual time now_us."""
    N = case['N']
    date_s = now_us // 1_000_000 + case['skew']
    h = ['Date: ' + ls.http_date(date_s * 1_000_000)]
    cc = []
    src = case['src']
    if src == 'max-age':
        cc.append('max-age=%d' % N)
    elif src == 's-maxage':
        cc.append('s-maxage=%d' % N)
    elif src == 's-maxage+max-age-big':
        cc += ['max-age=%d' % BIG, 's-maxage=%d' % N]
    elif src == 'max-age+expires-big':
        cc.append('max-age=%d' % N)
        h.append('Expires: ' + ls.http_date((date_s + BIG) * 1_000_000))
    elif src == 'expires':
        h.append('Expires: ' + ls.http_date((date_s + N) * 1_000_000))
    if case['mr']:
        cc.append('must-revalidate')
    if cc:
        h.append('Cache-Control: ' + ', '.join(cc))
    if case['age'] is not None:
        h.append('Age: %d' % case['age'])
    if case['lm']:
        h.append('Last-Modified: ' + ls.http_date((T_LM + version) * 1_000_000))
    h.append('ETag: "v%d-%d"' % (case['n'], version))
    return h


T_LM = ls.T0_US // 1_000_000 - 40 * 86400


def initial_age(case):
    return max(0, -case['skew'], case['age'] or 0)


def cc_directives(cc):
    out = {}
    for item in cc.split(','):
        item = item.strip()
        if not item:
            continue
        k, _, v = item.partition('=')
        out[k.strip().lower()] = v.strip()
    return out


def must_contact(case, resident_s, cc):
    """(required?, reason) for a request with Cache-Control `cc` arriving resident_s seconds after the most
    recent origin response for the URL was received."""
    d = cc_directives(cc)
    if 'no-cache' in d:
        return True, 'request no-cache'
    if d.get('max-age') == '0':
        return True, 'request max-age=0'
    L = case['N']
    age = initial_age(case) + resident_s
    staleness = age - L
    if staleness < MARGIN:
        return False, 'fresh-or-margin(age %d, lifetime %d)' % (age, L)
    if case['mr']:
        return True, 'stale by %d s and must-revalidate' % staleness
    if 'max-stale' in d:
        if d['max-stale'] == '':
            return False, 'stale by %d s but client max-stale' % staleness
        if staleness <= int(d['max-stale']) + MARGIN:
            return False, 'stale by %d s but client max-stale=%s (or inside margin)' % (staleness, d['max-stale'])
    return True, 'stale by %d s (age %d >= lifetime %d)' % (staleness, age, L)


def advance_s(case, which):
    boundary = case['N'] - initial_age(case)       # resident seconds at which age == lifetime
    if which == 'b-2':
        return max(0, boundary - 2)
    if which == 'b+2':
        return max(0, boundary + 2)
    if which in ('b+8', 'b+60', 'b+1000'):
        return max(0, boundary + int(which[2:]))
    if which == 'a0':
        return 0
    if which == 'a30':
        return 30
    if which == 'fresh':
        return max(0, boundary - 2) if case['N'] > 5 else 0
    if which == 'stale':
        return max(0, boundary + 3)
    if which == 'far':
        return max(0, boundary + 5000)
    raise HarnessError('bad advance ' + which)


# ---------------------------------------------------------------- driving

def _start_with_retries(sq, attempts=4):
    """Instance start-up is bounded by a 60 s real-time limit in lockstep.wait_ready; on an overloaded machine
    (ASan start-up + squid -z) that limit is occasionally exceeded.  A failed start is machinery, so retry it."""
    for i in range(attempts):
        try:
            return sq.start()
        except HarnessError as e:
            if i == attempts - 1 or not re.search(r'not ready after|exited during start-up|squid -z failed|watchdog', str(e)):
                raise
            sq.kill()
            time.sleep(2 + 3 * i)


class RetryWorld(ls.World):
    def start(self):
        _start_with_retries(self.sq)
        return self


def make_world(ctx, shard):
    return RetryWorld(ctx, 'w%d' % shard, ls.port_base_for_check(ctx.pid, shard), memory_cache=True)


class Origin:
    """Per-case origin behaviour: numbered versions, conditional requests answered 304 (if asked to) when the
    validator matches the current version."""

    def __init__(self, w, case):
        self.w, self.case = w, case
        self.version = 0
        self.arrivals = []          # (virtual second, conditional?, answer)
        self.last_response_s = None
        self.version_time = {}      # version -> virtual second of the last origin response that carried / revalidated it
        self.reval = (case['hist'] or {}).get('reval', '200')

    def __call__(self, m):
        now = self.w.sq.now_us
        inm = m.get('if-none-match')
        ims = m.get('if-modified-since')
        cond = inm is not None or ims is not None
        cur_etag = '"v%d-%d"' % (self.case['n'], self.version)
        cur_lm = ls.http_date((T_LM + self.version) * 1_000_000)
        matches = self.version > 0 and ((inm is not None and cur_etag in inm) or (inm is None and ims == cur_lm))
        self.last_response_s = now // 1_000_000
        if cond and matches and self.reval == '304':
            self.arrivals.append((now // 1_000_000, True, '304'))
            self.version_time[self.version] = now // 1_000_000
            h = ['HTTP/1.1 304 Not Modified'] + resp_headers(self.case, now, self.version)
            return ('\r\n'.join(h) + '\r\n\r\n').encode('latin1')
        self.version += 1
        self.version_time[self.version] = now // 1_000_000
        self.arrivals.append((now // 1_000_000, cond, '200 v%d' % self.version))
        body = b'c12-%d-v%d' % (self.case['n'], self.version)
        h = ['HTTP/1.1 200 OK'] + resp_headers(self.case, now, self.version) + ['Content-Type: text/plain', 'Content-Length: %d' % len(body)]
        return ('\r\n'.join(h) + '\r\n\r\n').encode('latin1') + body


def fetch(w, request, origin):
    """One transaction; like World.fetch but the client socket is looked at BEFORE the origin's mailbox after
    every settle, so "the client had bytes of its answer while the origin had seen nothing" is observable."""
    ex = ls.Exchange()
    c = w.sq.client()
    c.send(request)
    answered_before_contact = None
    idle = 0
    for step in range(40):
        w.sq.settle()
        got = c.pump()
        if c.inbuf and answered_before_contact is None:
            answered_before_contact = (len(ex.origin_requests) == 0)
        progressed = w._origin_step(origin, ex) or bool(got)
        m = w.httpref.parse_response(c.inbuf, 'GET', eof=c.eof)
        if ((m.complete and not m.error) or c.eof) and not progressed:
            break
        idle = 0 if progressed else idle + 1
        if idle >= 2:
            break
    ex.client_bytes = c.inbuf
    ex.response = w.httpref.parse_response(c.inbuf, 'GET', eof=c.eof)
    c.close()
    w.sq.settle(1)
    w._origin_step(None, ls.Exchange())
    w.close_origin_conns()
    ex.answered_before_contact = bool(answered_before_contact)
    return ex


def request_bytes(w, case, cc):
    req = 'GET %s HTTP/1.1\r\nHost: %s\r\n' % (w.url('/c12/%d' % case['n']), w.hostport())
    if cc:
        req += 'Cache-Control: %s\r\n' % cc
    return (req + '\r\n').encode('latin1')


_DATE_RE = re.compile(r'[A-Z][a-z]{2}, \d{2} [A-Z][a-z]{2} \d{4} \d{2}:\d{2}:\d{2} GMT')


def _relative_dates(text, t0_s):
    """Transcripts are compared between runs that may execute a case at different virtual times (a restart
    after a reported violation shifts the clock): express every HTTP-date relative to the start of the case."""
    import calendar

    def sub(m):
        try:
            t = calendar.timegm(time.strptime(m.group(0), '%a, %d %b %Y %H:%M:%S GMT'))
        except ValueError:
            return m.group(0)
        if abs(t - t0_s) > 20 * 86400:
            return m.group(0)             # the fixed Last-Modified values, far in the past
        return '<T%+ds>' % (t - t0_s)
    return _DATE_RE.sub(sub, text)


def run_case(w, case):
    r = _run_case(w, case, w.sq.now_us // 1_000_000)
    return r


def _run_case(w, case, t0_s):
    origin = Origin(w, case)
    tr = []
    violation = None
    ex1 = fetch(w, request_bytes(w, case, ''), origin)
    tr.append('O1:%s\nC1:%s' % (ex1.origin_raw.decode('latin1'), ex1.client_bytes.decode('latin1')))
    r1 = ex1.response
    if not (r1 and r1.complete and not r1.error and r1.status == 200 and len(origin.arrivals) == 1):
        return {'outcome': 'first-request-not-served', 'violation': None, 'transcript': _relative_dates('\n'.join(tr), t0_s)}
    steps = [(case['adv'], case['cc2'])]
    if case['hist']:
        steps.append((case['hist']['g2'], case['hist']['cc3']))
    outcomes = []
    for i, (adv, cc) in enumerate(steps):
        secs = advance_s(case, adv)
        if secs:
            w.sq.advance(secs * 1000)
        now_s = w.sq.now_us // 1_000_000
        need, why = must_contact(case, now_s - origin.last_response_s, cc)
        before = len(origin.arrivals)
        ex = fetch(w, request_bytes(w, case, cc), origin)
        contacted = len(origin.arrivals) > before
        tr.append('T+%d O%d:%s\nC%d:%s' % (secs, i + 2, ex.origin_raw.decode('latin1'), i + 2, ex.client_bytes.decode('latin1')))
        r = ex.response
        if not (r is not None and r.complete and not r.error):
            outcomes.append('incomplete')
            break
        served_without = (not contacted) or ex.answered_before_contact
        if served_without:
            # judge the version that was actually served (an older version is at least as old as the newest one)
            mv = re.match(rb'^c12-%d-v(\d+)$' % case['n'], r.body)
            if mv and int(mv.group(1)) in origin.version_time:
                need, why = must_contact(case, now_s - origin.version_time[int(mv.group(1))], cc)
        if need:
            cond = contacted and origin.arrivals[before][1]
            outcomes.append('must-contact:' + ('VIOLATED' if served_without else ('revalidated' if cond else 'refetched')))
            if served_without and violation is None:
                violation = ('request %d (Cache-Control: %r, sent %d s after request %d; status %d, body %r) was answered %s '
                             'although %s; the origin\'s response had: %s' % (
                                 i + 2, cc, secs, i + 1, r.status, r.body[:30],
                                 'before the origin was contacted' if contacted else 'without contacting the origin', why,
                                 '; '.join(resp_headers(case, origin.last_response_s * 1_000_000, 0)[:-2])))
        else:
            outcomes.append('free:' + ('contacted' if contacted else 'served-from-cache'))
    return {'outcome': '|'.join(outcomes), 'violation': violation, 'transcript': _relative_dates('\n'.join(tr), t0_s)}


def key_of(case):
    if case['kind'] == 'old-date':
        # one root cause (see docs/checks/C12.md): the whole class shares one key
        return 'old-date:served-as-fresh-although-Date-is-more-than-24h-in-the-past'
    k = '%s:src=%s:N=%d:skew=%d:age=%s:mr=%d:adv=%s:cc2=%s' % (case['kind'], case['src'], case['N'], case['skew'], case['age'],
                                                                  case['mr'], case['adv'], case['cc2'] or '-')
    if case['hist']:
        k += ':g2=%s:reval=%s:cc3=%s' % (case['hist']['g2'], case['hist']['reval'], case['hist']['cc3'] or '-')
    return k


ASSUME = ['the real squid binary (ASan build of the current tree) runs under the lock-step shim; its clock is the driver\'s virtual clock '
          '(clock_gettime/gettimeofday/time interposed), advanced only between requests; default refresh rules (no refresh_pattern)',
          'every case uses its own URL on one reused instance per shard; the origin (driver) counts arrivals, so "contacted the origin" is observed directly',
          'the oracle is an RFC 9111 4.2 age/lifetime calculation from the case specification with a 2 s margin around the boundary; '
          'fresh cases and cases inside the margin assert nothing']
RULE = ('quick: lifetime source {max-age=N, s-maxage=N, Expires=Date+N, s-maxage=N + max-age=86400, max-age=N + Expires=Date+86400} x N {0,1,60} x '
        'origin Date skew {0,-30,+30 s} x Age {absent,10} x must-revalidate {no,yes} x clock advance {boundary-2, boundary+2, boundary+8, boundary+1000 s} x '
        'request-2 Cache-Control {none, max-age=0, no-cache, max-stale, max-stale=5}; thorough adds N {5,3600}, skew -3600, Age 100, advance boundary+60, 6 more request '
        'directive spellings/combinations, responses without Last-Modified, Date 25 h in the past, and three-request histories with 304/200 '
        'revalidation answers; non-trivial = cases in which request 1 was stored-or-forwarded with 200 and every later request got a complete answer')


def build(ctx):
    t = time.time()
    ls.build_squid(ctx)
    waited = time.time() - t
    if waited > 20:
        ctx.deadline_s += waited - 20
    return waited


def run(ctx):
    build_s = build(ctx)
    cases = all_cases(ctx.tier)
    r = ls.run_cases(ctx, cases, run_case, make_world, key_of=key_of, determinism_n=6)
    oc = r['outcomes']
    steps = {}
    for k, v in oc.items():
        for part in k.split('|'):
            steps[part] = steps.get(part, 0) + v
    nontrivial = sum(v for k, v in oc.items() if k.startswith('must-contact') or k.startswith('free'))
    complete = not r['deadline_hit'] and r['evaluations'] == len(cases)
    if complete:
        # vacuity guards (requests that a defect turned into violations still count as exercised)
        bad = steps.get('must-contact:VIOLATED', 0)
        if nontrivial < len(cases) * 9 // 10:
            raise HarnessError('vacuity guard: only %d of %d cases ran to completion: %r' % (nontrivial, len(cases), oc))
        if steps.get('free:served-from-cache', 0) < 50:
            raise HarnessError('vacuity guard: too few fresh hits (cache not working?): %r' % steps)
        if steps.get('must-contact:revalidated', 0) + bad < 50:
            raise HarnessError('vacuity guard: too few stale entries were revalidated (nothing stale was ever cached?): %r' % steps)
        if steps.get('must-contact:refetched', 0) + bad < 50:
            raise HarnessError('vacuity guard: too few forced refetches: %r' % steps)
    vio = [Violation(k, what, {'case': c}) for k, what, c in r['violations']]
    obs = ['squid problem during %s: %s' % (k, what[:300]) for k, what, c in r['crashes']]
    cov = {'evaluations': r['evaluations'], 'distinct_nontrivial': nontrivial, 'rule': RULE, 'samples': r['samples'],
           'outcome_classes': oc, 'request_outcomes': steps, 'exhaustive': complete, 'kicks': r['kicks'],
           'determinism_replays': r['replays'], 'cases_total': len(cases), 'build_step_s': round(build_s, 1),
           'must_contact_requests': sum(v for k, v in steps.items() if k.startswith('must-contact'))}
    return Result(LEVEL, cov, vio, ASSUME, obs)


def replay(ctx, data):
    build(ctx)
    w = make_world(ctx, 0)
    w.start()
    try:
        r = run_case(w, data['case'])
        print(r['transcript'])
        print('outcome:', r['outcome'])
    finally:
        w.stop()
    v = [Violation(key_of(data['case']), r['violation'], data)] if r['violation'] else []
    return Result(LEVEL, {}, v, ASSUME)
