// C24 — Http1::TeChunkedParser (+ MemBuf as the output-space limit) vs an independent reference
// chunked-coding decoder (E1).
//
// Real code: src/http/one/TeChunkedParser.cc, http/one/Tokenizer.cc, http/one/Parser.cc,
// parser/Tokenizer.cc, MemBuf.cc, mime_header.cc as linked into tests/testHttp1Parser.
// Calling protocol: the one client_side.cc / http.cc / ModXact.cc use
//     parser.setPayloadBuffer(&mb); done = parser.parse(inBuf); inBuf = parser.remaining();
//     (drain mb; when needsMoreSpace() call again)
#include "squid.h"
#include "base/TextException.h"
#include "http/one/TeChunkedParser.h"
#include "mem/forward.h"
#include "MemBuf.h"
#include "sbuf/SBuf.h"
#include "SquidConfig.h"

#include "vharness.h"

#include <algorithm>

namespace {

typedef unsigned char uc;

// ------------------------------------------------------------------------------------------------
// Reference decoder (RFC 9112 section 7.1 grammar, written from the RFC, not from Squid's code)
//
//   chunked-body = *chunk last-chunk trailer-section CRLF
//   chunk        = chunk-size [ chunk-ext ] CRLF chunk-data CRLF      chunk-size = 1*HEXDIG
//   chunk-ext    = *( BWS ";" BWS chunk-ext-name [ BWS "=" BWS chunk-ext-val ] )
//   chunk-ext-val = token / quoted-string
//   trailer-section = *( field-line CRLF )
//
// Verdicts: DONE(body, consumed) | MORE(body so far) | ERROR(why) | ERR_OR_MORE (an unterminated
// digit run that already exceeds 63 bits: no continuation is valid, but asking for more is
// harmless) | TRAILER_MAY (the trailer section is not strictly valid: the statement says nothing).
// `tolerated` marks input that is outside the RFC grammar in a way the statement does not list
// as must-reject (BWS between chunk-size/last extension and CRLF; VT/FF/bare CR used as BWS when
// relaxed_header_parser is on): Squid may reject it, but if it does not, it must decode it
// exactly like the reference does.
// ------------------------------------------------------------------------------------------------
enum RV { R_DONE, R_MORE, R_ERROR, R_ERR_OR_MORE, R_TRAILER_MAY };
const char *rvName(RV v) { static const char *n[] = {"done", "need-more", "error", "error-or-need-more", "trailer-unspecified"}; return n[v]; }

struct Ref {
    RV v = R_MORE;
    std::string body;
    size_t consumed = 0;
    bool tolerated = false;
    bool bwsAfterExt = false;   // tolerated BWS sits between a chunk extension and CRLF
    const char *why = "";
};

inline bool isHex(uc c) { return (c >= '0' && c <= '9') || (c >= 'a' && c <= 'f') || (c >= 'A' && c <= 'F'); }
inline int hexVal(uc c) { return c <= '9' ? c - '0' : (c | 0x20) - 'a' + 10; }
inline bool isTchar(uc c)
{
    if ((c >= '0' && c <= '9') || (c >= 'a' && c <= 'z') || (c >= 'A' && c <= 'Z')) return true;
    return c && strchr("!#$%&'*+-.^_`|~", c) != nullptr;
}
inline bool isWsp(uc c) { return c == ' ' || c == '\t'; }
inline bool isBws(uc c, bool relaxed) { return isWsp(c) || (relaxed && (c == 0x0b || c == 0x0c || c == '\r')); }

Ref refDecode(const std::string &in, const bool relaxed)
{
    Ref r;
    const size_t n = in.size();
    size_t pos = 0;
#define MORE_ do { r.v = R_MORE; return r; } while (0)
#define ERR_(w) do { r.v = R_ERROR; r.why = (w); return r; } while (0)
    // skips BWS from `from`; sets odd when a non-RFC (relaxed-only) octet was skipped
    auto skipBws = [&](size_t from, bool &odd) {
        odd = false;
        while (from < n && isBws(in[from], relaxed)) { if (!isWsp(in[from])) odd = true; ++from; }
        return from;
    };
    for (;;) {
        // ---- chunk-size
        if (pos == n) MORE_;
        if (in[pos] == '0' && pos + 1 < n && (in[pos+1] == 'x' || in[pos+1] == 'X')) ERR_("0x-prefix");
        size_t p = pos;
        unsigned __int128 v = 0;
        bool overflow = false;
        while (p < n && isHex(in[p])) {
            v = v * 16 + hexVal(in[p]);
            if (v >> 63) { overflow = true; v = (unsigned __int128)1 << 63; }
            ++p;
        }
        if (p == pos) ERR_(pos == 0 ? "non-hex-first-byte" : "non-hex-size");
        if (p == n) {
            if (overflow) { r.v = R_ERR_OR_MORE; r.why = "size-overflow"; return r; }
            MORE_;
        }
        if (overflow) ERR_("size-overflow");
        pos = p;
        // ---- chunk-ext
        unsigned nExt = 0;
        for (;;) {
            bool odd;
            size_t j = skipBws(pos, odd);
            if (j == n) MORE_;
            if (in[j] != ';') break;
            if (odd) r.tolerated = true;
            j = skipBws(j + 1, odd);
            if (j == n) MORE_;
            size_t q = j;
            while (q < n && isTchar(in[q])) ++q;
            if (q == j) ERR_("bad-ext-name");
            if (odd) r.tolerated = true;
            if (q == n) MORE_;
            pos = q;
            j = skipBws(pos, odd);
            if (j == n) MORE_;
            ++nExt;
            if (in[j] != '=') continue;
            if (odd) r.tolerated = true;
            j = skipBws(j + 1, odd);
            if (j == n) MORE_;
            if (in[j] == '"') {
                if (odd) r.tolerated = true;
                q = j + 1;
                for (;;) {
                    if (q == n) MORE_;
                    const uc c = in[q];
                    if (c == '"') { ++q; break; }
                    if (c == '\\') {
                        if (q + 1 == n) MORE_;
                        const uc d = in[q+1];
                        if (d == '\t' || d == ' ' || (d >= 0x21 && d <= 0x7e) || d >= 0x80) { q += 2; continue; }
                        ERR_("bad-quoted-pair");
                    }
                    if (c == '\t' || c == ' ' || c == 0x21 || (c >= 0x23 && c <= 0x5b) || (c >= 0x5d && c <= 0x7e) || c >= 0x80) { ++q; continue; }
                    ERR_("bad-quoted-string");
                }
                pos = q;
            } else {
                q = j;
                while (q < n && isTchar(in[q])) ++q;
                if (q == j) ERR_("bad-ext-value");
                if (odd) r.tolerated = true;
                if (q == n) MORE_;
                pos = q;
            }
        }
        // ---- [BWS tolerated by Squid on purpose, bug 4492] CRLF
        {
            size_t j = pos;
            while (j < n && isWsp(in[j])) ++j;
            if (j == n) MORE_;
            if (j > pos) { r.tolerated = true; if (nExt) r.bwsAfterExt = true; } // flagged at once: Squid may refuse before it sees the CRLF
            if (in[j] != '\r') ERR_("missing-crlf-after-size");
            if (j + 1 == n) MORE_;
            if (in[j+1] != '\n') ERR_("missing-crlf-after-size");
            pos = j + 2;
        }
        if (v > 0) {
            // ---- chunk-data CRLF
            const size_t avail = (v < (unsigned __int128)(n - pos)) ? (size_t)v : n - pos;
            r.body.append(in, pos, avail);
            pos += avail;
            if ((unsigned __int128)avail < v) MORE_;
            if (pos == n) MORE_;
            if (in[pos] != '\r') ERR_("missing-crlf-after-data");
            if (pos + 1 == n) MORE_;
            if (in[pos+1] != '\n') ERR_("missing-crlf-after-data");
            pos += 2;
            continue;
        }
        // ---- last-chunk seen: trailer-section CRLF
        for (;;) {
            if (pos == n) MORE_;
            if (in[pos] == '\r') {
                if (pos + 1 == n) MORE_;
                if (in[pos+1] == '\n') { r.v = R_DONE; r.consumed = pos + 2; return r; }
                r.v = R_TRAILER_MAY; return r;
            }
            size_t q = pos;
            while (q < n && isTchar(in[q])) ++q;
            if (q == n) MORE_;
            if (q == pos || in[q] != ':') { r.v = R_TRAILER_MAY; return r; }
            ++q;
            for (;;) {
                if (q == n) MORE_;
                const uc c = in[q];
                if (c == '\r') {
                    if (q + 1 == n) MORE_;
                    if (in[q+1] == '\n') { q += 2; break; }
                    r.v = R_TRAILER_MAY; return r;
                }
                if (c == '\n' || (c < 0x20 && c != '\t') || c == 0x7f) { r.v = R_TRAILER_MAY; return r; }
                ++q;
            }
            pos = q;
        }
    }
#undef MORE_
#undef ERR_
}

// ------------------------------------------------------------------------------------------------
// The real parser under the callers' protocol
// ------------------------------------------------------------------------------------------------
enum Drain { D_EAGER, D_LAZY, D_ONE };   // drain everything after every parse / only when stalled / one byte
const char *drainName(int d) { static const char *n[] = {"eager", "lazy", "one-byte"}; return n[d]; }

struct Obs {
    int status = 0;           // 0 need-more, 1 done, 2 error, 3 no progress (livelock guard)
    std::string out, rest, mime, err;
    int stage = 0;
    uint64_t chunkSize = 0, left = 0;
    int httpStatus = 0;
    std::string key() const
    {
        if (status == 2) return "error";
        if (status == 3) return "livelock";
        return std::to_string(status) + "|stage=" + std::to_string(stage) + "|size=" + std::to_string(chunkSize) + "|left=" + std::to_string(left) +
               "|http=" + std::to_string(httpStatus) + "|rest=" + V::esc(rest) + "|out=" + V::esc(out) + "|mime=" + V::esc(mime);
    }
    const char *statusName() const { static const char *n[] = {"need-more", "done", "error", "livelock"}; return n[status]; }
    // complete-state equality (what key() spells out)
    bool same(const Obs &b) const
    {
        if (status != b.status) return false;
        if (status >= 2) return true;
        return stage == b.stage && chunkSize == b.chunkSize && left == b.left && httpStatus == b.httpStatus && rest == b.rest && out == b.out && mime == b.mime;
    }
};

uint64_t nParse = 0, nStalls = 0, nRuns = 0, nRealDone = 0, nRealMore = 0, nRealError = 0, nToleratedAccepted = 0, nToleratedRejected = 0, nTrailerMay = 0;

struct Real {
    Http1::TeChunkedParser parser;
    MemBuf mb;
    SBuf inBuf;
    std::string collected;
    int status = 0;
    std::string err;
    int drain;

    Real(int maxCapacity, int drainMode): drain(drainMode)
    {
        if (maxCapacity) mb.init(1, maxCapacity); else mb.init();
        ++nRuns;
    }

    void take(size_t nbytes)
    {
        collected.append(mb.content(), nbytes);
        mb.consume(nbytes);
    }

    void feed(const std::string &piece) { feed(piece.data(), piece.size()); }

    void feed(const char *piece, const size_t pieceLen)
    {
        inBuf.append(piece, pieceLen);
        if (status)
            return; // callers stop parsing after the end of the body / after an error
        for (unsigned iter = 0;; ++iter) {
            if (iter > 200000) { status = 3; return; }
            parser.setPayloadBuffer(&mb);
            bool done = false;
            ++nParse;
            try {
                done = parser.parse(inBuf);
            } catch (const std::exception &e) {
                status = 2; err = e.what(); return;
            } catch (...) {
                status = 2; err = "unknown exception"; return;
            }
            inBuf = parser.remaining(); // sync buffers, as the callers do
            const bool stall = !done && parser.needsMoreSpace();
            if (stall) ++nStalls;
            if (drain == D_EAGER || (drain == D_LAZY && stall))
                take(mb.contentSize());
            else if (drain == D_ONE && mb.contentSize() > 0)
                take(1);
            if (done) { status = 1; return; }
            if (!stall || inBuf.isEmpty())
                return; // needs more input
        }
    }

    Obs snapshot()
    {
        Obs o;
        o.status = status;
        o.err = err;
        o.out = collected;
        if (mb.contentSize() > 0) o.out.append(mb.content(), mb.contentSize());
        o.rest.assign(inBuf.rawContent(), inBuf.length());
        o.stage = (int)parser.parsingStage_;
        o.chunkSize = parser.theChunkSize;
        o.left = parser.theLeftBodySize;
        o.httpStatus = (int)parser.parseStatusCode;
        o.mime.assign(parser.mimeHeaderBlock_.rawContent(), parser.mimeHeaderBlock_.length());
        return o;
    }
};

// Compares what the real parser did with the first fedLen bytes of `in` against the reference verdict
// for those bytes.  Returns nullptr if consistent, else what is wrong (details are formatted by the caller).
const char *problem(const std::string &in, const size_t fedLen, const Ref &ref, const Obs &o)
{
    if (o.status == 3) return "the parse/drain loop made no progress";
    if (o.status != 2 && (o.rest.size() > fedLen || in.compare(fedLen - o.rest.size(), o.rest.size(), o.rest) != 0))
        return "the unparsed remainder is not a suffix of the input";
    switch (ref.v) {
    case R_DONE:
        if (o.status == 2 && ref.tolerated) return nullptr;
        if (o.status != 1) return "a complete valid chunked body was not decoded to the end";
        if (o.out != ref.body) return "the decoded bytes differ from the body";
        if (fedLen - o.rest.size() != ref.consumed) return "the consumed length differs from the length of the encoding";
        return nullptr;
    case R_MORE:
        if (o.status == 2 && ref.tolerated) return nullptr;
        if (o.status != 0) return "truncated input must only ask for more data";
        if (o.out.size() > ref.body.size() || ref.body.compare(0, o.out.size(), o.out) != 0) return "the decoded bytes are not a prefix of the available body";
        return nullptr;
    case R_ERROR:
        return o.status != 2 ? "malformed framing was not rejected" : nullptr;
    case R_ERR_OR_MORE:
        return o.status == 1 ? "an overflowing chunk size was accepted" : nullptr;
    case R_TRAILER_MAY:
        return (o.status != 2 && o.out != ref.body) ? "the decoded bytes differ from the body" : nullptr;
    }
    return nullptr;
}

struct Cfg { int cap; int drain; };

uint64_t nKnownClassHits = 0, nAllSeg = 0;

// Reports that one feeding pattern ended in a different complete state than the one-piece feed.
void stateMismatch(const std::string &where, const std::string &got, const std::string &base, const char *baseName, const Ref &ref)
{
    const bool acceptanceFlip = (got == "error") != (base == "error");
    if (acceptanceFlip && ref.bwsAfterExt) {
        // one stable key for this input class; a few written-out instances per shard are enough
        if (++nKnownClassHits <= 3)
            V::failKey("bws-between-chunk-ext-and-crlf:acceptance-depends-on-segmentation",
                       where + ": complete state {" + got + "} differs from " + baseName + " {" + base + "}: whitespace between the last chunk extension and CRLF is refused "
                       "in one piece but accepted when the input is split after that whitespace");
        return;
    }
    V::fail(where + ": complete state {" + got + "} differs from " + baseName + " {" + base + "}");
}

std::string cfgName(bool relaxed, const Cfg &c, const std::string &how)
{
    return std::string("relaxed=") + (relaxed ? "on" : "off") + " max_capacity=" + std::to_string(c.cap) + " drain=" + drainName(c.drain) + " " + how;
}

// judge(): true if consistent; otherwise reports (the message is only built on failure)
template <class How>
bool judge(const std::string &in, const size_t fedLen, const Ref &ref, const Obs &o, bool relaxed, const Cfg &c, const How &how)
{
    const char *what = problem(in, fedLen, ref, o);
    if (!what) return true;
    V::fail(cfgName(relaxed, c, how()) + ": reference says " + rvName(ref.v) + (ref.why[0] ? std::string("(") + ref.why + ")" : "") +
            (ref.tolerated ? "[tolerated syntax]" : "") + ", parser says " + o.statusName() + (o.status == 2 ? " (" + o.err.substr(0, 80) + ")" : "") + ": " + what +
            "; fed '" + V::esc(in.substr(0, fedLen)) + "', decoded '" + V::esc(o.out) + "', unparsed '" + V::esc(o.rest) + "', reference body '" + V::esc(ref.body) +
            "' consumed " + std::to_string(ref.consumed));
    return false;
}

// Runs one input under: whole feed x wholeCfgs; every 2-piece split x splitCfgs; byte-by-byte; and
// (allSeg) every segmentation.  Every intermediate and final observation is judged against the
// reference on the bytes fed so far, and every final complete state must equal the state of the
// first whole run (induction base for "any segmentation").
// Returns the reference verdict for the whole input (relaxed off) for outcome classification.
struct CaseStats { Ref refStrict; Ref refRelaxed; bool realAcceptedTolerated = false; };

CaseStats runInput(const std::string &in, const std::vector<Cfg> &wholeCfgs, const std::vector<Cfg> &splitCfgs, bool allSeg)
{
    CaseStats cs;
    const size_t n = in.size();
    for (int relaxed = 0; relaxed < 2; ++relaxed) {
        Config.onoff.relaxed_header_parser = relaxed;
        std::vector<Ref> pref(n + 1);
        for (size_t k = 0; k <= n; ++k) pref[k] = refDecode(in.substr(0, k), relaxed);
        const Ref &ref = pref[n];
        (relaxed ? cs.refRelaxed : cs.refStrict) = ref;
        Obs base;
        bool haveBase = false;
        for (const Cfg &c : wholeCfgs) {
            Real r(c.cap, c.drain);
            r.feed(in);
            const Obs o = r.snapshot();
            if (!haveBase) {
                base = o; haveBase = true;
                if (o.status == 1) ++nRealDone; else if (o.status == 0) ++nRealMore; else ++nRealError;
                if (ref.tolerated && (ref.v == R_DONE || ref.v == R_MORE)) { if (o.status == 2) ++nToleratedRejected; else ++nToleratedAccepted; }
                if (ref.v == R_TRAILER_MAY) ++nTrailerMay;
            }
            if (!judge(in, n, ref, o, relaxed, c, [] { return std::string("whole"); })) return cs;
            if (!o.same(base)) { stateMismatch(cfgName(relaxed, c, "whole"), o.key(), base.key(), "the first configuration's", ref); return cs; }
        }
        for (const Cfg &c : splitCfgs) {
            for (size_t k = 0; k <= n; ++k) {
                Real r(c.cap, c.drain);
                r.feed(in.data(), k);
                if (!judge(in, k, pref[k], r.snapshot(), relaxed, c, [k] { return "split at " + std::to_string(k) + " (after piece 1)"; })) return cs;
                r.feed(in.data() + k, n - k);
                const Obs o = r.snapshot();
                if (!judge(in, n, ref, o, relaxed, c, [k] { return "split at " + std::to_string(k); })) return cs;
                if (!o.same(base)) { stateMismatch(cfgName(relaxed, c, "split at " + std::to_string(k)), o.key(), base.key(), "the one-piece state", ref); return cs; }
            }
            // byte by byte
            Real r(c.cap, c.drain);
            for (size_t k = 0; k < n; ++k) {
                r.feed(in.data() + k, 1);
                if (!judge(in, k + 1, pref[k+1], r.snapshot(), relaxed, c, [k] { return "byte-by-byte after " + std::to_string(k + 1); })) return cs;
            }
            const Obs o = r.snapshot();
            if (!o.same(base)) { stateMismatch(cfgName(relaxed, c, "byte-by-byte"), o.key(), base.key(), "the one-piece state", ref); return cs; }
        }
        if (allSeg && n >= 2 && n <= 13) {
            const Cfg cfgs[] = {{65, D_EAGER}, {2, D_LAZY}};
            for (const Cfg &c : cfgs)
                for (unsigned mask = 0; mask < (1u << (n - 1)); ++mask) {
                    Real r(c.cap, c.drain);
                    size_t from = 0;
                    for (size_t i = 1; i <= n; ++i)
                        if (i == n || (mask & (1u << (i - 1)))) { r.feed(in.data() + from, i - from); from = i; }
                    const Obs o = r.snapshot();
                    ++nAllSeg;
                    if (!o.same(base)) { stateMismatch(cfgName(relaxed, c, "segmentation mask " + std::to_string(mask)), o.key(), base.key(), "the one-piece state", ref); return cs; }
                }
        }
    }
    Config.onoff.relaxed_header_parser = 0;
    return cs;
}

std::string hexOf(uint64_t v, bool upper)
{
    char b[32];
    snprintf(b, sizeof b, upper ? "%llX" : "%llx", (unsigned long long)v);
    return b;
}

// chunk-size spellings
std::string spell(uint64_t size, int si)
{
    switch (si) {
    case 0: return hexOf(size, false);
    case 1: return "0" + hexOf(size, false);
    case 2: return "00000000000000000000" + hexOf(size, true); // more digits than 64 bits have
    case 3: return hexOf(size, true);
    default: { // mixed case
        std::string s = hexOf(size, false);
        for (size_t i = 0; i < s.size(); i += 2) s[i] = toupper(s[i]);
        return s;
    }
    }
}

// RFC-valid chunk extensions (BWS around ";" and "=" is in the RFC grammar)
const char *const Exts[] = {
    "", ";x", ";x=y", ";x=\"q\\\"q\"", ";x=\"\"", " ;x", ";\tx", ";x =y", ";x= y", ";x;y=z",
    ";x=\"a b;c\\\\\"", ";abc=\"\x80\\\x81\"", " \t; \tx\t = \t\"0\\\t\";y"
};
const int NExts = sizeof(Exts) / sizeof(Exts[0]);

const char *const Trailers[] = {"", "X: y\r\n", "X:y\r\nY-z:  w \r\n", "X:\r\n"};
const int NTrailers = sizeof(Trailers) / sizeof(Trailers[0]);

// body fillers: plain letters, and bytes that look like chunked framing
const std::string Fillers[] = {"abcdefghijklmnopqrstuvwxyzABCDEFGHIJKLMNOPQRSTUVWXYZ", "\r\n0\r\n\r\n1;\"\\\r\n\r\n0x\n\n"};

std::string fillerBody(int f, size_t n)
{
    std::string b;
    while (b.size() < n) b += Fillers[f];
    b.resize(n);
    return b;
}

struct Encoded { std::string bytes, body; };

// sizes: chunk sizes (all > 0); deco applies to position `where` (-1: every position; positions
// 0..sizes.size()-1 are the chunks, sizes.size() is the last-chunk)
Encoded encode(const std::string &body, const std::vector<size_t> &sizes, int si, int ei, int where, int ti)
{
    Encoded e;
    e.body = body;
    size_t off = 0;
    for (size_t i = 0; i <= sizes.size(); ++i) {
        const bool deco = where < 0 || (size_t)where == i;
        const uint64_t sz = i < sizes.size() ? sizes[i] : 0;
        e.bytes += spell(sz, deco ? si : 0);
        e.bytes += deco ? Exts[ei] : "";
        e.bytes += "\r\n";
        if (i < sizes.size()) {
            e.bytes.append(body, off, sz);
            off += sz;
            e.bytes += "\r\n";
        }
    }
    e.bytes += Trailers[ti];
    e.bytes += "\r\n";
    return e;
}

uint64_t nValid = 0;

// one valid encoding = one case
void validCase(const std::string &desc, const Encoded &e, const std::vector<Cfg> &wholeCfgs, const std::vector<Cfg> &splitCfgs, bool allSeg)
{
    if (!V::begin_case(desc)) return;
    ++nValid;
    // generator vs recogniser cross-check (two independently written artefacts)
    for (int relaxed = 0; relaxed < 2; ++relaxed) {
        const Ref whole = refDecode(e.bytes, relaxed);
        if (whole.v != R_DONE || whole.tolerated || whole.body != e.body || whole.consumed != e.bytes.size()) {
            V::failKey("harness:reference-rejects-generated-encoding", std::string("reference verdict ") + rvName(whole.v) + " " + whole.why + " for a generated valid encoding " + V::esc(e.bytes));
            V::end_case();
            return;
        }
        for (size_t k = 0; k < e.bytes.size(); ++k) {
            const Ref p = refDecode(e.bytes.substr(0, k), relaxed);
            if (p.v != R_MORE) {
                V::failKey("harness:reference-prefix-not-need-more", std::string("reference verdict ") + rvName(p.v) + " for proper prefix " + std::to_string(k) + " of " + V::esc(e.bytes));
                V::end_case();
                return;
            }
        }
    }
    V::count("valid_prefixes_checked", e.bytes.size());
    const uint64_t failsBefore = V::S().nfail;
    runInput(e.bytes, wholeCfgs, splitCfgs, allSeg);
    // bytes after the end of the body must be left alone
    static const char *const junk[] = {"X", "\r\n", "0\r\n\r\n", "GET / HTTP/1.1\r\n"};
    if (V::S().nfail == failsBefore)
        for (const char *j : junk) {
            const std::string in = e.bytes + j;
            for (int relaxed = 0; relaxed < 2; ++relaxed) {
                Config.onoff.relaxed_header_parser = relaxed;
                const Ref ref = refDecode(in, relaxed);
                if (ref.v != R_DONE || ref.consumed != e.bytes.size()) { V::failKey("harness:reference-consumes-junk", "reference mishandles trailing bytes"); break; }
                Real r(65, D_EAGER);
                r.feed(in);
                judge(in, in.size(), ref, r.snapshot(), relaxed, Cfg{65, D_EAGER}, [j] { return std::string("whole with following bytes '") + V::esc(j) + "'"; });
            }
            Config.onoff.relaxed_header_parser = 0;
        }
    V::outcome("valid:decoded");
    V::end_case();
}

// ---- token strings
const std::vector<std::string> Tokens = {
    "0", "1", "a", "F", "10", "0x", "0X", "g", ";", "=", "x", "\"q\"", "\"", "\\", " ", "\t", "\r", "\n", "\r\n", "\x0b", std::string(1, '\0'),
    "7fffffffffffffff", "8000000000000000", "10000000000000000"
};

// adjacent token pairs whose bytes are also produced by a shorter token string (so that every
// enumerated byte string is enumerated once)
bool redundantPair(const std::string &a, const std::string &b)
{
    return (a == "1" && b == "0") || (a == "0" && b == "x") || (a == "\r" && b == "\n") || (a == "1" && b == "0x");
}

std::set<std::string> seenShort; // uniqueness cross-check for short strings

void tokenCase(const std::string &s, const std::vector<Cfg> &wholeCfgs, const std::vector<Cfg> &splitCfgs)
{
    if (!V::begin_case("t:" + V::esc(s))) return;
    const CaseStats cs = runInput(s, wholeCfgs, splitCfgs, false);
    const Ref &r = cs.refStrict;
    std::string klass = std::string("tok:") + rvName(r.v);
    if (r.v == R_ERROR || r.v == R_ERR_OR_MORE) klass += std::string(":") + r.why;
    else if (r.tolerated) klass += ":tolerated";
    V::outcome(klass);
    if (cs.refRelaxed.v != r.v || cs.refRelaxed.tolerated != r.tolerated) V::count("verdict_depends_on_relaxed_parser");
    V::end_case();
}

void tokenWalk(std::vector<int> &idx, std::string &s, int unprunedDepth, int maxDepth, const std::vector<Cfg> &wholeCfgs, const std::vector<Cfg> &splitCfgs)
{
    const int depth = (int)idx.size();
    if (depth > 0) {
        if (depth <= 3 && !seenShort.insert(s).second)
            V::failKey("harness:duplicate-token-string", "byte string enumerated twice: " + V::esc(s));
        tokenCase(s, wholeCfgs, splitCfgs);
    }
    if (depth >= maxDepth) return;
    if (depth >= unprunedDepth) {
        // beyond the unpruned depth only extend strings that are still alive: need-more (in either
        // parser mode).  Dead (error), finished (done) and trailer-unspecified strings were extended
        // by every token up to the unpruned depth already.
        const RV a = refDecode(s, false).v, b = refDecode(s, true).v;
        const bool alive = a == R_MORE || b == R_MORE;
        if (!alive) return;
    }
    for (int t = 0; t < (int)Tokens.size(); ++t) {
        if (depth > 0 && redundantPair(Tokens[idx.back()], Tokens[t])) continue;
        idx.push_back(t);
        const size_t len = s.size();
        s += Tokens[t];
        tokenWalk(idx, s, unprunedDepth, maxDepth, wholeCfgs, splitCfgs);
        s.resize(len);
        idx.pop_back();
    }
}

void body(V::Ctx &ctx)
{
    Mem::Init();
    const bool quick = ctx.quick();
    const char *only = getenv("C24_ONLY"); // development aid: run one family

    // Order: the cheap families that reach malformed framing first (edits, token strings), the large
    // family of valid encodings last, so that a deadline cuts only the tail of the latter.
    const int N = quick ? 4 : 6;
    const std::vector<Cfg> wholeAll = {{65, D_EAGER}, {0, D_EAGER}, {2, D_EAGER}, {3, D_EAGER}, {5, D_EAGER}, {2, D_LAZY}, {3, D_LAZY}, {5, D_LAZY}, {65, D_LAZY},
                                       {3, D_ONE}, {5, D_ONE}, {65, D_ONE}};
    const std::vector<Cfg> splitQuick = {{65, D_EAGER}, {2, D_EAGER}, {3, D_LAZY}, {5, D_ONE}};
    const std::vector<Cfg> splitBig = {{65, D_EAGER}, {0, D_LAZY}}; // long chunks: no 1-byte-per-call configurations at every split
    const std::vector<Cfg> &splitValid = quick ? splitQuick : wholeAll;
    // ---- (b) token strings over a hostile alphabet
    const std::vector<Cfg> tokWhole = {{65, D_EAGER}, {2, D_EAGER}, {3, D_LAZY}};
    const std::vector<Cfg> tokSplitQuick = {{65, D_EAGER}};
    const std::vector<Cfg> tokSplitThorough = {{65, D_EAGER}, {2, D_LAZY}};
    const std::vector<Cfg> &tokSplit = quick ? tokSplitQuick : tokSplitThorough;
    // ---- (c) every single edit of valid encodings (delete a byte, replace a byte by an edit token,
    //          insert an edit token), which reaches malformed framing deep inside a body
    if (!only || !strcmp(only, "c")) {
        static const std::vector<std::string> edits = {"0", "1", "a", "g", ";", "=", "x", "\"", "\\", " ", "\r", "\n", "\r\n", "\x0b", std::string(1, '\0'), "0x", "0X", "8000000000000000"};
        const int exts[] = {0, 2, 3, 5};
        const int trailers[] = {0, 1};
        std::set<std::string> seen;
        const int NC = quick ? 2 : 3;
        for (int n = 0; n <= NC; ++n)
            for (unsigned comp = 0; comp < (n ? 1u << (n - 1) : 1u); ++comp) {
                std::vector<size_t> sizes;
                if (n) {
                    size_t run = 1;
                    for (int i = 1; i < n; ++i) {
                        if (comp & (1u << (i - 1))) { sizes.push_back(run); run = 1; }
                        else ++run;
                    }
                    sizes.push_back(run);
                }
                for (int ei : exts)
                    for (int ti : trailers) {
                        const Encoded e = encode(fillerBody(0, n), sizes, 0, ei, -1, ti);
                        const std::string &b = e.bytes;
                        for (size_t p = 0; p <= b.size(); ++p)
                            for (int kind = 0; kind < 3; ++kind) {      // 0 delete, 1 replace, 2 insert
                                if (kind < 2 && p == b.size()) continue;
                                for (size_t t = 0; t < (kind == 0 ? 1 : edits.size()); ++t) {
                                    std::string m = b.substr(0, p);
                                    if (kind) m += edits[t];
                                    m += b.substr(kind == 2 ? p : p + 1);
                                    if (!seen.insert(m).second) continue;
                                    if (!V::begin_case("e:" + V::esc(m))) continue;
                                    const CaseStats cs = runInput(m, tokWhole, tokSplit, false);
                                    const Ref &r = cs.refStrict;
                                    std::string klass = std::string("edit:") + rvName(r.v);
                                    if (r.v == R_ERROR || r.v == R_ERR_OR_MORE) klass += std::string(":") + r.why;
                                    else if (r.tolerated) klass += ":tolerated";
                                    V::outcome(klass);
                                    V::end_case();
                                }
                            }
                    }
            }
    }

    if (!only || !strcmp(only, "b")) {
        std::vector<int> idx;
        std::string s;
        tokenWalk(idx, s, quick ? 3 : 4, quick ? 4 : 5, tokWhole, tokSplit);
    }

    // ---- (a2) sizes that need hex letters / several digits, one or two chunks
    if (!only || !strcmp(only, "a2")) {
        const size_t big[] = {10, 11, 15, 16, 17, 26, 31, 32, 171, 255, 256, 257};
        const int exts[] = {0, 2};
        for (size_t sz : big)
            for (int two = 0; two < 2; ++two)
                for (int si = 0; si < 5; ++si)
                    for (int ei : exts) {
                        if (quick && sz > 32 && (si == 1 || ei)) continue;
                        std::vector<size_t> sizes = {sz};
                        if (two) sizes.push_back(11);
                        const std::string bodyBytes = fillerBody(two, sz + (two ? 11 : 0));
                        const Encoded e = encode(bodyBytes, sizes, si, ei, -1, 0);
                        char d[128];
                        snprintf(d, sizeof d, "h:size=%zu,chunks=%d,spell=%d,ext=%d", sz, two + 1, si, ei);
                        validCase(d, e, wholeAll, splitBig, false);
                    }
    }

    // ---- (a) valid encodings of short bodies
    for (int n = 0; n <= N && (!only || !strcmp(only, "a")); ++n)
        for (int f = 0; f < (n ? 2 : 1); ++f) {
            const std::string bodyBytes = fillerBody(f, n);
            for (unsigned comp = 0; comp < (n ? 1u << (n - 1) : 1u); ++comp) {
                std::vector<size_t> sizes;
                if (n) {
                    size_t run = 1;
                    for (int i = 1; i < n; ++i) {
                        if (comp & (1u << (i - 1))) { sizes.push_back(run); run = 1; }
                        else ++run;
                    }
                    sizes.push_back(run);
                }
                const int positions = (int)sizes.size() + 1;
                for (int si = 0; si < 3; ++si)
                    for (int ei = 0; ei < NExts; ++ei)
                        for (int where = -1; where < positions; ++where) {
                            if (si == 0 && ei == 0 && where >= 0) continue; // undecorated: once
                            if (positions == 1 && where >= 0) continue;     // same as "every position"
                            // trailers vary with uniformly decorated chunks; single-position decorations use no trailer
                            for (int ti = 0; ti < (where < 0 ? NTrailers : 1); ++ti) {
                                const Encoded e = encode(bodyBytes, sizes, si, ei, where, ti);
                                char d[128];
                                snprintf(d, sizeof d, "v:n=%d,filler=%d,comp=%u,spell=%d,ext=%d,where=%d,trailer=%d", n, f, comp, si, ei, where, ti);
                                validCase(d, e, wholeAll, splitValid, e.bytes.size() <= (quick ? 11u : 13u));
                            }
                        }
            }
        }

    V::count("parse_calls", nParse);
    V::count("parser_runs", nRuns);
    V::count("space_stalls", nStalls);
    V::count("valid_encodings", nValid);
    V::count("real_done", nRealDone);
    V::count("real_need_more", nRealMore);
    V::count("real_error", nRealError);
    V::count("tolerated_accepted", nToleratedAccepted);
    V::count("tolerated_rejected", nToleratedRejected);
    V::count("trailer_unspecified", nTrailerMay);
    V::count("all_segmentation_runs", nAllSeg);
    V::count("known_class_bws_after_ext_hits", nKnownClassHits);
}

} // namespace

VHARNESS_MAIN(body)
