// C23 — Http1::ResponseParser: status-line parsing is correct and segmentation-independent (E1).
//
// Real code: src/http/one/ResponseParser.cc + Parser.cc (+ Tokenizer, mime_header.cc) of the current tree, driven
// with the calling protocol of HttpStateData::processReplyHeader() (src/http.cc) and Http::Tunneler::handleResponse():
//     hp->parse(inBuf); inBuf = hp->remaining();     until needsMoreData() is false.
//
// Oracle (i): complete-state equality between one-shot delivery and EVERY 2-piece split (DESIGN 4.1 induction, see
// C21_req.cc), all segmentations for short inputs.
// Oracle (ii): the one-shot result against a reference status-line recogniser written from RFC 9112 section 4:
//     status-line = "HTTP/1." DIGIT SP 3DIGIT SP [ reason-phrase ] CRLF      reason-phrase = 1*( HTAB / SP / VCHAR / obs-text )
//     (ICY: "ICY" SP 3DIGIT SP [reason] CRLF), status 100..599;
//     relaxed_header_parser: the single delimiter may be any of SP HTAB VT FF CR (Parser::DelimiterCharacters) and
//     the terminator may be a bare LF (Parser::skipLineTerminator);
//     input that neither starts with "HTTP/" / "ICY" nor is a prefix of "HTTP/1." / "ICY " is an HTTP/0.9 body.
#include "squid.h"
#include "http/one/ResponseParser.h"
#include "mem/forward.h"
#include "sbuf/SBuf.h"
#include "SquidConfig.h"

#include "vharness.h"

namespace {

struct Snap {
    int ret = -1;             // 0 false, 1 true, 2 threw, -1 never called
    int stage = 0;
    int parseStatus = 0;      // parseStatusCode
    int proto = 0, major = 0, minor = 0;
    int status = 0;           // statusCode_ (messageStatus())
    bool completedStatus = false;
    SBuf reason;
    SBuf mime;
    bool hack = false;
    SBuf buf;
    std::string undelivered;
    std::string rest() const { return std::string(buf.rawContent(), buf.length()) + undelivered; }
    const char *retName() const { return ret == 1 ? "true" : ret == 0 ? "false" : ret == 2 ? "threw" : "none"; }
};

std::string str(const SBuf &b) { return std::string(b.rawContent(), b.length()); }

struct Run {
    Http1::ResponseParser p;
    SBuf inBuf;
    size_t delivered = 0;
    int ret = -1;
    uint64_t calls = 0;

    void feed(const std::string &s, size_t from, size_t to) {
        if (to <= from) return;
        inBuf.append(s.data() + from, to - from);
        delivered = to;
        if (inBuf.isEmpty()) return; // processReplyHeader() returns early on an empty buffer
        ++calls;
        try {
            ret = p.parse(inBuf) ? 1 : 0;
        } catch (...) {
            ret = 2;
        }
        inBuf = p.remaining();
    }
    bool done() const { return !p.needsMoreData() || ret == 2; }

    Snap snap(const std::string &s) const {
        Snap x;
        x.ret = ret;
        x.stage = (int)p.parsingStage_;
        x.parseStatus = (int)p.parseStatusCode;
        x.proto = (int)p.msgProtocol_.protocol; x.major = p.msgProtocol_.major; x.minor = p.msgProtocol_.minor;
        x.status = (int)p.statusCode_;
        x.completedStatus = p.completedStatus_;
        x.reason = p.reasonPhrase_;
        x.mime = p.mimeHeaderBlock_;
        x.hack = p.hackExpectsMime_;
        x.buf = p.buf_;
        if (delivered < s.size()) x.undelivered = s.substr(delivered);
        return x;
    }
};

std::string show(const Snap &x)
{
    return std::string("{ret=") + x.retName() + " stage=" + std::to_string(x.stage) + " parseStatusCode=" + std::to_string(x.parseStatus) +
           " ver=" + std::to_string(x.proto) + "/" + std::to_string(x.major) + "." + std::to_string(x.minor) + " status=" + std::to_string(x.status) +
           (x.completedStatus ? "(completed)" : "") + " reason='" + V::esc(str(x.reason)) + "' mime='" + V::esc(str(x.mime).substr(0, 40)) +
           "' rest='" + V::esc(x.rest()) + "'}";
}

std::string diff(const Snap &a, const Snap &b)
{
    std::string d;
    auto add = [&](bool ne, const char *n) { if (ne) { if (!d.empty()) d += "+"; d += n; } };
    add(a.ret != b.ret, "ret");
    add(a.stage != b.stage, "stage");
    add(a.parseStatus != b.parseStatus, "parseStatusCode");
    add(a.proto != b.proto || a.major != b.major || a.minor != b.minor, "version");
    add(a.status != b.status, "status");
    add(a.completedStatus != b.completedStatus, "completedStatus");
    add(a.reason != b.reason, "reason");
    add(a.mime != b.mime, "mime");
    add(a.hack != b.hack, "hack");
    // After a rejection both callers give up on the connection (http.cc only prints inBuf to the debug log):
    // how many bytes a *rejecting* parser consumed is not observable.
    const bool bothRejected = a.ret == 0 && b.ret == 0 &&
                              a.stage == (int)Http1::HTTP_PARSE_DONE && b.stage == (int)Http1::HTTP_PARSE_DONE;
    if (!bothRejected)
        add(a.undelivered.empty() && b.undelivered.empty() ? a.buf != b.buf : a.rest() != b.rest(), "rest");
    return d;
}

const char *const FakeMimeStart = "X-Transformed-From: HTTP/0.9";
bool isZero9(const Snap &x) { return x.ret == 1 && x.stage == (int)Http1::HTTP_PARSE_DONE && str(x.mime).compare(0, strlen(FakeMimeStart), FakeMimeStart) == 0 && !x.completedStatus; }

std::string label(const Snap &x)
{
    if (x.ret == 2) return "threw";
    if (x.stage != (int)Http1::HTTP_PARSE_DONE) {
        if (x.stage == (int)Http1::HTTP_PARSE_NONE) return "need-more:none";
        if (x.stage == (int)Http1::HTTP_PARSE_FIRST) return x.completedStatus ? "need-more:reason" : x.proto ? "need-more:status" : "need-more:magic";
        return "need-more:mime";
    }
    if (isZero9(x)) return "http0.9-body";
    if (x.ret == 1) return x.proto == (int)AnyP::PROTO_ICY ? "accepted-icy" : "accepted-1.x";
    return "rejected-" + std::to_string(x.parseStatus);
}

struct Config1 { int relaxed; size_t maxHdr; };

uint64_t nParses = 0, nSplitRuns = 0, nSegRuns = 0, nPrefixTerminal = 0, nResumed = 0, nRefChecks = 0, nNoOpinion = 0;
std::set<std::string> keysEmitted;
std::map<std::string, uint64_t> keyCounts;

void emit(const std::string &key, const std::string &msg)
{
    ++keyCounts[key];
    if (!keysEmitted.insert(key).second) return;
    V::failKey(key, msg);
}

void report(const std::string &s, const std::string &how, const Config1 &c, const Snap &one, const Snap &two)
{
    (void)s;
    const std::string sig = "one-shot=" + label(one) + ",split=" + label(two) + ",differ=" + diff(one, two);
    emit("seg-dependence:relaxed=" + std::to_string(c.relaxed) + ":" + sig,
         "relaxed_header_parser=" + std::to_string(c.relaxed) + " reply_header_max_size=" + std::to_string(c.maxHdr) +
         " " + how + ": " + sig + " one-shot" + show(one) + " split" + show(two));
}

// ---------------------------------------------------------------- reference status-line recogniser

struct RefSL {
    enum K { Zero9, NoOpinion, NeedMore, Invalid, Valid } k = Invalid;
    bool icy = false;
    int minor = -1, status = -1;
    std::string reason;
    size_t lineEnd = 0;
    const char *why = "";
};

bool startsWith(const std::string &s, const char *p) { return s.compare(0, strlen(p), p) == 0; }
bool isProperPrefixOf(const std::string &s, const char *p) { return s.size() < strlen(p) && memcmp(s.data(), p, s.size()) == 0; }
bool isDigit(unsigned char c) { return c >= '0' && c <= '9'; }
bool isDelim(unsigned char c, bool relaxed) { return c == ' ' || (relaxed && (c == '\t' || c == 0x0b || c == 0x0c || c == '\r')); }
bool isReasonChar(unsigned char c) { return c == '\t' || c == ' ' || (c >= 0x21 && c <= 0x7e) || c >= 0x80; }

RefSL refStatusLine(const std::string &s, bool relaxed)
{
    RefSL r;
    auto K = [&](RefSL::K k, const char *why) { r.k = k; r.why = why; return r; };
    size_t p;
    if (s.empty()) return K(RefSL::NeedMore, "empty");
    if (startsWith(s, "HTTP/1.")) {
        p = 7;
        if (p == s.size()) return K(RefSL::NeedMore, "minor version digit missing so far");
        if (!isDigit(s[p])) return K(RefSL::Invalid, "minor version is not a digit");
        r.minor = s[p++] - '0';
        if (p == s.size()) return K(RefSL::NeedMore, "delimiter after version missing so far");
        if (!isDelim(s[p], relaxed)) return K(RefSL::Invalid, "no delimiter after HTTP-version");
        ++p;
    } else if (startsWith(s, "ICY ")) {
        r.icy = true;
        p = 4;
    } else if (isProperPrefixOf(s, "HTTP/1.") || isProperPrefixOf(s, "ICY ")) {
        return K(RefSL::NeedMore, "proper prefix of a protocol magic");
    } else if (startsWith(s, "HTTP/") || startsWith(s, "ICY")) {
        return K(RefSL::NoOpinion, "HTTP/ or ICY prefix that is not HTTP/1. or 'ICY ': the statement is silent");
    } else {
        return K(RefSL::Zero9, "no HTTP/ICY prefix");
    }
    size_t n = 0;
    while (n < 3 && p + n < s.size() && isDigit(s[p + n])) ++n;
    if (p + n == s.size()) return K(RefSL::NeedMore, "status-code or its delimiter missing so far");
    if (n == 0) return K(RefSL::Invalid, "status-code does not start with a digit");
    if (!isDelim(s[p + n], relaxed)) return K(RefSL::Invalid, "status-code not followed by a delimiter (or more than 3 digits)");
    if (n < 3) return K(RefSL::Invalid, "status-code shorter than 3 digits");
    r.status = (s[p] - '0') * 100 + (s[p+1] - '0') * 10 + (s[p+2] - '0');
    if (r.status < 100 || r.status > 599) return K(RefSL::Invalid, "status-code outside 100..599");
    p += 4;
    size_t q = p;
    while (q < s.size() && isReasonChar(s[q])) ++q;
    if (q == s.size()) return K(RefSL::NeedMore, "line terminator missing so far");
    r.reason = s.substr(p, q - p);
    if (s[q] == '\n' && relaxed) { r.lineEnd = q + 1; return K(RefSL::Valid, ""); }
    if (s[q] != '\r') return K(RefSL::Invalid, "octet not allowed in reason-phrase");
    if (q + 1 == s.size()) return K(RefSL::NeedMore, "LF after CR missing so far");
    if (s[q + 1] != '\n') return K(RefSL::Invalid, "CR not followed by LF");
    r.lineEnd = q + 2;
    return K(RefSL::Valid, "");
}

// one-shot result vs the reference
void checkAgainstReference(const std::string &s, const Config1 &c, const Run &a, const Snap &one)
{
    ++nRefChecks;
    const RefSL r = refStatusLine(s, c.relaxed);
    static const char *kn[] = {"http0.9-body", "no-opinion", "need-more", "invalid", "valid"};
    const std::string l = label(one);
    const bool zero9 = isZero9(one);
    // the status line was accepted: parser went on to (or past) the mime block with a real protocol
    const bool lineAccepted = !zero9 && one.ret != 2 && one.completedStatus && one.proto != 0 &&
                              (one.stage == (int)Http1::HTTP_PARSE_MIME ||
                               (one.stage == (int)Http1::HTTP_PARSE_DONE && (one.ret == 1 || one.parseStatus == (int)Http::scHeaderTooLarge)));
    const bool needMoreFirst = one.stage == (int)Http1::HTTP_PARSE_FIRST || one.stage == (int)Http1::HTTP_PARSE_NONE;
    const bool rejectedLine = one.stage == (int)Http1::HTTP_PARSE_DONE && one.ret == 0 && one.parseStatus == (int)Http::scInvalidHeader;
    std::string bad;
    switch (r.k) {
    case RefSL::NoOpinion:
        ++nNoOpinion;
        break;
    case RefSL::Zero9:
        if (!zero9) bad = "input has no HTTP/ICY prefix but is not treated as an HTTP/0.9 body";
        else if (one.rest() != s) bad = "HTTP/0.9 body: bytes were consumed";
        break;
    case RefSL::NeedMore:
        if (!needMoreFirst) bad = "every byte so far fits a valid status line, but the parser did not ask for more data";
        break;
    case RefSL::Invalid:
        if (lineAccepted || zero9) bad = std::string("malformed status line (") + r.why + ") was " + (zero9 ? "treated as HTTP/0.9 body" : "accepted");
        else if (!rejectedLine) V::count("observation:invalid-status-line-not-rejected-yet:" + l);
        break;
    case RefSL::Valid:
        if (!lineAccepted) bad = "valid status line was not accepted";
        else {
            if (!r.icy && !(one.proto == (int)AnyP::PROTO_HTTP && one.major == 1 && one.minor == r.minor)) bad += " version";
            if (r.icy && one.proto != (int)AnyP::PROTO_ICY) bad += " protocol";
            if (one.status != r.status) bad += " status";
            if (one.stage == (int)Http1::HTTP_PARSE_MIME) {
                if (str(one.reason) != r.reason) bad += " reason";
                // the first line, and nothing else, must have been consumed
                if (str(a.p.buf_) != s.substr(r.lineEnd)) bad += " consumed-length";
            } else if (str(one.reason) != r.reason) bad += " reason";
            if (!bad.empty()) bad = "accepted, but these fields are not the grammar's fields:" + bad;
        }
        break;
    }
    if (zero9 && (startsWith(s, "HTTP/1.") || startsWith(s, "ICY "))) bad = "input starting with a protocol magic treated as HTTP/0.9 body";
    if (lineAccepted && r.k != RefSL::Valid && r.k != RefSL::NoOpinion && bad.empty()) bad = "status line accepted although the reference does not see a complete valid one";
    if (!bad.empty())
        emit(std::string("status-line:relaxed=") + std::to_string(c.relaxed) + ":reference=" + kn[r.k] + ":squid=" + l + ":" + (bad.size() > 60 ? bad.substr(0, 60) : bad),
             "relaxed_header_parser=" + std::to_string(c.relaxed) + " reply_header_max_size=" + std::to_string(c.maxHdr) + ": " + bad +
             " | reference: " + kn[r.k] + " (" + r.why + ") minor=" + std::to_string(r.minor) + " status=" + std::to_string(r.status) + " reason='" + V::esc(r.reason) + "' | squid one-shot" + show(one));
}

std::string classOf(const Snap &x) { return label(x); }

void checkOne(const std::string &s, const Config1 &c, bool allSegs, std::string &klass)
{
    Config.onoff.relaxed_header_parser = c.relaxed;
    Config.maxReplyHeaderSize = c.maxHdr;

    Run a;
    a.feed(s, 0, s.size());
    nParses += a.calls;
    const Snap one = a.snap(s);
    klass = classOf(one);
    if (!s.empty())
        checkAgainstReference(s, c, a, one);

    const size_t n = s.size();
    for (size_t k = 1; k < n; ++k) {
        Run b;
        b.feed(s, 0, k);
        if (!b.done()) { b.feed(s, k, n); ++nResumed; }
        else ++nPrefixTerminal;
        nParses += b.calls;
        ++nSplitRuns;
        const Snap two = b.snap(s);
        if (!diff(one, two).empty())
            report(s, "split at " + std::to_string(k) + " ('" + V::esc(s.substr(0, k)) + "' | '" + V::esc(s.substr(k)) + "')", c, one, two);
    }

    if (allSegs && n >= 3) {
        for (uint32_t mask = 0; mask < (1u << (n - 1)); ++mask) {
            if (__builtin_popcount(mask) < 2) continue;
            Run b;
            size_t from = 0;
            std::string cs;
            for (size_t i = 1; i <= n && !b.done(); ++i) {
                if (i == n || (mask >> (i - 1)) & 1) {
                    if (i < n) cs += (cs.empty() ? "" : ",") + std::to_string(i);
                    b.feed(s, from, i);
                    from = i;
                }
            }
            nParses += b.calls;
            ++nSegRuns;
            const Snap seg = b.snap(s);
            if (!diff(one, seg).empty())
                report(s, "segmentation, pieces delivered end at [" + cs + "]", c, one, seg);
        }
    }
}

const char *const TOKENS_Q[] = {
    "HTTP/1.", "HTTP/", "ICY", "1", "0", " ", "\t", "200", "99", "600", "ICY 200 OK\r\n", "OK", "\r", "\n", "\r\n", "\0", "\x80",
    "X: a\r\n", "HTTP/1.1 200 OK\r\n", "HTTP/1.1 ",
};
// thorough adds: a status with a leading zero, an obs-fold continuation
const char *const TOKENS_T[] = { "099", " a" };

void body(V::Ctx &ctx)
{
    Mem::Init();
    std::vector<std::string> alpha;
    for (const char *t : TOKENS_Q) alpha.push_back(t[0] ? std::string(t) : std::string(1, '\0'));
    if (!ctx.quick())
        for (const char *t : TOKENS_T) alpha.push_back(t);
    const int L = ctx.quick() ? 4 : 5;
    const size_t allSegMax = ctx.quick() ? 8 : 10;
    const Config1 configs[] = {{1, 64}, {0, 64}, {1, 24}, {0, 24}};

    std::vector<int> idx;
    for (int len = 0; len <= L; ++len) {
        idx.assign(len, 0);
        for (;;) {
            std::string s;
            for (int i : idx) s += alpha[i];
            if (V::begin_case("t:" + V::esc(s))) {
                bool nontrivial = false;
                std::string primary;
                for (const Config1 &c : configs) {
                    std::string k;
                    checkOne(s, c, s.size() <= allSegMax, k);
                    V::count("class:relaxed=" + std::to_string(c.relaxed) + ",max=" + std::to_string(c.maxHdr) + ":" + k);
                    if (primary.empty()) primary = k;
                    if (k != "http0.9-body" && k != "need-more:magic" && k != "need-more:none")
                        nontrivial = true;
                }
                // one outcome class per input: its one-shot class under relaxed=1,max=64, or "trivial"
                V::outcome(nontrivial ? "nontrivial:" + primary : "trivial");
                static std::set<std::string> sampled;
                if (nontrivial && sampled.insert(primary).second)
                    V::count("sample:'" + V::esc(s) + "' -> one-shot (relaxed, max 64) " + primary + "; reference status-line check + all " + std::to_string(s.size() ? s.size() - 1 : 0) + " 2-piece splits x 4 configurations compared");
                V::end_case();
            }
            int k = len - 1;
            while (k >= 0 && ++idx[k] == (int)alpha.size()) { idx[k] = 0; --k; }
            if (k < 0) break;
        }
    }
    V::count("parser_calls", nParses);
    V::count("reference_checks", nRefChecks);
    V::count("reference_no_opinion", nNoOpinion);
    V::count("two_piece_runs", nSplitRuns);
    V::count("two_piece_runs_resumed_after_need_more", nResumed);
    V::count("two_piece_runs_terminal_on_prefix", nPrefixTerminal);
    V::count("multi_piece_segmentation_runs", nSegRuns);
    for (auto &kc : keyCounts) V::count("failing_runs:" + kc.first, kc.second);
}

} // namespace

VHARNESS_MAIN(body)
