// C21 — Http1::RequestParser: the outcome does not depend on how the input is segmented (E1).
//
// Real code: src/http/one/RequestParser.cc + Parser.cc (+ Tokenizer, mime_header.cc headersEnd) of the
// current tree, driven with the calling protocol of ConnStateData::parseHttpRequest()
// (src/client_side.cc):   inBuf.append(more); ok = hp->parse(inBuf); inBuf = hp->remaining();
// the parser is used until needsMoreData() becomes false.
//
// Oracle (DESIGN 4.1 "induction"): for every input s, every configuration and EVERY split point k the
// complete parser+caller state after delivering s[:k] then s[k:] equals the complete state after
// delivering s at once.  "Complete" = every data member of RequestParser/Parser (read with
// -fno-access-control) + the last return value + the caller's buffer + the undelivered suffix.
// When the parser already terminates on s[:k], the undelivered suffix s[k:] is accounted to the
// remaining bytes (the caller never feeds a finished parser), so the comparison then says "a decision
// taken on a prefix is the decision taken on the whole".  Complete-state equality for all 2-splits
// composes to every segmentation; for short inputs all 2^(n-1) segmentations are run as a cross-check.
#include "squid.h"
#include "http/one/RequestParser.h"
#include "http/RequestMethod.h"
#include "mem/forward.h"
#include "sbuf/SBuf.h"
#include "SquidConfig.h"

#include "vharness.h"

#include <exception>

namespace {

struct Snap {                 // SBuf copies share the parser's storage: taking a snapshot allocates nothing
    int ret = -1;             // 0 false, 1 true, 2 threw, -1 parse() never called
    int stage = 0;
    int status = 0;
    int methodId = 0;
    SBuf methodImage;
    SBuf uri;
    int proto = 0, major = 0, minor = 0;
    SBuf mime;
    SBuf parsed;              // parsed_ (preserveParsed_ is on)
    bool hack = false;
    SBuf buf;                 // parser.remaining()
    std::string undelivered;  // input not yet handed to the caller (non-empty only if the parser finished on a prefix)
    std::string rest() const { return std::string(buf.rawContent(), buf.length()) + undelivered; } // what the connection still holds
    const char *retName() const { return ret == 1 ? "true" : ret == 0 ? "false" : ret == 2 ? "threw" : "none"; }
};

std::string str(const SBuf &b) { return std::string(b.rawContent(), b.length()); }

struct Run {
    Http1::RequestParser p{true};
    SBuf inBuf;
    size_t delivered = 0;
    int ret = -1;
    uint64_t calls = 0;

    void feed(const std::string &s, size_t from, size_t to) {
        if (to <= from) return;
        inBuf.append(s.data() + from, to - from);
        delivered = to;
        if (inBuf.isEmpty()) return; // parseRequests() only parses a non-empty buffer
        ++calls;
        try {
            ret = p.parse(inBuf) ? 1 : 0;
        } catch (...) {
            ret = 2;
        }
        inBuf = p.remaining();
    }
    bool done() const { return !p.needsMoreData() || ret == 2; }

    Snap snap(const std::string &s) const {
        Snap x;
        x.ret = ret;
        x.stage = (int)p.parsingStage_;
        x.status = (int)p.parseStatusCode;
        x.methodId = (int)p.method_.id();
        x.methodImage = p.method_.image();
        x.uri = p.uri_;
        x.proto = (int)p.msgProtocol_.protocol; x.major = p.msgProtocol_.major; x.minor = p.msgProtocol_.minor;
        x.mime = p.mimeHeaderBlock_;
        x.parsed = p.parsed_;
        x.hack = p.hackExpectsMime_;
        x.buf = p.buf_;
        if (delivered < s.size()) x.undelivered = s.substr(delivered);
        return x;
    }
};

std::string show(const Snap &x)
{
    return std::string("{ret=") + x.retName() + " stage=" + std::to_string(x.stage) + " status=" + std::to_string(x.status) +
           " method=" + std::to_string(x.methodId) + ":'" + V::esc(str(x.methodImage)) + "' uri='" + V::esc(str(x.uri)) + "' ver=" +
           std::to_string(x.proto) + "/" + std::to_string(x.major) + "." + std::to_string(x.minor) + " mime='" + V::esc(str(x.mime)) +
           "' parsed='" + V::esc(str(x.parsed)) + "' rest='" + V::esc(x.rest()) + "'}";
}

// names of the members that differ ("" = equal)
std::string diff(const Snap &a, const Snap &b)
{
    std::string d;
    auto add = [&](bool ne, const char *n) { if (ne) { if (!d.empty()) d += "+"; d += n; } };
    add(a.ret != b.ret, "ret");
    add(a.stage != b.stage, "stage");
    add(a.status != b.status, "status");
    add(a.methodId != b.methodId || a.methodImage != b.methodImage, "method");
    add(a.uri != b.uri, "uri");
    add(a.proto != b.proto || a.major != b.major || a.minor != b.minor, "version");
    add(a.mime != b.mime, "mime");
    add(a.hack != b.hack, "hack");
    // After a rejection ConnStateData::parseHttpRequest() discards the whole input buffer and nothing reads
    // parsed(): how many bytes a *rejecting* parser consumed is not observable, so it is not compared.
    const bool bothRejected = a.ret == 0 && b.ret == 0 &&
                              a.stage == (int)Http1::HTTP_PARSE_DONE && b.stage == (int)Http1::HTTP_PARSE_DONE;
    if (!bothRejected) {
        add(a.parsed != b.parsed, "parsed");
        add(a.undelivered.empty() && b.undelivered.empty() ? a.buf != b.buf : a.rest() != b.rest(), "rest");
    }
    return d;
}

// outcome label in the property's terms
std::string label(const Snap &x)
{
    if (x.ret == 2) return "threw";
    if (x.stage != (int)Http1::HTTP_PARSE_DONE) {
        if (x.stage == (int)Http1::HTTP_PARSE_NONE) return "need-more:none";
        if (x.stage == (int)Http1::HTTP_PARSE_FIRST) return "need-more:first-line";
        return "need-more:mime";
    }
    if (x.ret == 1) return x.major == 0 ? "accepted-0.x" : "accepted-1.x";
    return "rejected-" + std::to_string(x.status);
}

struct Config1 { int relaxed; size_t maxHdr; };

uint64_t nParses = 0, nSplitRuns = 0, nSegRuns = 0, nPrefixTerminal = 0, nResumed = 0;
std::set<std::string> keysEmitted;
std::map<std::string, uint64_t> keyCounts;

// A precise name for a failure class that is recognised from the input, the cuts and the *predicted* wrong
// outcome; anything else gets a generic key (and is therefore never hidden by a known finding).
std::string knownPattern(const std::string &s, const std::vector<size_t> &cuts, const Config1 &c, const Snap &one, const Snap &two)
{
    // offset of the request line = end of the leading empty lines the relaxed parser skips
    size_t ls = 0;
    if (c.relaxed) {
        for (;;) {
            if (ls < s.size() && s[ls] == '\n') { ++ls; continue; }
            if (ls + 1 < s.size() && s[ls] == '\r' && s[ls+1] == '\n') {
                // (A) a piece ends between the CR and the LF of a leading empty line: the lone CR starts
                // "the request line", which is then rejected as having no method
                for (size_t k : cuts)
                    if (k == ls + 1 && label(two) == "rejected-400" && two.methodId == (int)Http::METHOD_NONE)
                        return "relaxed:leading-empty-line-CRLF-split-between-CR-and-LF:rejected-400";
                ls += 2; continue;
            }
            break;
        }
    }
    // (B) the request line does not end within request_header_max_size bytes: 414 is reported only if a piece
    // boundary shows the parser >= max bytes without LF; a delivery that includes the LF parses the long line
    const size_t lf = s.find('\n', ls);
    const size_t lineLen = (lf == std::string::npos ? s.size() : lf) - ls;
    if (lineLen >= c.maxHdr && label(two) == "rejected-414" && label(one) != "rejected-414") {
        for (size_t k : cuts)
            if (k >= ls + c.maxHdr && (lf == std::string::npos || k <= lf))
                return "limit:request-line-reaches-request_header_max_size-before-LF:414-only-when-split-there";
    }
    return "";
}

void report(const std::string &s, const std::string &how, const std::vector<size_t> &cuts, const Config1 &c, const Snap &one, const Snap &two)
{
    const std::string d = diff(one, two);
    std::string key = knownPattern(s, cuts, c, one, two);
    const std::string sig = "one-shot=" + label(one) + ",split=" + label(two) + ",differ=" + d;
    if (key.empty())
        key = "seg-dependence:relaxed=" + std::to_string(c.relaxed) + ":" + sig;
    ++keyCounts[key];
    if (!keysEmitted.insert(key).second)
        return; // one report per class and shard (the counter has the total)
    V::failKey(key, "relaxed_header_parser=" + std::to_string(c.relaxed) + " request_header_max_size=" + std::to_string(c.maxHdr) +
               " " + how + ": " + sig + " one-shot" + show(one) + " split" + show(two));
}

// classes of one-shot outcomes (for coverage / vacuity)
std::string classOf(const Snap &x, const std::string &s)
{
    const std::string l = label(x);
    if (l == "rejected-400" && x.methodId == (int)Http::METHOD_NONE) return "rejected-400:no-method";
    if (l == "rejected-400") return "rejected-400:after-method";
    if (l == "need-more:first-line" && s.find('\n') == std::string::npos) return "need-more:no-LF";
    return l;
}

void checkOne(const std::string &s, const Config1 &c, bool allSegs, std::string &klass)
{
    Config.onoff.relaxed_header_parser = c.relaxed;
    Config.maxRequestHeaderSize = c.maxHdr;

    Run a;
    a.feed(s, 0, s.size());
    nParses += a.calls;
    const Snap one = a.snap(s);
    klass = classOf(one, s);

    const size_t n = s.size();
    for (size_t k = 1; k < n; ++k) {
        Run b;
        b.feed(s, 0, k);
        if (!b.done()) { b.feed(s, k, n); ++nResumed; }
        else ++nPrefixTerminal;
        nParses += b.calls;
        ++nSplitRuns;
        const Snap two = b.snap(s);
        if (!diff(one, two).empty())
            report(s, "split at " + std::to_string(k) + " ('" + V::esc(s.substr(0, k)) + "' | '" + V::esc(s.substr(k)) + "')", {k}, c, one, two);
    }

    if (allSegs && n >= 3) {
        // every segmentation with >= 3 pieces (1 and 2 pieces are covered above)
        for (uint32_t mask = 0; mask < (1u << (n - 1)); ++mask) {
            if (__builtin_popcount(mask) < 2) continue;
            Run b;
            size_t from = 0;
            std::vector<size_t> cuts;
            for (size_t i = 1; i <= n && !b.done(); ++i) {
                if (i == n || (mask >> (i - 1)) & 1) {
                    if (i < n) cuts.push_back(i);
                    b.feed(s, from, i);
                    from = i;
                }
            }
            nParses += b.calls;
            ++nSegRuns;
            const Snap seg = b.snap(s);
            if (!diff(one, seg).empty()) {
                std::string cs;
                for (size_t i : cuts) cs += (cs.empty() ? "" : ",") + std::to_string(i);
                report(s, "segmentation, pieces delivered end at [" + cs + "]", cuts, c, one, seg);
            }
        }
    }
}

const char *const TOKENS_Q[] = {
    "GET", " ", "/", " HTTP/1.1", "\r\n", "\n", "\r",
    "GET / HTTP/1.1\r\n", "Host: h\r\n", "a:b", "\t", "X", "HTTP/12.1", "\0", "\x0b", "\x80", "http://h/", "HTTP/1.0",
    "aaaaaaaaaaaaaaaa",
};
// thorough adds: a POST line (no HTTP/0.9 fallback)
const char *const TOKENS_T[] = { "POST / HTTP/1.1\r\n" };

void body(V::Ctx &ctx)
{
    Mem::Init();
    std::vector<std::string> alpha;
    for (const char *t : TOKENS_Q) alpha.push_back(t[0] ? std::string(t) : std::string(1, '\0'));
    if (!ctx.quick())
        for (const char *t : TOKENS_T) alpha.push_back(t);
    const int L = ctx.quick() ? 4 : 5;
    const size_t allSegMax = ctx.quick() ? 8 : 10;
    // limits below 34 (32-byte method + 2 delimiters) would make the "whom to blame" step of the limit path look at
    // a truncated method field; real configurations are far above that
    const Config1 configs[] = {{1, 64}, {0, 64}, {1, 36}, {0, 36}};

    std::vector<int> idx;
    for (int len = 0; len <= L; ++len) {
        idx.assign(len, 0);
        for (;;) {
            std::string s;
            for (int i : idx) s += alpha[i];
            if (V::begin_case("t:" + V::esc(s))) {
                bool nontrivial = false;
                std::string primary;
                for (const Config1 &c : configs) {
                    std::string k;
                    checkOne(s, c, s.size() <= allSegMax, k);
                    V::count("class:relaxed=" + std::to_string(c.relaxed) + ",max=" + std::to_string(c.maxHdr) + ":" + k);
                    if (primary.empty()) primary = k;
                    if (k != "rejected-400:no-method" && k != "need-more:no-LF" && k != "need-more:none")
                        nontrivial = true;
                }
                // one outcome class per input: its one-shot class under relaxed=1,max=64, or "trivial"
                V::outcome(nontrivial ? "nontrivial:" + primary : "trivial");
                static std::set<std::string> sampled;
                if (nontrivial && sampled.insert(primary).second)
                    V::count("sample:'" + V::esc(s) + "' -> one-shot (relaxed, max 64) " + primary + "; all " + std::to_string(s.size() ? s.size() - 1 : 0) + " 2-piece splits x 4 configurations compared");
                V::end_case();
            }
            int k = len - 1;
            while (k >= 0 && ++idx[k] == (int)alpha.size()) { idx[k] = 0; --k; }
            if (k < 0) break;
        }
    }
    V::count("parser_calls", nParses);
    V::count("two_piece_runs", nSplitRuns);
    V::count("two_piece_runs_resumed_after_need_more", nResumed);
    V::count("two_piece_runs_terminal_on_prefix", nPrefixTerminal);
    V::count("multi_piece_segmentation_runs", nSegRuns);
    for (auto &kc : keyCounts) V::count("failing_runs:" + kc.first, kc.second);
}

} // namespace

VHARNESS_MAIN(body)
