"""C01 Response bodies are relayed byte-exactly with correct framing — E3, bounded input product.

The real (ASan) squid binary runs in lock-step between a driver-played client and a driver-played
origin.  Every case is one origin response (status x framing x chunk layout x body size from the
boundary set B x write segmentation x completeness) fetched by an HTTP/1.1 or HTTP/1.0 client, with
caching off or with the memory cache on and a second request for the same URL.  The oracle is a strict,
independent HTTP/1.x response parser run over the bytes the client socket received.
"""
import re
import time

from vverif import bodyrelay as br
from vverif import httpref
from vverif import lockstep as ls
from vverif.core import Result, Violation, HarnessError

LEVEL = 'exploration'

REASON = {200: 'OK', 404: 'Not Found', 500: 'Internal Server Error', 301: 'Moved Permanently'}
DATE0 = ls.http_date(ls.T0_US)          # the virtual clock is never advanced by a case: a constant, fresh Date
CONF = ('acl vnocache urlpath_regex ^/n/\n'
        'cache deny vnocache\n'
        'maximum_object_size 16 MB\n'
        'cache_mem 64 MB\n')


# ------------------------------------------------------------------ the origin's message

def origin_head(case, length_for_cl):
    L = ['HTTP/1.1 %d %s' % (case['st'], REASON[case['st']]), 'Date: ' + DATE0]
    if case['st'] == 301:
        L.append('Location: http://origin.test/moved')
    if case['cache']:
        L.append('Cache-Control: max-age=3600')
    if case['fr'] == 'cl':
        L.append('Content-Length: %d' % length_for_cl)
    elif case['fr'] == 'chunked':
        L.append('Transfer-Encoding: chunked')
    return ('\r\n'.join(L) + '\r\n\r\n').encode('latin1')


def origin_message(case, version=1, size=None):
    """-> (head, payload, body): payload is the body in the origin's framing."""
    size = case['size'] if size is None else size
    body = br.pattern(version, size)
    head = origin_head(case, len(body))
    payload = br.chunked(body, case.get('ck', 'one')) if case['fr'] == 'chunked' else body
    return head, payload, body


def size_for_total(case, total):
    """Body size for which head+payload is exactly `total` bytes long (None if there is none)."""
    size = max(0, total - 200)
    for _ in range(8):
        h, p, _b = origin_message(case, 1, size)
        d = total - (len(h) + len(p))
        if d == 0:
            return size
        size += d
        if size < 0:
            return None
    return None


# ------------------------------------------------------------------ case space

def sizes_B(ctx):
    """Boundary set B: quick up to 64 KB+1; thorough up to 512 KB+1 plus 1 MiB+1 and 4 MiB+3."""
    if ctx.quick:
        return br.boundary_sizes(ctx.tree, 65536)
    return br.boundary_sizes(ctx.tree, 4 << 20, extra=((1 << 20) + 1, (4 << 20) + 3))


def all_cases(ctx):
    """The whole (tier-dependent) case list, in a fixed order.  Every case is a JSON-able dict."""
    T = not ctx.quick
    k = br.tree_constants(ctx.tree)
    page = k['SM_PAGE_SIZE']
    limit = (4 << 20) if T else 65536
    B = sizes_B(ctx)
    Bq = B
    bnd = br.boundaries(ctx.tree, limit)
    cases = []

    def add(fam, **kw):
        c = {'fam': fam, 'st': 200, 'fr': 'cl', 'ck': 'one', 'ver': '1.1', 'cache': 0, 'cut': None, 'seg': None}
        c.update(kw)
        if c['fr'] != 'chunked':
            c['ck'] = '-'
        c['n'] = len(cases)
        cases.append(c)

    FR_SMALL = [('cl', '-'), ('chunked', 'one'), ('chunked', 'b1'), ('chunked', 'exttrailer'), ('close', '-')]
    # F1 split: small messages, every 2-piece (T: also every 3-piece) split of the origin's byte stream
    for fr, ck in FR_SMALL:
        for size in (0, 1, 7) if not T else (0, 1, 2, 7):
            for ver in ('1.1', '1.0'):
                base = {'fr': fr, 'ck': ck, 'size': size, 'ver': ver, 'st': 200, 'cache': 0}
                h, p, _b = origin_message(dict(base, ck=ck))
                total = len(h) + len(p)
                for a in range(1, total):
                    add('split2', seg=[a], **base)
    if T:
        for fr, ck, size3 in (('cl', '-', 3), ('chunked', 'halves', 3), ('close', '-', 3), ('chunked', 'b1', 2), ('chunked', 'exttrailer', 1)):
            for ver in ('1.1', '1.0'):
                base = {'fr': fr, 'ck': ck, 'size': size3, 'ver': ver, 'st': 200, 'cache': 0}
                h, p, _b = origin_message(dict(base, ck=ck))
                total = len(h) + len(p)
                for a in range(1, total):
                    for b in range(a + 1, total):
                        add('split3', seg=[a, b], **base)
    # F2 prefix: small messages, the origin closes after every proper prefix of its stream
    for fr, ck in (('cl', '-'), ('chunked', 'one'), ('chunked', 'b1'), ('chunked', 'exttrailer')):
        for size in (1, 7) if not T else (1, 2, 7, 40):
            for ver in ('1.1', '1.0'):
                for cache in (0, 1):
                    if cache and not (size == 7 or T):
                        continue
                    base = {'fr': fr, 'ck': ck, 'size': size, 'ver': ver, 'st': 200, 'cache': cache}
                    h, p, _b = origin_message(dict(base, ck=ck))
                    total = len(h) + len(p)
                    for cut in range(0, total):
                        add('prefix', cut=cut, **base)
    # F3 sizes: status x framing/layout x size in B x version x caching x completeness, written in one piece
    FR_BIG = [('cl', '-'), ('chunked', 'one'), ('chunked', 'page'), ('chunked', 'odd'), ('close', '-')]
    if T:
        FR_BIG += [('chunked', 'exttrailer')]
    for st in (200, 404, 500, 301):
        for fr, ck in FR_BIG:
            for size in Bq:
                for ver in ('1.1', '1.0'):
                    for cache in (0, 1):
                        for comp in ('full', 'm1', 'half', 'head'):
                            if comp != 'full' and (fr == 'close' or size == 0):
                                continue      # a close-delimited origin cannot be "early"; nothing to cut off an empty body
                            if not T and st in (500, 301) and (comp in ('m1', 'head') or ck in ('page', 'odd')):
                                continue      # quick: the full completeness / layout product for 200 and 404 only
                            if size > (1 << 20) and (st != 200 or comp == 'head'):
                                continue
                            add('sizes', st=st, fr=fr, ck=ck, size=size, ver=ver, cache=cache, cut=comp)
    # F3b totals: the whole origin message (head + framed body) ends exactly on / next to a boundary
    for fr, ck in (('cl', '-'), ('chunked', 'one'), ('close', '-')):
        for b in bnd:
            if b > (1 << 20):
                continue
            for d in (-1, 0, 1):
                for ver in ('1.1', '1.0'):
                    for cache in (0, 1):
                        base = {'fr': fr, 'ck': ck, 'ver': ver, 'st': 200, 'cache': cache}
                        size = size_for_total(dict(base, size=0), b + d)
                        if size is None:
                            continue
                        add('totals', size=size, total=b + d, **base)
    # F4 bigsplit: large bodies, one cut at every boundary +-1 (stream offsets and body offsets), and
    # byte-at-a-time delivery of the first / last 32 bytes and of the first 32 body bytes
    big_sizes = [page + 1, k['read_ahead_gap'] + 1, 65537] + ([2 * 65536 + 1, (1 << 20) + 1] if T else [])
    for fr, ck in FR_BIG:
        for size in big_sizes:
            for ver in ('1.1', '1.0'):
                for cache in ((0, 1) if T else (0,)):
                    base = {'fr': fr, 'ck': ck, 'size': size, 'ver': ver, 'st': 200, 'cache': cache}
                    h, p, _b = origin_message(dict(base))
                    total = len(h) + len(p)
                    pts = set(br.cuts_around(total, [len(h)] + bnd + [len(h) + x for x in bnd] + [total - 5, total - 2]))
                    for a in sorted(pts):
                        add('bigsplit', seg=[a], **base)
                    for seg in ('bytes-first', 'bytes-body-first', 'bytes-last'):
                        add('bigsplit', seg=seg, **base)
                    if T or ck in ('-', 'page'):
                        # every boundary cut at once (multi-piece)
                        add('bigsplit', seg=sorted(set(br.cuts_around(total, bnd + [len(h) + x for x in bnd], 0))), **base)
    # F5 slowclient: Squid's own socket buffers are small (tcp_recv_bufsize) and the client does not read until
    # everything has come to a standstill, so the body has to wait inside Squid (read_ahead_gap, delayed reads)
    # while the origin may already have finished or closed early
    slow_sizes = [k['read_ahead_gap'] + 1, 2 * k['read_ahead_gap'] + 1, 65537] + ([2 * 65536 + 1, k['maximum_object_size_in_memory'] + 1, (1 << 20) + 1] if T else [])
    for fr, ck in FR_BIG:
        for size in slow_sizes:
            for ver in ('1.1', '1.0'):
                for cache in (0, 1):
                    for comp in ('full', 'half'):
                        if comp != 'full' and fr == 'close':
                            continue
                        for drain in ('stall', 'sip'):
                            if drain == 'sip' and size > 2 * 65536 + 1:
                                continue
                            add('slowclient', fr=fr, ck=ck, size=size, ver=ver, cache=cache, cut=comp, drain=drain)
    # F6 refwd: two forwarding paths (two originserver cache_peers played by the driver).  The first path answers
    # a small complete 502, which makes Squid re-forward the request; the second path sends the case's message,
    # complete or cut.  State left over from the abandoned first attempt must not make a cut body look complete.
    for fr, ck in [('cl', '-'), ('chunked', 'one'), ('chunked', 'page'), ('close', '-')]:
        for size in [7, page + 1, k['read_ahead_gap'] + 1] + ([65537] if T else []):
            for ver in ('1.1', '1.0'):
                for comp in (None, 'm1', 'half', 'head'):
                    if comp is not None and fr == 'close':
                        continue
                    add('refwd', fr=fr, ck=ck, size=size, ver=ver, cache=0, cut=comp)
    return cases


def describe(c):
    return '%s st=%d %s/%s size=%d ver=%s cache=%d cut=%s seg=%s%s' % (
        c['fam'], c['st'], c['fr'], c['ck'], c['size'], c['ver'], c['cache'], c['cut'], c['seg'],
        (' drain=' + c['drain']) if c.get('drain') else '')


def key_of(c):
    return '%s:%s:%s:http%s:cache%d:%s' % (c['fam'], c['fr'], c['ck'], c['ver'], c['cache'],
                                           'complete' if c['cut'] is None or c['cut'] == 'full' else 'truncated')


# ------------------------------------------------------------------ one transaction through Squid

class Tx:
    pass


def transact(w, request, plan_for, max_rounds=3000, slow=None):
    """Send `request` on a new client connection; the origin answers the n-th request it parses with
    plan_for(n, reqmsg) = (pieces, then) — one piece per driver round.  Runs until the client has a complete
    response / EOF, or nothing moves any more.  slow='stall': the client (small receive buffer) reads nothing
    until everything else has come to a standstill, then drains; slow='sip': ... then reads 1 KB per round."""
    sq = w.sq
    t = Tx()
    t.origin_reqs, t.origin_raw, t.feeders = [], b'', []
    c = br.small_client(sq) if slow else sq.client()
    draining = not slow
    t.backpressure_rounds = 0
    c.send(request)
    oconns = []
    idle = 0
    grace = 0
    t.rounds = 0
    t.stalled = False
    while t.rounds < max_rounds:
        t.rounds += 1
        sq.settle()
        progressed = False
        for lst in [w.origin] + list(getattr(w, 'more_origins', [])):
            for oc in lst.accept_all():
                oconns.append({'c': oc, 'raw': b'', 'upto': 0, 'feeder': None})
                progressed = True
        for o in oconns:
            oc = o['c']
            if oc.closed:
                continue
            if oc.pump():
                progressed = True
                d = oc.take()
                o['raw'] += d
                t.origin_raw += d
            if o['feeder'] is None:
                m = httpref.parse_request(o['raw'][o['upto']:])
                if m.complete and not m.error and m.consumed > 0:
                    o['upto'] += m.consumed
                    t.origin_reqs.append(m)
                    plan = plan_for(len(t.origin_reqs) - 1, m)
                    if plan is not None:
                        o['feeder'] = br.Feeder(oc, plan[0], plan[1])
                        t.feeders.append(o['feeder'])
            f = o['feeder']
            if f is not None and not f.finished:
                if f.step():
                    progressed = True
            elif oc.eof and not oc.closed:
                oc.close()
                progressed = True
        if draining:
            if (br.sip(c, 1024) if slow == 'sip' else c.pump()):
                progressed = True
        elif not progressed:
            draining = True          # standstill: the origin is done or blocked and Squid is idle -> start reading
            t.backpressure_rounds = t.rounds
            t.unread_at_standstill = br.unread_bytes(c)
            progressed = True
        feeding = any(not f.finished for f in t.feeders)
        if not feeding:
            if c.eof:
                if not progressed:
                    break
            elif not progressed or len(c.inbuf) < (1 << 16):
                m = httpref.parse_response(c.inbuf, 'GET', eof=False)
                if m.complete and not m.error and not progressed:
                    break
        if progressed:
            idle = 0
        else:
            idle += 1
            if idle >= 3:
                if grace < 2:
                    # kernel TCP timers (delayed ACK / window update, ~40 ms) run in real time: before declaring a
                    # standstill give them a chance to fire
                    grace += 1
                    idle = 0
                    time.sleep(0.06)
                    continue
                t.stalled = any(not f.finished for f in t.feeders)
                break
    t.client_bytes = c.inbuf
    t.eof = c.eof
    t.reset = c.reset
    c.close()
    for o in oconns:
        o['c'].close()
    sq.settle(1)
    for lst in [w.origin] + list(getattr(w, 'more_origins', [])):
        for oc in lst.accept_all():      # nothing may be left behind for the next case
            oc.close()
    return t


def request_bytes(w, path, ver):
    return ('GET %s HTTP/%s\r\nHost: %s\r\n\r\n' % (w.url(path), ver, w.hostport())).encode('latin1')


# ------------------------------------------------------------------ oracle

def check_response(t, case, ver, bodies, sent_body, upstream_complete):
    """The client's view of one transaction.  bodies: the complete bodies the client may legitimately receive
    (origin versions); sent_body: the decoded body bytes the origin really transmitted for this transaction
    (None: origin not contacted).  Returns (class, violation-or-None)."""
    data = t.client_bytes
    m = httpref.parse_response(data, 'GET', eof=t.eof)
    if not data:
        if upstream_complete:
            return 'no-response', 'the client received nothing (eof=%s) for a complete origin response' % t.eof
        return 'closed-without-response', (None if t.eof else 'client got no byte and no close after the origin closed mid-message')
    if m.error:
        return 'malformed', 'client-side bytes are not a well-formed HTTP/1.x response: %s; head %r' % (m.error, data[:120])
    if not m.head_complete:
        return 'partial-head', 'client received an incomplete response head: %r' % data[:120]
    if m.version != b'HTTP/1.1':
        return 'bad-version', 'status line version %r' % m.version
    te = m.get_all('transfer-encoding')
    if te and m.get_all('content-length'):
        return 'te+cl', 'response carries both Transfer-Encoding and Content-Length: %r' % data[:300]
    if te and ver == '1.0':
        return 'chunked-to-1.0', 'Transfer-Encoding sent to an HTTP/1.0 client: %r' % data[:300]
    D = m.framing
    squid_made = m.has('x-squid-error')
    if squid_made:
        # a Squid-generated error reply: must itself be complete and well framed, and must not pretend to be the origin's
        if not m.complete:
            return 'error-page-incomplete', 'Squid error reply is itself incomplete (framing %s, eof=%s)' % (D, t.eof)
        if upstream_complete:
            return 'error-page', 'Squid answered %d %s to a complete, valid origin response' % (m.status, m.get('x-squid-error'))
        return 'error-page', None
    if m.status != case['st']:
        return 'status-changed', 'status %d, origin sent %d' % (m.status, case['st'])
    if m.complete and m.consumed != len(data):
        return 'trailing-bytes', '%d bytes after the end of the framed response: %r' % (len(data) - m.consumed, data[m.consumed:m.consumed + 40])
    cls = '%s>%s' % (case['fr'] if sent_body is not None else 'hit', D)
    if m.complete and (D != 'close' or upstream_complete):
        # presented as complete: must be one of the legitimate complete bodies
        for b in bodies:
            if m.body == b:
                return cls + ':complete', None
        if upstream_complete:
            return cls + ':wrong-body', 'complete response with a wrong body: ' + br.describe_diff(m.body, bodies[0])
        return cls + ':short-as-complete', ('origin closed early after %d of %d body bytes, but the client got a complete-looking %s '
                                            'response with %d body bytes: %s' % (len(sent_body or b''), len(bodies[0]), D, len(m.body),
                                                                                 br.describe_diff(m.body, bodies[0])))
    # not complete (or close-delimited downstream of a truncated origin: truncation cannot be expressed)
    if upstream_complete:
        return cls + ':incomplete', ('origin response was complete (%d body bytes) but the client-side message is incomplete: framing %s, '
                                     '%d body bytes, eof=%s' % (len(bodies[0]), D, len(m.body), t.eof))
    if not any(b[:len(m.body)] == m.body for b in bodies):
        return cls + ':altered-prefix', 'partial body is not a prefix of the origin body: ' + br.describe_diff(m.body, bodies[0][:len(m.body)])
    if sent_body is not None and len(m.body) > len(sent_body):
        return cls + ':more-than-sent', 'client has %d body bytes, origin sent only %d' % (len(m.body), len(sent_body))
    if not t.eof:
        return cls + ':hang', ('origin closed early; the client has an incomplete %s message (%d body bytes) and the connection is '
                               'still open after Squid went idle' % (D, len(m.body)))
    return cls + (':truncated+close' if D != 'close' else ':close-delimited-prefix'), None


def cut_offset(case, head, payload):
    cut = case['cut']
    total = len(head) + len(payload)
    if cut is None or cut == 'full':
        return None
    if cut == 'm1':
        return total - 1
    if cut == 'half':
        return len(head) + len(payload) // 2
    if cut == 'head':
        return len(head)
    return int(cut)


def run_case(w, case):
    runs = w.__dict__.setdefault('vruns', {})
    rep = runs.get(case['n'], 0)
    runs[case['n']] = rep + 1
    path = '/%s/%d%s' % ('c' if case['cache'] else 'n', case['n'], ('r%d' % rep) if rep else '')
    head, payload, body1 = origin_message(case, 1)
    stream = head + payload
    cut = cut_offset(case, head, payload)
    sent = stream if cut is None else stream[:cut]
    cuts = br.expand_cuts(case['seg'], len(sent), len(head))
    pieces = br.pieces_of(sent, cuts)
    then = None
    if case['fr'] == 'close' or cut is not None:
        then = 'close'
    um = httpref.parse_response(sent, 'GET', eof=True)
    upstream_complete = cut is None or (um.complete and not um.error and um.body == body1)
    sent_body = um.body if um.head_complete else b''
    # second response (only ever sent if Squid contacts the origin again): version 2, complete, one piece
    head2, payload2, body2 = origin_message(case, 2)

    refwd = case['fam'] == 'refwd'
    bad_gateway = ('HTTP/1.1 502 Bad Gateway\r\nDate: %s\r\nContent-Length: 3\r\nX-First-Path: 1\r\n\r\nbad' % ls.http_date(w.sq.now_us)).encode('latin1')

    def plan_for(n, reqmsg):
        if refwd:
            # first path: a complete 502; second path: the message under test; anything later: version 2
            if n == 0:
                return ([bad_gateway], None)
            if n == 1:
                return (pieces, then)
        elif n == 0:
            return (pieces, then)
        return ([head2 + payload2], 'close' if case['fr'] == 'close' else None)
    violation = None
    tr = []
    t1 = transact(w, request_bytes(w, path, case['ver']), plan_for, slow=case.get('drain'))
    if t1.stalled:
        raise HarnessError('case %s: origin could not send its response (back-pressure never released)' % describe(case))
    if refwd and len(t1.origin_reqs) == 1:
        cls1 = 'refwd-not-reforwarded'       # Squid may relay the first path's 502 instead of trying the second path
    elif refwd and len(t1.origin_reqs) == 2:
        t1.origin_raw = b''                   # (peer requests differ in volatile details; keep the transcript stable)
        cls1, violation = check_response(t1, case, case['ver'], [body1], sent_body, upstream_complete)
        cls1 = 'refwd>' + cls1
    elif len(t1.origin_reqs) != 1:
        cls1 = 'origin-requests-%d' % len(t1.origin_reqs)
        violation = 'first request: the origin saw %d requests' % len(t1.origin_reqs)
    else:
        rq = t1.origin_reqs[0]
        if rq.method != b'GET' or not rq.target.endswith(path.encode()):
            raise HarnessError('unexpected upstream request %r' % rq.start)
        cls1, violation = check_response(t1, case, case['ver'], [body1], sent_body, upstream_complete)
    # (slow client + truncated origin: how much got through before the teardown depends on kernel socket-buffer timing)
    tr.append(summary(t1, content=not (case.get('drain') and not upstream_complete)))
    outcome = cls1
    if case.get('drain'):
        # evidence that the body really had to wait inside Squid: less was deliverable at the standstill than in the end
        held = getattr(t1, 'unread_at_standstill', None)
        outcome += ' [held-in-squid]' if held is not None and held < len(t1.client_bytes) else ' [not-held]'
    if case['cache'] and violation is None:
        def plan2(n, reqmsg):
            return ([head2 + payload2], 'close' if case['fr'] == 'close' else None)
        t2 = transact(w, request_bytes(w, path, case['ver']), plan2)
        contacted = len(t2.origin_reqs) > 0
        if len(t2.origin_reqs) > 1:
            violation = 'second request: the origin saw %d requests' % len(t2.origin_reqs)
            cls2 = 'origin-requests-%d' % len(t2.origin_reqs)
        else:
            # legitimate complete bodies: version 1 (from the cache) or, if the origin was asked again, version 2 --
            # never a mix, a shifted or a shortened one.  A stored truncated object may only be served visibly truncated.
            ok_bodies = [body1] + ([body2] if contacted else [])
            cls2, v2 = check_response(t2, case, case['ver'], ok_bodies, body2 if contacted else None, contacted or upstream_complete)
            if v2:
                violation = 'second request (%s): %s' % ('origin contacted again' if contacted else 'served from the cache', v2)
        tr.append(summary(t2))
        outcome += ' | 2nd:' + ('miss:' if contacted else 'hit:') + cls2
    return {'outcome': outcome, 'violation': ('%s -- %s' % (describe(case), violation)) if violation else None,
            'transcript': '\n'.join(tr), 'relayed': cls1.split(':')[0] not in ('error-page', 'closed-without-response', 'no-response')}


def summary(t, content=True):
    """Deterministic digest of a transaction (volatile header values masked, body by decoded content)."""
    m = httpref.parse_response(t.client_bytes, 'GET', eof=t.eof)
    end = t.client_bytes.find(b'\r\n\r\n')
    head = br.mask_head(t.client_bytes[:end if end >= 0 else 0])
    oh = br.mask_head(t.origin_raw)
    return 'O[%d]:%s\nC:%s\nbody=%s framing=%s complete=%s eof=%s err=%s' % (
        len(t.origin_reqs), oh, head, ('%d:%s' % (len(m.body), br.sha(m.body))) if content else 'partial', m.framing, m.complete, t.eof, m.error)


def make_world(ctx, shard):
    return br.patient_world(ctx, 'w%d' % shard, ls.port_base_for_check(ctx.pid, shard), conf=CONF, memory_cache=True)


def make_world_small(ctx, shard):
    """Same, but Squid's TCP socket buffers are 4 KB (tcp_recv_bufsize sets both directions): a peer that does not
    read blocks Squid's writes after a few KB."""
    return br.patient_world(ctx, 's%d' % shard, ls.port_base_for_check(ctx.pid, shard), conf=CONF + br.SMALLBUF_CONF, memory_cache=True)


def make_world_refwd(ctx, shard):
    """Two forwarding paths: two originserver cache_peers on 127.0.0.1 (ports +1 and +5), both played by the driver."""
    pb = ls.port_base_for_check(ctx.pid, shard)
    conf = CONF + ('cache_peer 127.0.0.1 parent %d 0 no-query no-digest originserver name=pathA\n'
                   'cache_peer 127.0.0.1 parent %d 0 no-query no-digest originserver name=pathB\n'
                   'never_direct allow all\n' % (pb + 1, pb + 5))
    w = br.patient_world(ctx, 'p%d' % shard, pb, conf=conf, memory_cache=True)
    w.more_origins = [ls.Listener(pb + 5)]
    stop0 = w.stop

    def stop():
        try:
            stop0()
        finally:
            for l in w.more_origins:
                l.close()
    w.stop = stop
    return w


def world_maker(case):
    return make_world_small if case['fam'] == 'slowclient' else make_world_refwd if case['fam'] == 'refwd' else make_world


ASSUME = ['the real squid binary (ASan build of the current tree) runs under the lock-step/virtual-time shim; client and origin are played by the driver',
          'one Squid instance per shard is reused for all cases of the shard (unique URL per case; "caching off" = a cache deny rule matching the /n/ URL space, '
          'caching on = memory cache, no disk store); origin connections are closed between cases',
          'oracle = strict RFC 9112 response parser (lib/vverif/httpref.py) over the client socket bytes; a Squid-generated error reply is recognised by its X-Squid-Error header',
          'a truncated origin message whose body bytes all arrived (only framing bytes missing) may be delivered as complete; truncation must be visible only where both '
          'the origin framing and the client-side framing can express it']
RULE = ('families: split2/split3 = every 2-/3-piece split of a small origin message; prefix = origin closes after every proper prefix of a small message; '
        'sizes = status {200,404,500,301} x framing/chunk layout x body size in B (0,1,2, buffer/page boundaries +-1) x client version {1.1,1.0} x '
        'caching {deny, memory cache + second request} x completeness {full, 1 byte early, halfway, right after the head}; totals = whole message length on a boundary +-1; '
        'bigsplit = large bodies cut at every boundary +-1 / byte-at-a-time ends; slowclient = Squid with 4 KB socket buffers and a client that reads nothing until '
        'everything stands still (then drains at once / 1 KB per round). non-trivial = cases in which Squid relayed the origin response head to the client '
        '(not answered by an error page / bare close)')


def build(ctx):
    # time spent waiting in the shared build lock (other agents' builds) is not exploration time
    import time
    t = time.time()
    ls.build_squid(ctx)
    ctx.deadline_s += max(0.0, time.time() - t - 20)


def run(ctx):
    build(ctx)
    cases = all_cases(ctx)
    nontrivial = [0]
    relayed_by_key = {}

    def rc(w, case):
        return run_case(w, case)
    r = ls.run_cases(ctx, [c for c in cases if c['fam'] not in ('slowclient', 'refwd')], rc, make_world, key_of=key_of, determinism_n=10)
    r2 = ls.run_cases(ctx, [c for c in cases if c['fam'] == 'slowclient'], rc, make_world_small, key_of=key_of, determinism_n=3, nshards=4)
    r = br.merge_results(r, r2)
    r3 = ls.run_cases(ctx, [c for c in cases if c['fam'] == 'refwd'], rc, make_world_refwd, key_of=key_of, determinism_n=3, nshards=4)
    r = br.merge_results(r, r3)
    oc = r['outcomes']
    complete = sum(v for k, v in oc.items() if ':complete' in k.split(' | ')[0])
    truncated = sum(v for k, v in oc.items() if ':truncated+close' in k.split(' | ')[0])
    hits = sum(v for k, v in oc.items() if '2nd:hit:' in k)
    misses = sum(v for k, v in oc.items() if '2nd:miss:' in k)
    relayed = sum(v for k, v in oc.items() if '>' in k.split(' | ')[0].split(':')[0])
    held = sum(v for k, v in oc.items() if '[held-in-squid]' in k)
    done = r['evaluations'] == len(cases) and not r['deadline_hit']
    reforwarded = sum(v for k, v in oc.items() if k.startswith('refwd>'))
    if not r['violations'] and done and reforwarded < 20:
        raise HarnessError('vacuity guard: only %d re-forwarded transactions in the two-path family: %r' % (reforwarded, oc))
    if not r['violations'] and done and held < 50:
        raise HarnessError('vacuity guard: only %d slow-client cases made the body wait inside Squid: %r' % (held, oc))
    if not r['violations'] and done:
        if complete < len(cases) // 3 or truncated < 20 or hits < 20 or misses < 5:
            raise HarnessError('vacuity guard: complete=%d truncated+close=%d hits=%d misses=%d of %d cases: %r' % (
                complete, truncated, hits, misses, len(cases), oc))
    vio = [Violation(k, what, {'case': c}) for k, what, c in r['violations']]
    vio += [Violation('crash:' + k, 'squid crashed/asserted during case %s: %s' % (describe(c), what), {'case': c}) for k, what, c in r['crashes']]
    fams = {}
    for c in cases:
        fams[c['fam']] = fams.get(c['fam'], 0) + 1
    samples = [{'case': describe(s['case']), 'outcome': s['outcome']} for s in r['samples']]
    cov = {'evaluations': r['evaluations'], 'distinct_nontrivial': relayed, 'rule': RULE, 'samples': samples,
           'outcome_classes': oc, 'exhaustive': done, 'kicks': r['kicks'], 'determinism_replays': r['replays'],
           'cases_total': len(cases), 'cases_per_family': fams, 'complete_relays': complete, 'visible_truncations': truncated,
           'cache_hits_checked': hits, 'second_request_misses': misses, 'slow_client_bodies_held_in_squid': held, 'reforwarded_after_502': reforwarded,
           'sizes_B': sizes_B(ctx)}
    return Result(LEVEL, cov, vio, ASSUME)


def replay(ctx, data):
    ls.build_squid(ctx)
    w = world_maker(data['case'])(ctx, 0)
    w.start()
    try:
        r = run_case(w, data['case'])
        print(r['transcript'])
        print('outcome:', r['outcome'])
        hp = w.sq.health_problems()
    finally:
        w.stop()
    v = [Violation(key_of(data['case']), r['violation'], data)] if r['violation'] else []
    if hp:
        v.append(Violation('crash:' + key_of(data['case']), '; '.join(hp)[:2000], data))
    return Result(LEVEL, {}, v, ASSUME)
