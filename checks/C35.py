"""C35 HTTP date formatting and parsing round-trip — E1, every day 1970..9999 + token mutants of the three date forms."""
from vverif import seq
from vverif.core import Result, HarnessError

LEVEL = 'exploration'
RULE = ('(A) every day 1970-01-01..9999-12-31 x seconds-of-day {0, 43201, 86399, one day-dependent value} (quick) / '
        '{hh:00:00, hh:59:59, one day-dependent value per hour, all 24 hours} (thorough), plus every second of 3 (quick) / 16 '
        '(thorough) boundary days: FormatRfc1123(t) must be the IMF-fixdate of t per an independent calendar and '
        'ParseRfc1123 of it must return t; (B) 53 boundary dates rendered as IMF-fixdate, RFC 850 and asctime, each with '
        'every 1-token edit (delete, replace by / insert one of 102 tokens, swap neighbours) and, thorough, every 2-position '
        'replace/delete edit for 4 dates x 3 forms: whenever Squid accepts a string that a strict RFC 9110 recogniser says '
        'denotes a time, the returned time must be that time.  Cases alternate between TZ=UTC and a DST zone. '
        'non-trivial = each round trip + each distinct (per base string) parser input that is in one of the three forms or '
        'that Squid accepted')
ASSUME = ['src/time/rfc1123.cc is recompiled from the scratch copy of the current tree with -fsanitize=address,undefined '
          '-fno-sanitize-recover; a sanitizer report aborts the case and is a violation',
          'RFC 850 two-digit years are asserted only for 00-69 (=> 20yy) and 77-99 (=> 19yy); strings with an inconsistent '
          'weekday, second 60, a day outside the month or a year before 1970 are exercised but their value is not asserted',
          'the reference calendar/recogniser (about 120 lines, no libc time functions) is trusted']
NONTRIVIAL = ['roundtrip:ok-or-reported', 'parse:denoting-accepted', 'parse:denoting-rejected', 'parse:inform-unasserted-accepted',
              'parse:inform-unasserted-rejected', 'parse:notinform-accepted']


def _build(ctx):
    return seq.build(ctx, 'tests/testMath', ['C35_date.cc'], tree_sources=['time/rfc1123.cc'],
                     tree_flags=['-fsanitize=undefined', '-fno-sanitize-recover=undefined'], ubsan=True)


def run(ctx):
    exe = _build(ctx)
    m = seq.run(ctx, exe)
    cov = seq.coverage_from(m, RULE, nontrivial_classes=NONTRIVIAL, min_classes=5)
    c = m['counters']
    cov['round_trips'] = c.get('round_trips', 0)
    cov['parser_inputs'] = c.get('parser_inputs', 0)
    viol = seq.violations_from(m)
    if not m['deadline_hit'] and not m['crashes']:
        days = 2932897      # 1970-01-01 .. 9999-12-31
        want = days * (4 if ctx.quick else 72) + 86400 * (3 if ctx.quick else 16)
        if cov['round_trips'] != want:
            raise HarnessError('round-trip count %d != expected %d' % (cov['round_trips'], want))
    if m['deadline_hit'] or viol:
        return Result(LEVEL, cov, viol, ASSUME)
    # vacuity: the parser part must have seen accepted, correctly denoting strings in every form, and rejections
    for k, least in (('accepted_imf', 500), ('accepted_rfc850', 300), ('accepted_asctime', 500)):
        if c.get(k, 0) < least and not viol:
            raise HarnessError('vacuity guard: only %d accepted denoting strings for %s (need %d)' % (c.get(k, 0), k, least))
    if m['outcomes'].get('parse:notinform-rejected', 0) < 1000:
        raise HarnessError('vacuity guard: parser rejected almost nothing: %r' % m['outcomes'])
    return Result(LEVEL, cov, viol, ASSUME)


def replay(ctx, data):
    exe = _build(ctx)
    m = seq.replay_case(ctx, exe, data['case'])
    m.setdefault('deadline_hit', False)
    return Result(LEVEL, {}, seq.violations_from(m), ASSUME)
