// C34 (E1 half) — the log-quoting transformations are reversible, emit no raw line breaks and keep the field
// delimited, for every string of bounded length over a hostile alphabet.
//
// Real code: Format::Format::parse + Format::Format::assemble (src/format/Format.cc: the quoting switch with
// log_quoted_string, QuoteMimeBlob, rfc1738_escape, rfc1738_escape_unescaped, strwordquote) driven through a
// real AccessLogEntry whose annotation "k" carries the string (the only %code whose value a harness can set to an
// arbitrary C string without a transaction), plus the quoting functions called directly: Format::QuoteMimeBlob,
// Format::QuoteUrlEncodeUsername, rfc1738_do_escape (three flag sets), strwordquote.
// Oracle: reference un-quoters written from the squid.conf logformat documentation (the same rules as the Python
// ones in C34.py) and a reference lexer of the format  A "%"x" [%[x] %#x %/x %x Z %'x .
#include "squid.h"
#include "AccessLogEntry.h"
#include "format/Format.h"
#include "format/Quoting.h"
#include "MemBuf.h"
#include "Notes.h"
#include "rfc1738.h"
#include "tools.h"

#include "vharness.h"

namespace {

typedef std::string Str;

const char *Unsafe = "<>\"#{}|\\^~[]`' ";

int hexv(unsigned char c)
{
    if (c >= '0' && c <= '9') return c - '0';
    if (c >= 'a' && c <= 'f') return c - 'a' + 10;
    if (c >= 'A' && c <= 'F') return c - 'A' + 10;
    return -1;
}

bool hex2(const Str &s, size_t i, int &v)
{
    if (i + 2 >= s.size()) return false;
    const int a = hexv(s[i + 1]), b = hexv(s[i + 2]);
    if (a < 0 || b < 0) return false;
    v = a * 16 + b;
    return true;
}

// ---- reference un-quoters: return false + why if the field is not a legal encoding
bool unqQuoted(const Str &r, Str &out, Str &why)
{
    for (size_t i = 0; i < r.size();) {
        const unsigned char c = r[i];
        if (c == '\\') {
            if (i + 1 >= r.size()) { why = "dangling backslash"; return false; }
            switch (r[i + 1]) {
            case '"': out += '"'; break;
            case '\\': out += '\\'; break;
            case 'r': out += '\r'; break;
            case 'n': out += '\n'; break;
            case 't': out += '\t'; break;
            default: why = Str("undocumented escape \\") + r[i + 1]; return false;
            }
            i += 2;
            continue;
        }
        if (c == '\r' || c == '\n' || c == '\t' || c == '"') { why = "raw byte " + V::esc(Str(1, c)) + " in a quoted-string field"; return false; }
        out += (char)c;
        ++i;
    }
    return true;
}

bool unqMime(const Str &r, Str &out, Str &why)
{
    for (size_t i = 0; i < r.size();) {
        const unsigned char c = r[i];
        int v;
        if (c == '%') {
            if (!hex2(r, i, v)) { why = "raw % that is not an escape in a mime-blob field"; return false; }
            out += (char)v;
            i += 3;
            continue;
        }
        if (c == '\\') {
            if (i + 1 >= r.size()) { why = "dangling backslash"; return false; }
            switch (r[i + 1]) {
            case '\\': out += '\\'; break;
            case 'r': out += '\r'; break;
            case 'n': out += '\n'; break;
            default: why = Str("undocumented escape \\") + r[i + 1] + " in a mime-blob field"; return false;
            }
            i += 2;
            continue;
        }
        if (c < 32 || c > 126 || c == '[' || c == ']') { why = "raw byte " + V::esc(Str(1, c)) + " in a mime-blob field"; return false; }
        out += (char)c;
        ++i;
    }
    return true;
}

// percentIsEscaped=false: pass-through variant (a % may stand for itself; not reversible by design)
bool unqUrl(const Str &r, Str &out, Str &why, bool strict, bool reservedToo = false)
{
    for (size_t i = 0; i < r.size();) {
        const unsigned char c = r[i];
        int v;
        if (c == '%') {
            if (hex2(r, i, v)) { out += (char)v; i += 3; continue; }
            if (strict) { why = "raw % that is not an escape in a URL-encoded field"; return false; }
            out += '%';
            ++i;
            continue;
        }
        if (c <= 32 || c >= 127 || strchr(Unsafe, c)) { why = "raw byte " + V::esc(Str(1, c)) + " in a URL-encoded field"; return false; }
        if (reservedToo && strchr(";/?:@=&", c)) { why = "raw reserved byte " + Str(1, c) + " in a fully URL-encoded field"; return false; }
        out += (char)c;
        ++i;
    }
    return true;
}

bool unqShell(const Str &r, bool quoted, Str &out, Str &why)
{
    for (size_t i = 0; i < r.size();) {
        const unsigned char c = r[i];
        if (c == '\\') {
            if (i + 1 >= r.size()) { why = "dangling backslash"; return false; }
            switch (r[i + 1]) {
            case '"': out += '"'; break;
            case '\\': out += '\\'; break;
            case 'r': out += '\r'; break;
            case 'n': out += '\n'; break;
            default: why = Str("undocumented escape \\") + r[i + 1] + " in a shell-quoted field"; return false;
            }
            i += 2;
            continue;
        }
        if (c == '\r' || c == '\n' || c == '"') { why = "raw byte " + V::esc(Str(1, c)) + " in a shell-quoted field"; return false; }
        if (c == ' ' && !quoted) { why = "raw SP in an unquoted shell field"; return false; }
        out += (char)c;
        ++i;
    }
    return true;
}

Str pctDecode(const Str &r)
{
    Str o, w;
    unqUrl(r, o, w, false);   // lenient form never fails on %
    return o;
}

Str pctDecodeLoose(const Str &r)
{
    Str o;
    for (size_t i = 0; i < r.size();) {
        int v;
        if (r[i] == '%' && hex2(r, i, v)) { o += (char)v; i += 3; continue; }
        o += r[i];
        ++i;
    }
    return o;
}

// ---- the real formatter
Format::Format *TheFormat = nullptr;
AccessLogEntry::Pointer TheAle;
const char *Spec = "A \"%\"{k}note\" [%[{k}note] %#{k}note %/{k}note %{k}note Z %'{k}note";

uint64_t nStrings = 0, nFields = 0, nEscapes = 0, nDirect = 0, nLong = 0;

Str assembleFor(const Str &s)
{
    TheAle->notes = new NotePairs;
    TheAle->notes->add("k", s.c_str());
    MemBuf mb;
    mb.init();
    TheFormat->assemble(mb, TheAle, 0);
    Str line(mb.content(), mb.contentSize());
    mb.clean();
    return line;
}

// lex one field starting at pos; returns false on a delimiting error
bool lexQuoted(const Str &l, size_t &pos, Str &raw, Str &why)
{
    if (pos >= l.size() || l[pos] != '"') { why = "expected opening quote"; return false; }
    size_t i = pos + 1;
    while (i < l.size() && l[i] != '"') i += (l[i] == '\\') ? 2 : 1;
    if (i >= l.size()) { why = "unterminated quoted field"; return false; }
    raw = l.substr(pos + 1, i - pos - 1);
    pos = i + 1;
    return true;
}

bool expectSp(const Str &l, size_t &pos, Str &why)
{
    if (pos >= l.size() || l[pos] != ' ') { why = "field is not followed by the SP separator of the format"; return false; }
    ++pos;
    return true;
}

// Checks one string through assemble() and the direct functions.  Returns number of escapes seen (for outcome classes).
unsigned check(const Str &s, const Str &label)
{
    ++nStrings;
    const Str line = assembleFor(s);
    const Str shown = V::esc(line.substr(0, 300));
    unsigned escapes = 0;
    if (line.find('\n') != Str::npos || line.find('\r') != Str::npos) {
        // only the as-is field (after " Z ") may carry them
        const size_t z = line.rfind(" Z ");
        const Str head = z == Str::npos ? line : line.substr(0, z);
        if (head.find('\n') != Str::npos || head.find('\r') != Str::npos) {
            V::failKey("linebreak", "raw CR/LF in an encoded field for value " + label + ": " + shown);
            return 0;
        }
    }
    const bool dash = s.empty();
    const Str want = dash ? Str("-") : s;
    size_t pos = 0;
    Str why, raw, dec;
    if (line.compare(0, 2, "A ") != 0) { V::failKey("lex:begin", "record does not start with the sentinel: " + shown); return 0; }
    pos = 2;
    // "  quoted-string
    if (!lexQuoted(line, pos, raw, why) || !unqQuoted(raw, dec, why)) { V::failKey("quoted-string:delimit", why + " (quoted-string field) for " + label + ": " + shown); return 0; }
    if (dec != want) { V::failKey("quoted-string:reverse", "quoted-string field \"" + V::esc(raw) + "\" decodes to \"" + V::esc(dec) + "\" for value " + label); return 0; }
    for (char c : raw) if (c == '\\') ++escapes;
    const Str qRaw = raw;
    if (!expectSp(line, pos, why)) { V::failKey("quoted-string:delimit", why + " after the quoted-string field for " + label + ": " + shown); return 0; }
    // [  mime blob
    if (pos >= line.size() || line[pos] != '[') { V::failKey("mime-blob:delimit", "expected [ for " + label + ": " + shown); return 0; }
    {
        const size_t e = line.find(']', pos + 1);
        if (e == Str::npos) { V::failKey("mime-blob:delimit", "unterminated [field] for " + label + ": " + shown); return 0; }
        raw = line.substr(pos + 1, e - pos - 1);
        pos = e + 1;
    }
    dec.clear();
    if (!unqMime(raw, dec, why)) { V::failKey("mime-blob:delimit", why + " for " + label + ": " + shown); return 0; }
    if (dec != want) { V::failKey("mime-blob:reverse", "mime-blob field [" + V::esc(raw) + "] decodes to \"" + V::esc(dec) + "\" for value " + label); return 0; }
    for (char c : raw) if (c == '%' || c == '\\') ++escapes;
    const Str mRaw = raw;
    if (!expectSp(line, pos, why)) { V::failKey("mime-blob:delimit", why + " after the mime-blob field for " + label + ": " + shown); return 0; }
    // #  URL
    {
        size_t e = line.find(' ', pos);
        if (e == Str::npos) e = line.size();
        raw = line.substr(pos, e - pos);
        pos = e;
    }
    dec.clear();
    if (raw.empty() || !unqUrl(raw, dec, why, true)) { V::failKey("url:delimit", (raw.empty() ? Str("empty field") : why) + " for " + label + ": " + shown); return 0; }
    if (dec != want) { V::failKey("url:reverse", "URL field " + V::esc(raw) + " decodes to \"" + V::esc(dec) + "\" for value " + label); return 0; }
    for (char c : raw) if (c == '%') ++escapes;
    const Str uRaw = raw;
    if (!expectSp(line, pos, why)) { V::failKey("url:delimit", why + " after the URL field for " + label + ": " + shown); return 0; }
    // /  shell
    bool quoted = pos < line.size() && line[pos] == '"';
    if (quoted) {
        if (!lexQuoted(line, pos, raw, why)) { V::failKey("shell:delimit", why + " (shell field) for " + label + ": " + shown); return 0; }
    } else {
        size_t e = line.find(' ', pos);
        if (e == Str::npos) e = line.size();
        raw = line.substr(pos, e - pos);
        pos = e;
        if (raw.empty()) { V::failKey("shell:delimit", "empty shell field for " + label + ": " + shown); return 0; }
    }
    dec.clear();
    if (!unqShell(raw, quoted, dec, why)) { V::failKey("shell:delimit", why + " for " + label + ": " + shown); return 0; }
    if (dec != want) { V::failKey("shell:reverse", "shell field " + V::esc(raw) + " decodes to \"" + V::esc(dec) + "\" for value " + label); return 0; }
    const Str sRaw = (quoted ? "\"" : "") + raw + (quoted ? "\"" : "");
    if (!expectSp(line, pos, why)) { V::failKey("shell:delimit", why + " after the shell field for " + label + ": " + shown); return 0; }
    // default: pass-through URL encoding
    {
        size_t e = line.find(' ', pos);
        if (e == Str::npos) e = line.size();
        raw = line.substr(pos, e - pos);
        pos = e;
    }
    dec.clear();
    if (raw.empty() || !unqUrl(raw, dec, why, false)) { V::failKey("default:delimit", (raw.empty() ? Str("empty field") : why) + " (default encoding) for " + label + ": " + shown); return 0; }
    if (pctDecodeLoose(raw) != pctDecodeLoose(want)) { V::failKey("default:value", "pass-through field " + V::esc(raw) + " is not a %-encoding of value " + label); return 0; }
    const Str dRaw = raw;
    if (line.compare(pos, 3, " Z ") != 0) { V::failKey("default:delimit", "no sentinel after the default-encoded field for " + label + ": " + shown); return 0; }
    pos += 3;
    if (line.substr(pos) != want) { V::failKey("asis", "as-is field differs from value " + label + ": " + shown); return 0; }
    nFields += 6;
    nEscapes += escapes;

    // ---- the functions called directly must agree with what assemble() produced (same code, other entry)
    if (!dash) {
        ++nDirect;
        char *in = (char *)malloc(s.size() + 1);      // exact-size block: ASan flags an over-read
        memcpy(in, s.c_str(), s.size() + 1);
        char *m = Format::QuoteMimeBlob(in);
        if (mRaw != m) V::failKey("direct:QuoteMimeBlob", "QuoteMimeBlob gives \"" + V::esc(m) + "\", assemble %[ gave \"" + V::esc(mRaw) + "\" for " + label);
        xfree(m);
        // user names are logged by the built-in formats as a bare field: reversible like a mime blob, and no SP either
        char *un = Format::QuoteUrlEncodeUsername(in);
        Str unBack;
        if (!un || !unqMime(un, unBack, why) || unBack != s)
            V::failKey("direct:QuoteUrlEncodeUsername:reverse", Str("QuoteUrlEncodeUsername gives \"") + V::esc(un ? un : "(null)") + "\" for " + label + ": not a reversible mime-blob encoding");
        else if (strchr(un, ' '))
            V::failKey("direct:QuoteUrlEncodeUsername:SP", Str("QuoteUrlEncodeUsername gives \"") + V::esc(un) + "\" for " + label + ": raw SP in a value that the built-in formats log as a bare field");
        xfree(un);
        if (uRaw != rfc1738_escape(in)) V::failKey("direct:rfc1738_escape", "rfc1738_escape differs from assemble %# for " + label);
        if (dRaw != rfc1738_escape_unescaped(in)) V::failKey("direct:rfc1738_escape_unescaped", "rfc1738_escape_unescaped differs from assemble default for " + label);
        const Str part = rfc1738_escape_part(in);
        Str back;
        if (!unqUrl(part, back, why, true, true) || back != s)
            V::failKey("direct:rfc1738_escape_part", "rfc1738_escape_part gives " + V::esc(part) + " for " + label + ": " + (back != s ? Str("does not decode to the value") : why));
        // rfc1738_unescape (Squid's own decoder) must invert the strict encodings too
        char *tmp = xstrdup(uRaw.c_str());
        rfc1738_unescape(tmp);
        if (s != tmp) V::failKey("direct:rfc1738_unescape", "rfc1738_unescape(rfc1738_escape(v)) != v for " + label);
        xfree(tmp);
        MemBuf mb;
        mb.init();
        strwordquote(&mb, in);
        if (sRaw != Str(mb.content(), mb.contentSize())) V::failKey("direct:strwordquote", "strwordquote differs from assemble %/ for " + label);
        mb.clean();
        free(in);
    }
    return escapes;
}

void enumerate(const Str &alpha, int L, const Str &tag)
{
    std::vector<int> idx;
    for (int len = 0; len <= L; ++len) {
        idx.assign(len, 0);
        for (;;) {
            Str s;
            for (int i : idx) s += alpha[i];
            if (V::begin_case(tag + V::esc(s))) {
                const unsigned e = check(s, "\"" + V::esc(s) + "\"");
                V::outcome(e ? "escaped-something" : "passed-through");
                V::end_case();
            }
            int k = len - 1;
            while (k >= 0 && ++idx[k] == (int)alpha.size()) { idx[k] = 0; --k; }
            if (k < 0) break;
        }
    }
}

void body(V::Ctx &ctx)
{
    Mem::Init();
    TheFormat = new Format::Format("c34");
    if (!TheFormat->parse(Spec)) { V::begin_case("setup"); V::fail("Format::parse rejected the harness format"); V::end_case(); return; }
    TheAle = new AccessLogEntry;

    // (a) every string of length <= L over 14 hostile symbols
    const Str alpha = Str("\r\n\"\\] \t%[an0") + '\x01' + '\xff';
    enumerate(alpha, ctx.quick() ? 4 : 5, "a:");
    // (b) every single byte and every pair of bytes (NUL excluded: C strings); thorough: triples behind 12 first bytes
    for (int a = 1; a < 256; ++a)
        for (int b = 0; b < 256; ++b) {
            Str s(1, (char)a);
            if (b) s += (char)b;
            if (V::begin_case("b:" + V::esc(s))) { V::outcome(check(s, "\"" + V::esc(s) + "\"") ? "escaped-something" : "passed-through"); V::end_case(); }
        }
    if (!ctx.quick()) {
        const unsigned char first[] = {'\r', '\n', '"', '\\', ']', '[', ' ', '\t', '%', 0x7f, 0xff, 'a'};
        for (unsigned char f : first)
            for (int a = 1; a < 256; ++a) {
                Str d; d += (char)f; d += (char)a;
                if (!V::begin_case("t:" + V::esc(d) + "*")) continue;     // third byte varied inside the case
                unsigned e = 0;
                for (int b = 1; b < 256; ++b) { Str s = d; s += (char)b; e += check(s, "\"" + V::esc(s) + "\""); }
                V::outcome(e ? "escaped-something" : "passed-through");
                V::end_case();
            }
    }
    // (c) long values around the 1024-byte scratch buffers of assemble() (tmp / quotedOut) and the growing static
    // buffer of rfc1738_do_escape, lengths going up, down and up again
    const size_t lens[] = {64, 509, 510, 511, 512, 513, 7, 1022, 1023, 1024, 1025, 100, 2047, 2048, 2049, 4096, 1, ctx.quick() ? (size_t)20000 : (size_t)65536};
    const char *units[] = {"\"", "\\", "\n", "\r", "]", " ", "\t", "%", "\xff", "a", "a\"", "\\n", "%0", "a b", "\r\n"};
    for (const char *u : units)
        for (size_t n : lens) {
            Str s;
            while (s.size() + strlen(u) <= n) s += u;
            const Str label = "\"" + V::esc(u) + "\" repeated to " + std::to_string(s.size()) + " bytes";
            if (V::begin_case("c:" + label)) { ++nLong; V::outcome(check(s, label) ? "escaped-something" : "passed-through"); V::end_case(); }
        }
    V::count("strings_checked", nStrings);
    V::count("fields_lexed_and_decoded", nFields);
    V::count("escape_sequences_decoded", nEscapes);
    V::count("direct_function_comparisons", nDirect);
    V::count("long_values", nLong);
}

} // namespace

VHARNESS_MAIN(body)
