"""C23 Status-line parsing is correct and segmentation-independent — E1, token strings x all splits + reference status-line grammar."""
from vverif import seq
from vverif.core import Result, HarnessError

LEVEL = 'exploration'
RULE = ('every string of <= L tokens (L=4 quick over 20 tokens, L=5 thorough over 22 tokens; tokens: "HTTP/1.", "HTTP/", ICY, 1, 0, SP, '
        'HTAB, 200, 99, 600, a complete ICY status line, OK, CR, LF, CRLF, NUL, 0x80, a complete header field, a complete status line, "HTTP/1.1 " [, 099, '
        'an obs-fold continuation]) is delivered to Http1::ResponseParser with the http.cc calling protocol once in one piece and once '
        'for EVERY 2-piece split under relaxed_header_parser on/off x reply_header_max_size 64/24; the complete parser state (stage, '
        'parseStatusCode, version, status, completedStatus_, reason, mime block, remaining+undelivered bytes, return value) must be '
        'equal (remaining bytes are not compared between two rejections); inputs of <= 8 (quick) / 10 (thorough) bytes also under all '
        '2^(n-1) segmentations; every one-shot result is compared with a reference recogniser of the RFC 9112 status-line grammar '
        '(status 100..599, fields equal, HTTP/0.9 treatment exactly for input without HTTP/ICY prefix). non-trivial = inputs whose '
        'one-shot parse, in at least one of the four configurations, is neither an HTTP/0.9 body nor still waiting for the protocol magic')
ASSUME = ['complete-state equality of every 2-piece delivery with the one-shot delivery composes by induction to every segmentation; '
          'cross-checked by direct enumeration for short inputs',
          'the caller is modelled after HttpStateData::processReplyHeader / Http::Tunneler::handleResponse: parse(inBuf), '
          'inBuf=remaining(), stop at !needsMoreData(); the premature-EOF paths of the callers are not part of this property',
          'relaxed tolerances as documented in Parser.cc: one delimiter octet out of SP HTAB VT FF CR, bare LF as line terminator',
          'for input that starts with "HTTP/" or "ICY" but not with "HTTP/1." / "ICY " the statement is silent; Squid\'s HTTP/0.9 '
          'treatment of it is counted (reference_no_opinion), not judged']

MIN = {'accepted-1.x': 20, 'accepted-icy': 5, 'rejected-600': 20, 'rejected-601': 5, 'need-more:mime': 20, 'http0.9-body': 20,
       'need-more:status': 20, 'need-more:reason': 20}


def _build(ctx):
    return seq.build(ctx, 'tests/testHttp1Parser', ['C23_resp.cc'])


def run(ctx):
    exe = _build(ctx)
    m = seq.run(ctx, exe)
    nontriv = [k for k in m['outcomes'] if k.startswith('nontrivial:')]
    cov = seq.coverage_from(m, RULE, nontrivial_classes=nontriv, min_classes=4)
    c = m['counters']
    if not m['deadline_hit']:
        seen = {}
        for k, v in c.items():
            if k.startswith('class:'):
                seen[k.split(':', 2)[2]] = seen.get(k.split(':', 2)[2], 0) + v
        for k, need in MIN.items():
            if seen.get(k, 0) < need:
                raise HarnessError('vacuity guard: only %d one-shot outcomes of class %s (need %d): %r' % (seen.get(k, 0), k, need, seen))
        for k in ('two_piece_runs_resumed_after_need_more', 'two_piece_runs_terminal_on_prefix', 'multi_piece_segmentation_runs',
                  'reference_checks'):
            if c.get(k, 0) < 1000:
                raise HarnessError('vacuity guard: %s = %d' % (k, c.get(k, 0)))
    samples, seen = [], set()
    for k in sorted(c):
        if k.startswith('sample:'):
            klass = k.split(' -> ', 1)[1].split(';')[0]
            if klass not in seen:
                seen.add(klass)
                samples.append(k[len('sample:'):])
    if samples:
        cov['samples'] = samples[:8]
    cov['counters'] = {k: v for k, v in c.items() if not k.startswith('sample:')}
    for k in ('parser_calls', 'reference_checks', 'reference_no_opinion', 'two_piece_runs', 'two_piece_runs_resumed_after_need_more',
              'two_piece_runs_terminal_on_prefix', 'multi_piece_segmentation_runs'):
        cov[k] = c.get(k, 0)
    return Result(LEVEL, cov, seq.violations_from(m), ASSUME)


def replay(ctx, data):
    exe = _build(ctx)
    m = seq.replay_case(ctx, exe, data['case'])
    m.setdefault('deadline_hit', False)
    return Result(LEVEL, {}, seq.violations_from(m), ASSUME)
