// C49 — mem_hdr returns exactly what was written: explicit-state BFS over write/free/read/contiguity
// sequences on a real mem_hdr against an interval model (E1).
//
// Real code: src/stmem.cc, src/mem_node.cc, include/splay.h of the current tree (mem_hdr_test link set,
// real libmem with pooling switched off so that freed nodes really go back to the ASan allocator).
//
// Canonical state = the splay tree in pre-order INCLUDING its shape (queries splay the tree, so reads
// are state-changing operations and are part of the alphabet), every node's offset/length/
// write_pending/data bytes, inmem_hi, element count, and the harness' write counter mod 3 (it salts the
// byte pattern of the next write).
#include "squid.h"
#include "mem/Pool.h"
#include "mem_node.h"
#include "stmem.h"
#include "StoreIOBuffer.h"

#include "vharness.h"
#include "vbfs.h"

namespace {

typedef VB::Fail Fail;

struct Run { int64_t s, e; int salt; };

inline uint8_t patternByte(int64_t o, int salt)
{
    const uint32_t x = (uint32_t)o * 2654435761u;
    return (uint8_t)((x >> 11) ^ (x >> 23) ^ (uint32_t)(salt * 0x5b));
}

struct Model {
    std::vector<Run> runs;      // sorted, disjoint, non-empty
    int writes = 0;
    const Run *find(int64_t o) const
    {
        for (auto &r : runs) if (r.s <= o && o < r.e) return &r;
        return nullptr;
    }
    bool present(int64_t o) const { return find(o) != nullptr; }
    bool overlaps(int64_t s, int64_t e) const
    {
        for (auto &r : runs) if (r.s < e && s < r.e) return true;
        return false;
    }
    int64_t contiguousEnd(int64_t o) const      // first missing byte at or after o
    {
        for (;;) {
            const Run *r = find(o);
            if (!r) return o;
            o = r->e;
        }
    }
    int64_t lowest() const { return runs.empty() ? 0 : runs.front().s; }
    int64_t end() const { return runs.empty() ? 0 : runs.back().e; }
    void add(int64_t s, int64_t e, int salt)
    {
        Run r = {s, e, salt};
        auto it = runs.begin();
        while (it != runs.end() && it->s < s) ++it;
        runs.insert(it, r);
    }
    void dropBelow(int64_t L)
    {
        std::vector<Run> n;
        for (auto r : runs) {
            if (r.e <= L) continue;
            if (r.s < L) r.s = L;
            n.push_back(r);
        }
        runs.swap(n);
    }
    void fill(int64_t o, size_t n, char *dst) const   // expected bytes of a range (run by run; '?' where nothing was written)
    {
        size_t k = 0;
        while (k < n) {
            const Run *r = find(o + (int64_t)k);
            if (!r) { dst[k++] = '?'; continue; }
            const int64_t upto = std::min<int64_t>(r->e, o + (int64_t)n);
            for (int64_t p = o + (int64_t)k; p < upto; ++p) dst[k++] = (char)patternByte(p, r->salt);
        }
    }
    std::string show() const
    {
        std::string s = "{";
        for (auto &r : runs) s += "[" + std::to_string(r.s) + "," + std::to_string(r.e) + ")";
        return s + "}";
    }
};

struct World {
    mem_hdr hdr;
    Model m;
};

enum Kind { K_WRITE, K_WRITE_END, K_FREE, K_COPY, K_CONTIG };
enum Sym { S_ABS, S_LOWEST, S_END, S_ENDM1, S_ENDP1, S_ENDP4096 };

struct Op {
    int kind;
    int symA; int64_t a;     // first argument (offset / free target / range start)
    int symB; int64_t b;     // second argument (length / range end)
    std::string name;
};

std::vector<Op> Ops;

std::string symName(int sym, int64_t v)
{
    switch (sym) {
    case S_LOWEST: return "lowest";
    case S_END: return "end";
    case S_ENDM1: return "end-1";
    case S_ENDP1: return "end+1";
    case S_ENDP4096: return "end+4096";
    }
    return std::to_string(v);
}

int64_t symVal(int sym, int64_t v, const Model &m)
{
    switch (sym) {
    case S_LOWEST: return m.lowest();
    case S_END: return m.end();
    case S_ENDM1: return m.end() - 1;
    case S_ENDP1: return m.end() + 1;
    case S_ENDP4096: return m.end() + 4096;
    }
    return v;
}

void addOp(int kind, int symA, int64_t a, int symB, int64_t b, const char *kname)
{
    Op o = {kind, symA, a, symB, b, std::string(kname) + "(" + symName(symA, a) + "," + symName(symB, b) + ")"};
    Ops.push_back(o);
}

void buildOps(bool thorough)
{
    static const int64_t offs[] = {0, 1, 4095, 4096, 4097, 8192, 12288};
    static const int64_t lens[] = {1, 2, 4095, 4096, 4097};
    for (int64_t o : offs)
        for (int64_t l : lens)
            addOp(K_WRITE, S_ABS, o, S_ABS, l, "write");
    for (int64_t l : {(int64_t)1, (int64_t)4095, (int64_t)4096, (int64_t)4097})
        addOp(K_WRITE_END, S_END, 0, S_ABS, l, "append");
    for (int64_t x : {(int64_t)0, (int64_t)1, (int64_t)4096, (int64_t)4097, (int64_t)8192, (int64_t)8193, (int64_t)12288})
        addOp(K_FREE, S_ABS, x, S_ABS, 0, "free");
    addOp(K_FREE, S_ENDM1, 0, S_ABS, 0, "free");
    addOp(K_FREE, S_END, 0, S_ABS, 0, "free");
    addOp(K_FREE, S_ENDP4096, 0, S_ABS, 0, "free");
    for (int64_t l : {(int64_t)1, (int64_t)8192}) {
        addOp(K_COPY, S_LOWEST, 0, S_ABS, l, "copy");
        addOp(K_COPY, S_ABS, 0, S_ABS, l, "copy");
        addOp(K_COPY, S_ABS, 4096, S_ABS, l, "copy");
        addOp(K_COPY, S_ENDM1, 0, S_ABS, l, "copy");
    }
    addOp(K_CONTIG, S_LOWEST, 0, S_END, 0, "contig");
    addOp(K_CONTIG, S_ABS, 0, S_END, 0, "contig");
    addOp(K_CONTIG, S_ABS, 4096, S_ABS, 4097, "contig");
    addOp(K_CONTIG, S_LOWEST, 0, S_ENDP1, 0, "contig");
    (void)thorough;
}

uint64_t nFreesThatRemoved = 0, nShortReads = 0, nContigTrue = 0, nContigFalse = 0, nCopies = 0, nPresence = 0;

std::vector<char> IoBuf(40000), ExpBuf(40000), Guard(40000, 0x7e);

// copy [off, off+len) from the real object and compare with the model; off must be present in the model
void checkCopy(World &w, int64_t off, size_t len, Fail &f, const char *keyPrefix)
{
    ++nCopies;
    if (!w.hdr.getBlockContainingLocation(off)) {
        f.set(std::string(keyPrefix) + ":written-byte-missing", "offset " + std::to_string(off) + " was written and not released but no node contains it; model " + w.m.show());
        return;
    }
    const size_t guard = len;
    memset(IoBuf.data(), 0x7e, len + 8);
    StoreIOBuffer target(len, off, IoBuf.data());
    const ssize_t got = w.hdr.copy(target);
    const int64_t upto = std::min<int64_t>(w.m.contiguousEnd(off), off + (int64_t)len);
    const ssize_t expect = (ssize_t)(upto - off);
    if (expect < (ssize_t)len) ++nShortReads;
    if (got != expect) {
        f.set(std::string(keyPrefix) + ":length", "copy(off=" + std::to_string(off) + ",len=" + std::to_string(len) + ") returned " + std::to_string(got) +
              ", the written bytes up to the first missing byte are " + std::to_string(expect) + "; model " + w.m.show());
        return;
    }
    w.m.fill(off, (size_t)expect, ExpBuf.data());
    if (memcmp(IoBuf.data(), ExpBuf.data(), (size_t)expect) != 0) {
        size_t k = 0;
        while (IoBuf[k] == ExpBuf[k]) ++k;
        f.set(std::string(keyPrefix) + ":data", "copy(off=" + std::to_string(off) + ",len=" + std::to_string(len) + ") returned a wrong byte at offset " +
              std::to_string(off + (int64_t)k) + "; model " + w.m.show());
        return;
    }
    if (memcmp(IoBuf.data() + expect, Guard.data(), guard + 8 - (size_t)expect) != 0)
        f.set(std::string(keyPrefix) + ":overrun", "copy() wrote beyond the bytes it reported");
}

void checkContig(World &w, int64_t a, int64_t b, Fail &f, const char *keyPrefix)
{
    const bool got = w.hdr.hasContigousContentRange(Range<int64_t>(a, b));
    const bool expect = (a == b) || w.m.contiguousEnd(a) >= b;
    if (expect) ++nContigTrue; else ++nContigFalse;
    if (got != expect)
        f.set(std::string(keyPrefix) + (expect ? ":false-negative" : ":false-positive"),
              "hasContigousContentRange([" + std::to_string(a) + "," + std::to_string(b) + ")) = " + std::to_string(got) + "; model " + w.m.show());
}

void checkEnds(World &w, Fail &f, const char *keyPrefix)
{
    const int64_t lo = w.hdr.lowestOffset(), hi = w.hdr.endOffset();
    if (lo != w.m.lowest())
        f.set(std::string(keyPrefix) + ":lowestOffset", "lowestOffset() = " + std::to_string(lo) + "; model " + w.m.show());
    if (hi != w.m.end())
        f.set(std::string(keyPrefix) + ":endOffset", "endOffset() = " + std::to_string(hi) + "; model " + w.m.show());
}

struct MemSys {
    typedef ::World World;
    static const bool observersAreConst = false;    // queries splay the tree
    uint64_t multiNode = 0, sparse = 0, deepTree = 0;
    bool leaf = false;

    size_t numOps() const { return Ops.size(); }
    bool core(size_t) const { return true; }
    const std::string &opName(size_t o) const { return Ops[o].name; }
    std::string show(const World &w) { return w.m.show(); }

    bool apply(World &w, size_t o, Fail &f)
    {
        const Op &op = Ops[o];
        Model &m = w.m;
        const int64_t a = symVal(op.symA, op.a, m), b = symVal(op.symB, op.b, m);
        switch (op.kind) {
        case K_WRITE:
        case K_WRITE_END: {
            if (op.kind == K_WRITE_END && m.runs.empty()) return false;     // same as write(0,len)
            if (a < 0 || m.overlaps(a, a + b)) return false;                // only non-overlapping writes are legal
            const int salt = 1 + (m.writes % 3);
            for (int64_t k = 0; k < b; ++k) IoBuf[(size_t)k] = (char)patternByte(a + k, salt);
            const bool ok = w.hdr.write(StoreIOBuffer((size_t)b, a, IoBuf.data()));
            if (!ok) f.set("write:refused", op.name + " returned false; model " + m.show());
            m.add(a, a + b, salt);
            ++m.writes;
            break;
        }
        case K_FREE: {
            if (a < 0) return false;
            const int64_t L = w.hdr.freeDataUpto(a);
            // nothing at or after the release offset may go away
            int64_t firstKept = -1;
            for (auto &r : m.runs) if (r.e > a) { firstKept = std::max(r.s, a); break; }
            if (firstKept >= 0 && L > firstKept)
                f.set("free:removed-bytes-at-or-after-target", "freeDataUpto(" + std::to_string(a) + ") returned lowest offset " + std::to_string(L) +
                      " although byte " + std::to_string(firstKept) + " was written and is not below the target; model " + m.show());
            if (!m.runs.empty() && !m.present(L) )
                f.set("free:lowest-not-a-written-byte", "freeDataUpto(" + std::to_string(a) + ") returned " + std::to_string(L) + " which was never written; model " + m.show());
            if (m.runs.empty() && L != 0)
                f.set("free:lowest-of-empty", "freeDataUpto on an empty object returned " + std::to_string(L));
            if (L > m.lowest()) ++nFreesThatRemoved;
            m.dropBelow(L);
            break;
        }
        case K_COPY:
            if (b <= 0 || !m.present(a)) return false;      // reading an absent start offset is a caller error (fatal in Squid)
            checkCopy(w, a, (size_t)b, f, "copy");
            break;
        case K_CONTIG:
            if (a > b || a < 0) return false;
            checkContig(w, a, b, f, "contig");
            break;
        }
        if (!f.bad()) checkEnds(w, f, "step");
        return true;
    }

    void canonNode(const SplayNode<mem_node *> *n, std::string &out)
    {
        if (!n) { out += 'z'; return; }
        const mem_node *mn = n->data;
        out += 'N';
        const int64_t off = mn->nodeBuffer.offset;
        const uint64_t len = mn->nodeBuffer.length;
        out.append((const char *)&off, 8);
        out.append((const char *)&len, 8);
        out += (char)(mn->write_pending ? 1 : 0);
        out += (char)(mn->nodeBuffer.data == mn->data ? 1 : 0);
        out += (char)(n->visitThreadUp ? 1 : 0);
        out.append(mn->data, std::min<uint64_t>(len, SM_PAGE_SIZE));
        canonNode(n->left, out);
        canonNode(n->right, out);
    }

    void canon(const World &w, std::string &out)
    {
        out.clear();
        const int64_t hi = w.hdr.inmem_hi;
        const uint64_t el = w.hdr.nodes.elements;
        out.append((const char *)&hi, 8);
        out.append((const char *)&el, 8);
        out += (char)(w.m.writes % 3);
        canonNode(w.hdr.nodes.head, out);
        // The reference model is part of the state: if the implementation ever diverges from it, the pair
        // (real, model) is a new state even when the real half alone was seen before, so it gets observed.
        out += "|M";
        for (auto &r : w.m.runs) {
            out.append((const char *)&r.s, 8);
            out.append((const char *)&r.e, 8);
            out += (char)r.salt;
        }
    }

    int depthOf(const SplayNode<mem_node *> *n) { return n ? 1 + std::max(depthOf(n->left), depthOf(n->right)) : 0; }

    void classify(const World &w)
    {
        if (w.hdr.nodes.elements >= 2) ++multiNode;
        if (w.hdr.nodes.elements >= 3 && depthOf(w.hdr.nodes.head) < (int)w.hdr.nodes.elements) ++deepTree;   // a branching (non-list) tree
        for (size_t k = 1; k < w.m.runs.size(); ++k)
            if (w.m.runs[k].s > w.m.runs[k - 1].e) { ++sparse; break; }
    }

    void observe(World &w, Fail &f)
    {
        const Model &m = w.m;
        std::vector<int64_t> B = {0, 1, 4095, 4096, 4097, 8191, 8192, 8193, 12287, 12288, 12289, 16383, 16384, 16385, m.end() + 1};
        for (auto &r : m.runs) { B.push_back(r.s); B.push_back(r.s - 1); B.push_back(r.e); B.push_back(r.e - 1); }
        std::sort(B.begin(), B.end());
        B.erase(std::unique(B.begin(), B.end()), B.end());
        while (!B.empty() && B.front() < 0) B.erase(B.begin());
        checkEnds(w, f, "observe");
        for (int64_t b : B) {
            if (f.bad()) return;
            ++nPresence;
            const bool real = w.hdr.getBlockContainingLocation(b) != nullptr;
            if (real != m.present(b)) {
                f.set(real ? "observe:unwritten-byte-present" : "observe:written-byte-missing",
                      "offset " + std::to_string(b) + (real ? " is held by a node but was never written / was reported released" : " was written and not released but no node contains it") + "; model " + m.show());
                return;
            }
            if (!real) continue;
            for (size_t len : {(size_t)1, (size_t)2, (size_t)4096, (size_t)4097, (size_t)30000}) {
                checkCopy(w, b, len, f, "observe:copy");
                if (f.bad()) return;
            }
        }
        for (int64_t a : B)
            for (int64_t b : B) {
                if (a > b) continue;
                checkContig(w, a, b, f, "observe:contig");
                if (f.bad()) return;
            }
        checkEnds(w, f, "observe");
    }

    void finish(int)
    {
        V::count("states_with_2plus_nodes", multiNode);
        V::count("states_sparse", sparse);
        V::count("states_with_branching_tree", deepTree);
        V::count("frees_that_removed_data", nFreesThatRemoved);
        V::count("copies", nCopies);
        V::count("short_reads_at_a_gap", nShortReads);
        V::count("contig_true", nContigTrue);
        V::count("contig_false", nContigFalse);
        V::count("presence_probes", nPresence);
    }
};

void body(V::Ctx &ctx)
{
    MemPools::GetInstance().setIdleLimit(0);    // freed nodes go straight back to malloc (ASan sees use-after-free)
    buildOps(ctx.thorough());
    MemSys sys;
    if (ctx.replay) {
        if (V::begin_case(ctx.replayCase)) {
            VB::replayHistory(sys, ctx.replayCase);
            V::end_case();
        }
        return;
    }
    VB::runSharded(sys, ctx, ctx.quick() ? 3 : 4);
}

} // namespace

VHARNESS_MAIN(body)
