"""C21 HTTP request parsing does not depend on how input is segmented — E1, exhaustive over token strings x all splits."""
from vverif import seq
from vverif.core import Result, HarnessError

LEVEL = 'exploration'
RULE = ('every string of <= L tokens (L=4 quick over 19 tokens, L=5 thorough over 20 tokens; tokens: GET, SP, "/", '
        '" HTTP/1.1", CRLF, LF, CR, a complete request line, a complete Host field, "a:b", HTAB, X, HTTP/12.1, NUL, VT, 0x80, '
        '"http://h/", HTTP/1.0, 16 x "a" [, a POST request line]) is delivered to Http1::RequestParser with the '
        'client_side.cc calling protocol once in one piece and once for EVERY 2-piece split, under relaxed_header_parser '
        'on/off x request_header_max_size 64/36; the complete parser state (stage, status, method, URI, version, mime block, '
        'parsed bytes, remaining+undelivered bytes, return value) must be equal (consumed bytes are not compared between two rejections: the caller discards its buffer then); inputs of <= 8 (quick) / 10 (thorough) bytes '
        'are also run under all 2^(n-1) segmentations. non-trivial = inputs whose one-shot parse, in at least one of the four '
        'configurations, got further than "no LF seen yet" / "first byte is not a method character" / "only empty lines"')
ASSUME = ['complete-state equality of every 2-piece delivery with the one-shot delivery composes by induction to every '
          'segmentation (the parser has no state outside the compared members); cross-checked by direct enumeration for short inputs',
          'the caller is modelled after ConnStateData::parseHttpRequest: append, parse(inBuf), inBuf=remaining(), stop at '
          '!needsMoreData(); bytes not yet delivered when the parser finishes count as remaining input',
          'relaxed_header_parser=warn (-1) differs from on only in debugs() output and is not run separately',
          'preserveParsed_ is on in every run so that parsed_ is part of the compared state (it does not influence parsing)']

MIN = {'accepted-1.x': 20, 'accepted-0.x': 20, 'rejected-400:after-method': 20, 'rejected-414': 5, 'rejected-431': 5,
       'need-more:mime': 20}


def _build(ctx):
    return seq.build(ctx, 'tests/testHttp1Parser', ['C21_req.cc'])


def run(ctx):
    exe = _build(ctx)
    m = seq.run(ctx, exe)
    nontriv = [k for k in m['outcomes'] if k.startswith('nontrivial:')]
    cov = seq.coverage_from(m, RULE, nontrivial_classes=nontriv, min_classes=4)
    c = m['counters']
    if not m['deadline_hit']:
        # vacuity guards: every kind of outcome must have been reached by one-shot parses, splits must have
        # both resumed a waiting parser and hit a parser that finished on the prefix
        seen = {}
        for k, v in c.items():
            if k.startswith('class:'):
                seen[k.split(':', 2)[2]] = seen.get(k.split(':', 2)[2], 0) + v
        for k, need in MIN.items():
            if seen.get(k, 0) < need:
                raise HarnessError('vacuity guard: only %d one-shot outcomes of class %s (need %d): %r' % (seen.get(k, 0), k, need, seen))
        for k in ('two_piece_runs_resumed_after_need_more', 'two_piece_runs_terminal_on_prefix', 'multi_piece_segmentation_runs'):
            if c.get(k, 0) < 1000:
                raise HarnessError('vacuity guard: %s = %d' % (k, c.get(k, 0)))
    samples, seen = [], set()
    for k in sorted(c):
        if k.startswith('sample:'):
            klass = k.split(' -> ', 1)[1].split(';')[0]
            if klass not in seen:
                seen.add(klass)
                samples.append(k[len('sample:'):])
    if samples:
        cov['samples'] = samples[:8]
    cov['counters'] = {k: v for k, v in c.items() if not k.startswith('sample:')}
    for k in ('parser_calls', 'two_piece_runs', 'two_piece_runs_resumed_after_need_more', 'two_piece_runs_terminal_on_prefix',
              'multi_piece_segmentation_runs'):
        cov[k] = c.get(k, 0)
    return Result(LEVEL, cov, seq.violations_from(m), ASSUME)


def replay(ctx, data):
    exe = _build(ctx)
    m = seq.replay_case(ctx, exe, data['case'])
    m.setdefault('deadline_hit', False)
    return Result(LEVEL, {}, seq.violations_from(m), ASSUME)
