// C54 — Ipc::ReadWriteLock under all interleavings (E2).  Compiled with -include vatomic_pre.h
// together with the unmodified src/ipc/ReadWriteLock.cc of the current tree.
#include "squid.h"
#include "ipc/ReadWriteLock.h"

#include "vharness.h"
#include "vsched/vsched.h"

#include <new>
#include <sstream>

namespace {

enum Mode { None = 0, Shared, Headers, Excl, ExclAppending, ExclLoose };
const char *modeName[] = {"none", "shared", "headers", "excl", "excl+appending", "excl-after-appending(readers may linger)"};

alignas(64) char lockBuf[sizeof(Ipc::ReadWriteLock)];
Ipc::ReadWriteLock *L = nullptr;

const int MaxT = 3;
int mode[MaxT];
unsigned session[MaxT];          // bumped on every mode change
uint64_t okLocks = 0, failedLocks = 0, overlaps = 0;

void setMode(int m)
{
    const int me = VS::self();
    mode[me] = m;
    ++session[me];
    VS::note(std::string("mode=") + modeName[m]);
}

struct WriterView { int m[MaxT]; unsigned s[MaxT]; };

WriterView snapshot()
{
    WriterView v;
    for (int i = 0; i < MaxT; ++i) { v.m[i] = mode[i]; v.s[i] = session[i]; }
    return v;
}

// a reader that got in although a non-appending writer held the lock for the whole attempt
void checkAdmission(const WriterView &before, const char *what)
{
    const int me = VS::self();
    for (int i = 0; i < MaxT; ++i) {
        if (i == me) continue;
        if ((before.m[i] == Excl || before.m[i] == ExclLoose) && mode[i] == before.m[i] && session[i] == before.s[i]) {
            std::ostringstream os;
            os << what << " by p" << me << " succeeded while p" << i << " held the lock in mode " << modeName[mode[i]]
               << " during the whole attempt";
            VS::violation(os.str());
        }
    }
}

void hold() { VS::yieldPoint(); }   // the critical section contains a scheduling point

void opR()
{
    VS::yieldPoint();
    const WriterView w = snapshot();
    if (L->lockShared()) {
        ++okLocks;
        checkAdmission(w, "lockShared");
        setMode(Shared);
        hold();
        setMode(None);
        L->unlockShared();
    } else
        ++failedLocks;
}

void opW()
{
    if (L->lockExclusive()) {
        ++okLocks;
        setMode(Excl);
        hold();
        setMode(None);
        L->unlockExclusive();
    } else
        ++failedLocks;
}

void opA(bool restore)
{
    if (L->lockExclusive()) {
        ++okLocks;
        setMode(Excl);
        hold();
        setMode(ExclAppending);       // from here on readers may legitimately enter
        L->startAppending();
        hold();
        if (restore) {
            const bool exclusiveAgain = L->stopAppendingAndRestoreExclusive();
            setMode(exclusiveAgain ? Excl : ExclLoose);
            hold();
        }
        setMode(None);
        L->unlockExclusive();
    } else
        ++failedLocks;
}

void opS()
{
    if (L->lockExclusive()) {
        ++okLocks;
        setMode(Excl);
        hold();
        setMode(None);                // in transit: neither claim is asserted while switching
        L->switchExclusiveToShared();
        setMode(Shared);
        hold();
        setMode(None);
        L->unlockShared();
    } else
        ++failedLocks;
}

void opU()
{
    VS::yieldPoint();
    const WriterView w = snapshot();
    if (L->lockShared()) {
        ++okLocks;
        checkAdmission(w, "lockShared");
        setMode(Shared);
        hold();
        setMode(None);
        if (L->unlockSharedAndSwitchToExclusive()) {
            setMode(Excl);
            hold();
            setMode(None);
            L->unlockExclusive();
        }
    } else
        ++failedLocks;
}

void opH()
{
    VS::yieldPoint();
    const WriterView w = snapshot();
    if (L->lockHeaders()) {
        ++okLocks;
        checkAdmission(w, "lockHeaders");
        setMode(Headers);
        hold();
        setMode(None);
        L->unlockHeaders();
    } else
        ++failedLocks;
}

void runOp(char c)
{
    switch (c) {
    case 'R': opR(); break;
    case 'W': opW(); break;
    case 'A': opA(false); break;
    case 'B': opA(true); break;
    case 'S': opS(); break;
    case 'U': opU(); break;
    case 'H': opH(); break;
    }
}

void invariant()
{
    int excl = 0, strictExcl = 0, shared = 0, headers = 0;
    for (int i = 0; i < MaxT; ++i) {
        if (mode[i] == Excl) { ++excl; ++strictExcl; }
        if (mode[i] == ExclAppending || mode[i] == ExclLoose) ++excl;
        if (mode[i] == Shared || mode[i] == Headers) ++shared;
        if (mode[i] == Headers) ++headers;
    }
    if (excl && shared) ++overlaps;
    if (excl > 1)
        VS::violation("two processes hold the exclusive lock at once");
    if (strictExcl && shared)
        VS::violation("a reader holds the lock together with a non-appending exclusive holder");
    if (headers > 1)
        VS::violation("two processes hold the headers (update) lock at once");
}

void finalCheck()
{
    std::ostringstream os;
    if (L->readers.v_ != 0) os << " readers=" << L->readers.v_;
    if (L->readLevel.v_ != 0) os << " readLevel=" << L->readLevel.v_;
    if (L->writeLevel.v_ != 0) os << " writeLevel=" << L->writeLevel.v_;
    if (L->writing.v_) os << " writing";
    if (L->appending.v_) os << " appending";
    if (L->updating.v_) os << " updating";
    if (!os.str().empty()) {
        VS::violation("lock not idle after all users finished:" + os.str());
        return;
    }
    if (!L->lockExclusive())
        VS::violation("a fresh lockExclusive() fails on an idle lock");
}

std::vector<std::string> scriptsUpTo(int len, const std::string &alphabet)
{
    std::vector<std::string> out, cur = {""};
    for (int l = 1; l <= len; ++l) {
        std::vector<std::string> nxt;
        for (auto &p : cur) for (char c : alphabet) nxt.push_back(p + c);
        out.insert(out.end(), nxt.begin(), nxt.end());
        cur.swap(nxt);
    }
    return out;
}

void body(V::Ctx &ctx)
{
    const std::string alphabet = "RWABSUH";
    struct Plan { int threads; int len; int bound; };
    std::vector<Plan> plans;
    if (ctx.quick()) { plans.push_back({2, 2, 2}); plans.push_back({3, 1, 2}); }
    else { plans.push_back({2, 3, 3}); plans.push_back({3, 2, 3}); }

    for (const auto &plan : plans) {
        const auto scripts = scriptsUpTo(plan.len, alphabet);
        std::vector<size_t> idx(plan.threads, 0);
        // all non-decreasing tuples of scripts (processes are symmetric)
        std::function<void(int, size_t)> rec = [&](int t, size_t from) {
            if (t < plan.threads) {
                for (size_t i = from; i < scripts.size(); ++i) { idx[t] = i; rec(t + 1, i); }
                return;
            }
            std::string name = "rwlock";
            for (int i = 0; i < plan.threads; ++i) name += " p" + std::to_string(i) + "=" + scripts[idx[i]];
            name += " bound=" + std::to_string(plan.bound);
            std::string replaySched;
            if (ctx.replay) {
                // replay descriptor: "<scenario>|<schedule>"
                const auto bar = ctx.replayCase.find('|');
                if (ctx.replayCase.substr(0, bar) != name) { V::begin_case(name); return; }
                replaySched = bar == std::string::npos ? "" : ctx.replayCase.substr(bar + 1);
                ctx.replayCase = name;
            }
            if (!V::begin_case(name)) return;

            VS::Scenario sc;
            sc.name = name;
            sc.maxDeviations = plan.bound;
            sc.spuriousCas = false;
            sc.setup = [] {
                L = new (lockBuf) Ipc::ReadWriteLock();
                for (int i = 0; i < MaxT; ++i) { mode[i] = None; session[i] = 0; }
            };
            for (int i = 0; i < plan.threads; ++i) {
                const std::string s = scripts[idx[i]];
                sc.procs.push_back([s] { for (char c : s) runOp(c); });
            }
            sc.invariant = invariant;
            sc.final = finalCheck;
            sc.stateBytes = [](std::string &b) {
                b.append(lockBuf, sizeof(lockBuf));
                b.append((const char *)mode, sizeof(mode));
            };
            VS::Stats st;
            if (ctx.replay) {
                const bool bad = VS::replay(sc, VS::parseSchedule(replaySched), st);
                printf("%s", st.trace.c_str());
                if (bad) V::fail(st.violation);
                V::end_case();
                return;
            }
            // the tier deadline is global: give each scenario only what is left of it
            double left = 0;
            if (ctx.deadlineS > 0) {
                left = ctx.deadlineS - difftime(time(nullptr), V::S().start);
                if (left < 2) { V::S().sh->deadlineHit = 1; V::count("scenarios_skipped_at_deadline"); V::end_case(); return; }
            }
            VS::explore(sc, st, left);
            V::count("executions", st.executions);
            V::count("steps", st.steps);
            V::count("states", st.states);
            V::count("context_switches", st.contextSwitches);
            V::count("ok_locks", okLocks); okLocks = 0;
            V::count("failed_locks", failedLocks); failedLocks = 0;
            V::count("reader_writer_overlap_states", overlaps); overlaps = 0;
            if (st.capHit) V::count("cap_hit");
            if (st.boundCompleted >= plan.bound) V::count("scenarios_completed_at_bound");
            V::outcome(st.violated ? "violated" : (st.contextSwitches ? "explored-with-conflicts" : "explored"));
            if (st.violated)
                V::fail(st.violation + " | schedule=" + VS::fmtSchedule(st.schedule) + " | replay-case=" + name + "|" + VS::fmtSchedule(st.schedule));
            V::end_case();
        };
        rec(0, 0);
    }
}

} // namespace

VHARNESS_MAIN(body)
