// C28 — Range header parsing + canonicalisation vs a byte-set model (E1).
// Real code: HttpHdrRange::ParseCreate / HttpHdrRangeSpec::parseInit / HttpHdrRange::canonize
// (src/HttpHdrRange.cc, recompiled from the current tree with -fsanitize=undefined in *recover*
// mode: every UBSan report is caught by __ubsan_on_report below and turned into a keyed failure,
// so that one undefined operation reachable from thousands of inputs is one finding, not thousands
// of crashed cases).
#include "squid.h"
#include "HttpHeaderRange.h"
#include "base/Packable.h"
#include "SquidString.h"

#include "vharness.h"

#include <algorithm>
#include <climits>
#include <cstdarg>

typedef __int128 i128;

// ---------------------------------------------------------------- UBSan report hook
extern "C" void __ubsan_get_current_report_data(const char **kind, const char **msg, const char **file,
        unsigned *line, unsigned *col, char **addr);

namespace {
uint64_t ubReports = 0;
std::string ubLast;
}

extern "C" void __ubsan_on_report(void)
{
    const char *kind = "", *msg = "", *file = "";
    unsigned line = 0, col = 0;
    char *addr = nullptr;
    __ubsan_get_current_report_data(&kind, &msg, &file, &line, &col, &addr);
    std::string f = file ? file : "";
    const size_t sl = f.rfind('/');
    if (sl != std::string::npos) f = f.substr(sl + 1);
    ++ubReports;
    // no line numbers in the key: they move with unrelated edits
    ubLast = "ubsan:" + f + ":" + (kind ? kind : "") + ":" + (msg ? msg : "");
}

namespace {

// ---------------------------------------------------------------- reference model
const i128 HUGE = (i128)1 << 100;

struct RSpec {
    int kind = 0;       // 0: a-b   1: a-   2: -n
    i128 a = 0, b = 0;  // suffix length in a
};

enum Cls { VALID, GREY, INVALID };

bool isOws(char c) { return c == ' ' || c == '\t'; }

// 1*DIGIT at s[p...]; saturating value
bool digits(const std::string &s, size_t &p, i128 &v)
{
    const size_t b = p;
    v = 0;
    while (p < s.size() && s[p] >= '0' && s[p] <= '9') {
        v = v * 10 + (s[p] - '0');
        if (v > HUGE) v = HUGE;
        ++p;
    }
    return p > b;
}

bool signedNumber(const std::string &e, size_t p) { return p + 1 < e.size() && (e[p] == '+' || e[p] == '-') && e[p + 1] >= '0' && e[p + 1] <= '9'; }

// One list element (already trimmed of OWS, not empty).  RFC 7233:
//   byte-range-spec = 1*DIGIT "-" [ 1*DIGIT ]      suffix-byte-range-spec = "-" 1*DIGIT
// VALID   = matches the grammar exactly and last >= first
// GREY    = matches the grammar after removing SP/HT next to the "-" (the statement names white space
//           separately from invalid specs; either outcome is allowed, but values must be exact)
// INVALID = anything else; `why` names the reason (used in the failure key)
Cls classify(const std::string &e, RSpec &r, std::string &why)
{
    size_t p = 0;
    bool ws = false;
    if (e[0] == '-') {
        ++p;
        while (p < e.size() && isOws(e[p])) { ++p; ws = true; }
        r.kind = 2;
        if (!digits(e, p, r.a)) { why = signedNumber(e, p) ? "signed-number" : "suffix-length-not-numeric"; return INVALID; }
        if (p != e.size()) { why = "garbage-after-number"; return INVALID; }
        return ws ? GREY : VALID;
    }
    if (!digits(e, p, r.a)) { why = e.find('-') == std::string::npos ? "no-dash" : signedNumber(e, p) ? "signed-number" : "first-pos-not-numeric"; return INVALID; }
    while (p < e.size() && isOws(e[p])) { ++p; ws = true; }
    if (p >= e.size() || e[p] != '-') { why = e.find('-') == std::string::npos ? "no-dash" : "garbage-after-number"; return INVALID; }
    ++p;
    while (p < e.size() && isOws(e[p])) { ++p; ws = true; }
    if (p == e.size()) {
        // "1- " cannot happen (trimmed); "1 -" is grey
        r.kind = 1;
        return ws ? GREY : VALID;
    }
    r.kind = 0;
    if (!digits(e, p, r.b)) { why = signedNumber(e, p) ? "signed-number" : "last-pos-not-numeric"; return INVALID; }
    if (p != e.size()) { why = "garbage-after-number"; return INVALID; }
    if (r.b < r.a) { why = "last-lt-first"; return INVALID; }
    return ws ? GREY : VALID;
}

struct RefHeader {
    bool bytesUnit = false;
    std::vector<RSpec> specs;
    int nValid = 0, nGrey = 0, nInvalid = 0;
    bool unrepresentable = false;  // some number > INT64_MAX
    std::string why;               // first invalidity reason
};

RefHeader refParse(const std::string &h)
{
    RefHeader r;
    if (h.size() < 6 || strncasecmp(h.c_str(), "bytes=", 6) != 0) return r;
    r.bytesUnit = true;
    size_t p = 6;
    while (p <= h.size()) {
        size_t e = h.find(',', p);
        if (e == std::string::npos) e = h.size();
        size_t b = p, t = e;
        while (b < t && isOws(h[b])) ++b;
        while (t > b && isOws(h[t - 1])) --t;
        if (t > b) {
            RSpec s;
            std::string why;
            const Cls c = classify(h.substr(b, t - b), s, why);
            if (c == INVALID) { ++r.nInvalid; if (r.why.empty()) r.why = why; }
            else {
                if (c == GREY) ++r.nGrey; else ++r.nValid;
                if (s.a > (i128)INT64_MAX || (s.kind == 0 && s.b > (i128)INT64_MAX)) r.unrepresentable = true;
                r.specs.push_back(s);
            }
        }
        p = e + 1;
    }
    return r;
}

typedef std::vector<std::pair<i128, i128> > Set;   // closed intervals [lo,hi]

void normalise(Set &s)
{
    std::sort(s.begin(), s.end());
    Set o;
    for (auto &x : s) {
        if (!o.empty() && x.first <= o.back().second + 1) { if (x.second > o.back().second) o.back().second = x.second; }
        else o.push_back(x);
    }
    s.swap(o);
}

// bytes of a representation of length clen selected by the satisfiable specs (RFC 7233 section 2.1)
Set refBytes(const std::vector<RSpec> &specs, i128 clen, int &nSat)
{
    Set s;
    nSat = 0;
    for (const RSpec &r : specs) {
        i128 lo, hi;
        if (r.kind == 2) {
            if (r.a == 0 || clen == 0) continue;
            lo = r.a >= clen ? 0 : clen - r.a; hi = clen - 1;
        } else {
            if (r.a >= clen) continue;
            lo = r.a; hi = (r.kind == 1 || r.b >= clen) ? clen - 1 : r.b;
        }
        ++nSat;
        s.push_back(std::make_pair(lo, hi));
    }
    normalise(s);
    return s;
}

std::string show(i128 v)
{
    if (v == 0) return "0";
    bool n = v < 0; if (n) v = -v;
    std::string s;
    while (v > 0) { s.insert(s.begin(), char('0' + (int)(v % 10))); v /= 10; }
    return (n ? "-" : "") + s;
}

std::string showSet(const Set &s)
{
    std::string o = "{";
    for (auto &x : s) o += "[" + show(x.first) + "," + show(x.second) + "]";
    return o + "}";
}

// ---------------------------------------------------------------- real code drivers
struct StrPacker : public Packable {
    std::string out;
    void append(const char *buf, int size) override { out.append(buf, size); }
    void vappendf(const char *fmt, va_list ap) override { char b[256]; vsnprintf(b, sizeof b, fmt, ap); out += b; }
};

uint64_t nParse = 0, nCanon = 0, nSatisfiable = 0, nUnsatisfiable = 0, nPartlySat = 0, nClamped = 0;

const int64_t clensQuick[] = {0, 1, 2, 3, 4, 10, INT64_MAX - 1, INT64_MAX};
const int64_t clensThorough[] = {0, 1, 2, 3, 4, 5, 9, 10, 11, 1000, INT64_MAX - 2, INT64_MAX - 1, INT64_MAX};

bool gQuick = true;

void failOnce(const std::string &key, const std::string &msg);

// class of the header just checked: counted per header in counters, and once per case (first header of
// the case) as the case's outcome class
std::string lastClass;
void setClass(const std::string &c) { lastClass = c; V::count("headers:" + c); }

// returns true and records a keyed failure if UBSan reported something since `mark`
bool ubSince(uint64_t mark, const std::string &where)
{
    if (ubReports == mark) return false;
    failOnce(ubLast, "undefined behaviour reported by UBSan in " + where + ": " + ubLast);
    setClass("ub-reported");
    return true;
}

// A functional mismatch.  UBSan reports each source location only once per process, so after the first
// report of an overflow the later inputs of the same class show up as wrong results instead; give
// those a key naming the input class (not the individual input) so that one defect is one finding.
std::set<std::string> keysEmitted;   // each explicit key once per process: thousands of inputs share one
void failOnce(const std::string &key, const std::string &msg)
{
    if (keysEmitted.insert(key).second) V::failKey(key, msg);
    V::count("failures_with_key:" + key);
}

void mismatch(const RefHeader &ref, const std::string &msg)
{
    for (const RSpec &r : ref.specs)
        if (r.kind == 0 && r.b == (i128)INT64_MAX) {
            failOnce("wrong-result:last-byte-pos=INT64_MAX", msg);
            return;
        }
    V::fail(msg);
}

// run one complete header value
void checkHeader(const std::string &h)
{
    ++nParse;
    lastClass = "violation";
    const RefHeader ref = refParse(h);
    const uint64_t mark = ubReports;
    String s(h.c_str());
    HttpHdrRange *real = HttpHdrRange::ParseCreate(&s);
    if (ubSince(mark, "ParseCreate(\"" + V::esc(h) + "\")")) { delete real; return; }

    const bool mustIgnore = !ref.bytesUnit || ref.nInvalid > 0 || ref.specs.empty();
    const bool mustAccept = !mustIgnore && ref.nGrey == 0 && !ref.unrepresentable;
    if (!real) {
        if (mustAccept) { failOnce("rejects-valid-header", "the well-formed header \"" + V::esc(h) + "\" was ignored"); return; }
        if (!ref.bytesUnit) setClass("ignored:other-unit");
        else if (ref.nInvalid && (ref.nValid + ref.nGrey)) setClass("ignored:mixed-valid-invalid");
        else if (ref.nInvalid) setClass(ref.why == "last-lt-first" ? "ignored:last-lt-first" : "ignored:malformed");
        else if (ref.specs.empty()) setClass("ignored:empty-list");
        else if (ref.unrepresentable) setClass("ignored:unrepresentable-number");
        else setClass("ignored:lenient-white-space");
        return;
    }
    if (mustIgnore) {
        const std::string why = !ref.bytesUnit ? "not-bytes-unit" : ref.nInvalid ? ref.why : "empty-list";
        failOnce("accepts-invalid-spec:" + why, "the header \"" + V::esc(h) + "\" has a syntactically invalid spec (" + why +
                   ") but was not ignored: Squid parsed " + std::to_string(real->specs.size()) + " spec(s)");
        delete real;
        return;
    }
    setClass(ref.nGrey ? "accepted:lenient-white-space" : ref.unrepresentable ? "accepted:huge-number" : "accepted");
    if (real->specs.size() != ref.specs.size()) {
        mismatch(ref, "Squid parsed " + std::to_string(real->specs.size()) + " specs, the header has " + std::to_string(ref.specs.size()));
        delete real;
        return;
    }

    // auxiliary queries on the parsed (not yet canonical) header: only UBSan is the oracle here
    {
        const uint64_t m2 = ubReports;
        StrPacker pk;
        real->packInto(&pk);
        (void)real->willBeComplex();
        (void)real->firstOffset();
        (void)real->lowestOffset(0);
        (void)real->lowestOffset(10);
        (void)real->lowestOffset(INT64_MAX);
        (void)real->offsetLimitExceeded(5);
        if (ubSince(m2, "packInto/willBeComplex/firstOffset/lowestOffset of \"" + V::esc(h) + "\"")) { delete real; return; }
    }

    const int64_t *clens = gQuick ? clensQuick : clensThorough;
    const size_t nclens = gQuick ? sizeof clensQuick / sizeof *clensQuick : sizeof clensThorough / sizeof *clensThorough;
    for (size_t ci = 0; ci < nclens; ++ci) {
        const int64_t clen = clens[ci];
        ++nCanon;
        int nSat = 0;
        const Set want = refBytes(ref.specs, clen, nSat);
        HttpHdrRange copy(*real);
        const uint64_t m3 = ubReports;
        const int ok = copy.canonize(clen);
        const bool complex = ok ? copy.isComplex() : false;
        (void)complex;
        const std::string where = "canonize(" + show(clen) + ") of \"" + V::esc(h) + "\"";
        if (ubSince(m3, where)) break;
        Set got;
        bool bad = false;
        for (const HttpHdrRangeSpec *sp : copy.specs) {
            const i128 off = sp->offset, len = sp->length;
            if (off < 0 || len <= 0 || off + len > (i128)clen) {
                mismatch(ref, where + ": canonical spec offset=" + show(off) + " length=" + show(len) + " is empty or not inside the representation");
                bad = true;
                break;
            }
            got.push_back(std::make_pair(off, off + len - 1));
        }
        if (bad) break;
        normalise(got);
        if (got != want) {
            mismatch(ref, where + ": canonical byte set " + showSet(got) + " != requested satisfiable byte set " + showSet(want));
            break;
        }
        if ((ok != 0) != !want.empty()) {
            mismatch(ref, where + ": returned " + std::to_string(ok) + " but the satisfiable byte set is " + showSet(want));
            break;
        }
        if (want.empty()) ++nUnsatisfiable;
        else {
            ++nSatisfiable;
            if (nSat < (int)ref.specs.size()) ++nPartlySat;
            if (want.back().second == (i128)clen - 1) ++nClamped;
        }
    }
    delete real;
}

std::string join(const std::vector<std::string> &v, const char *sep)
{
    std::string s;
    for (size_t i = 0; i < v.size(); ++i) { if (i) s += sep; s += v[i]; }
    return s;
}

void body(V::Ctx &ctx)
{
    gQuick = ctx.quick();

    // (a) lists of specs from a spec alphabet, three separator styles
    const std::vector<std::string> specs = {
        "0-0", "0-1", "1-3", "2-", "-1", "-3", "3-1", "0-", "-0", "9-", "4-9", "00-01",
        "a", "1-a", "1x-2", "1-2x", "+1-2", "-", "--1", "1 - 2", "- 2",
        "9223372036854775806-9223372036854775806", "9223372036854775806-9223372036854775807",
        "0-9223372036854775807", "9223372036854775807-", "-9223372036854775807", "-9223372036854775808",
        "9223372036854775808-", "0-18446744073709551616",
    };
    const char *seps[] = {",", ", ", " ,\t"};
    const int L = ctx.quick() ? 3 : 4;
    std::vector<int> idx;
    for (int len = 1; len <= L; ++len) {
        idx.assign(len, 0);
        for (;;) {
            std::vector<std::string> v;
            for (int i : idx) v.push_back(specs[i]);
            if (V::begin_case("l:" + join(v, ","))) {
                std::string cls;
                for (const char *sep : seps) {
                    checkHeader("bytes=" + join(v, sep));
                    if (cls.empty()) cls = lastClass;
                    if (len == 1) break;
                }
                V::outcome(cls);
                V::end_case();
            }
            int k = len - 1;
            while (k >= 0 && ++idx[k] == (int)specs.size()) { idx[k] = 0; --k; }
            if (k < 0) break;
        }
    }

    // (b) every string up to length N over a character alphabet as the byte-range-set
    const std::string alpha = "019-, a+";
    const int N = ctx.quick() ? 6 : 8;
    for (int len = 0; len <= N; ++len) {
        idx.assign(len, 0);
        for (;;) {
            std::string s;
            for (int i : idx) s += alpha[i];
            if (V::begin_case("s:" + s)) { checkHeader("bytes=" + s); V::outcome(lastClass); V::end_case(); }
            int k = len - 1;
            while (k >= 0 && ++idx[k] == (int)alpha.size()) { idx[k] = 0; --k; }
            if (k < 0) break;
        }
    }

    // (c) range unit spellings
    const char *units[] = {"bytes=", "Bytes=", "BYTES=", "bytes =", "byte=", "bytes", "octets=", "", "bytes=bytes="};
    const char *sets[] = {"0-1", "-1", "1-,0-0", "a"};
    for (const char *u : units)
        for (const char *st : sets) {
            const std::string h = std::string(u) + st;
            if (V::begin_case("u:" + h)) { checkHeader(h); V::outcome(lastClass); V::end_case(); }
        }

    V::count("headers_parsed", nParse);
    V::count("canonize_calls", nCanon);
    V::count("canonize_satisfiable", nSatisfiable);
    V::count("canonize_unsatisfiable", nUnsatisfiable);
    V::count("canonize_partly_satisfiable", nPartlySat);
    V::count("canonize_clamped_to_end", nClamped);
}

} // namespace

// UBSan must run in recover mode (see top of file); the common runner exports halt_on_error=1, so
// re-exec once with our own UBSAN_OPTIONS.
int main(int argc, char **argv)
{
    if (!getenv("C28_UBSAN_RECOVER")) {
        setenv("C28_UBSAN_RECOVER", "1", 1);
        setenv("UBSAN_OPTIONS", "halt_on_error=0:print_stacktrace=0:report_error_type=1", 1);
        execv("/proc/self/exe", argv);
        perror("execv");
        return 2;
    }
    return V::run(argc, argv, body);
}
