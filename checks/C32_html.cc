// C32 — html_quote() neutralises markup and is reversible (E1).
// Real code: html_quote (src/html/Quoting.cc, recompiled from the current tree with ASan+UBSan).
// Memory oracle: the input is handed over in an exact-size heap block; html_quote's own result buffer
// is an exact-size xcalloc block (6n+1 for the longest input so far), so ASan sees any byte written
// or read past either.  Strings are enumerated in increasing length, i.e. the result buffer is
// re-allocated exactly when the first string of a new length arrives.
#include "squid.h"
#include "html/Quoting.h"

#include "vharness.h"

namespace {

// reference decoder for the entity references html_quote may produce; false if `q` contains a raw
// markup metacharacter outside an entity reference or a malformed / unknown reference
bool refDecode(const std::string &q, std::string &out, std::string &why)
{
    for (size_t i = 0; i < q.size();) {
        const unsigned char c = q[i];
        if (c == '<' || c == '>' || c == '"' || c == '\'') { why = std::string("raw metacharacter ") + (char)c + " at offset " + std::to_string(i); return false; }
        if (c != '&') { out += (char)c; ++i; continue; }
        const size_t semi = q.find(';', i);
        if (semi == std::string::npos || semi - i > 7) { why = "raw & (no entity reference) at offset " + std::to_string(i); return false; }
        const std::string name = q.substr(i + 1, semi - i - 1);
        if (name == "lt") out += '<';
        else if (name == "gt") out += '>';
        else if (name == "quot") out += '"';
        else if (name == "apos") out += '\'';
        else if (name == "amp") out += '&';
        else if (name.size() >= 2 && name.size() <= 4 && name[0] == '#') {
            int v = 0;
            for (size_t k = 1; k < name.size(); ++k) {
                if (name[k] < '0' || name[k] > '9') { why = "malformed numeric reference &" + name + ";"; return false; }
                v = v * 10 + (name[k] - '0');
            }
            if (v < 1 || v > 255) { why = "numeric reference out of range &" + name + ";"; return false; }
            out += (char)v;
        } else { why = "raw & or unknown entity &" + V::esc(name) + "; at offset " + std::to_string(i); return false; }
        i = semi + 1;
    }
    return true;
}

uint64_t nQuoted = 0, nBytesIn = 0, nEntities = 0, nGrow = 0;
size_t longest = 0;

// returns the number of entity references in the result
unsigned check(const std::string &s, const std::string &label)
{
    ++nQuoted;
    nBytesIn += s.size();
    if (s.size() > longest) { longest = s.size(); ++nGrow; }
    char *in = (char *)malloc(s.size() + 1);          // exact size: ASan flags an over-read
    memcpy(in, s.c_str(), s.size() + 1);
    const char *q = html_quote(in);
    const std::string quoted(q);
    free(in);
    std::string back, why;
    unsigned ents = 0;
    for (char c : quoted) if (c == '&') ++ents;
    nEntities += ents;
    if (!refDecode(quoted, back, why)) { V::fail("html_quote(" + label + ") = \"" + V::esc(quoted.substr(0, 200)) + "\": " + why); return ents; }
    if (back != s) V::fail("html_quote(" + label + ") = \"" + V::esc(quoted.substr(0, 200)) + "\" decodes to \"" + V::esc(back.substr(0, 200)) + "\", not to the original");
    return ents;
}

void body(V::Ctx &ctx)
{
    // (a) every string up to length L over a 16-symbol alphabet of metacharacters, entity-looking
    // fragments, plain and control / 8-bit characters
    const std::string alpha = std::string("<>\"'&;#altg0x ") + '\x01' + '\xe9';
    const int L = ctx.quick() ? 4 : 5;
    std::vector<int> idx;
    for (int len = 0; len <= L; ++len) {
        idx.assign(len, 0);
        for (;;) {
            std::string s;
            for (int i : idx) s += alpha[i];
            if (V::begin_case("a:" + V::esc(s))) {
                const unsigned e = check(s, "\"" + V::esc(s) + "\"");
                V::outcome(e ? "quoted-something" : "passed-through");
                V::end_case();
            }
            int k = len - 1;
            while (k >= 0 && ++idx[k] == (int)alpha.size()) { idx[k] = 0; --k; }
            if (k < 0) break;
        }
    }
    // (b) every single byte and every pair of bytes (NUL excluded: C strings); thorough: every
    // triple <metachar-or-8bit, any byte, any byte>
    for (int a = 1; a < 256; ++a) {
        const std::string s(1, (char)a);
        if (V::begin_case("b:" + V::esc(s))) { V::outcome(check(s, "\"" + V::esc(s) + "\"") ? "quoted-something" : "passed-through"); V::end_case(); }
    }
    for (int a = 1; a < 256; ++a)
        for (int b = 1; b < 256; ++b) {
            std::string s; s += (char)a; s += (char)b;
            if (V::begin_case("b:" + V::esc(s))) { V::outcome(check(s, "\"" + V::esc(s) + "\"") ? "quoted-something" : "passed-through"); V::end_case(); }
        }
    if (!ctx.quick()) {
        const unsigned char first[] = {'<', '>', '"', '\'', '&', 0x7f, 0x80, 0xff, 0x1f, 'a', '\n'};
        for (unsigned char f : first)
            for (int a = 1; a < 256; ++a) {
                std::string d; d += (char)f; d += (char)a;
                if (!V::begin_case("t:" + V::esc(d) + "*")) continue;    // the third byte is varied inside the case
                unsigned e = 0;
                for (int b = 1; b < 256; ++b) { std::string s = d; s += (char)b; e += check(s, "\"" + V::esc(s) + "\""); }
                V::outcome(e ? "quoted-something" : "passed-through");
                V::end_case();
            }
    }
    // (c) long strings, lengths going up, down and up again (result buffer grows / is reused)
    const size_t lens[] = {64, 1000, 7, 4096, 4097, 100, 16384, 16383, 1, ctx.quick() ? (size_t)20000 : (size_t)65536};
    const char *units[] = {"\"", "'", "&", "<", "\xff", "\x01", "a", "a&", "<a>", "&#1;", "x\"\xe9'"};
    for (const char *u : units)
        for (size_t n : lens) {
            std::string s;
            while (s.size() + strlen(u) <= n) s += u;
            const std::string label = "\"" + V::esc(u) + "\" repeated to " + std::to_string(s.size()) + " bytes";
            if (V::begin_case("c:" + label)) { V::outcome(check(s, label) ? "quoted-something" : "passed-through"); V::end_case(); }
        }
    V::count("strings_quoted", nQuoted);
    V::count("input_bytes", nBytesIn);
    V::count("entity_references_decoded", nEntities);
    V::count("result_buffer_growths", nGrow);
}

} // namespace

VHARNESS_MAIN(body)
