"""C27 Integer parsing is exact and overflow-safe — E1, exhaustive over a token alphabet + limit numerals."""
from vverif import seq
from vverif.core import Result

LEVEL = 'exploration'
RULE = ('every string of length <= L over the 12-symbol alphabet "01789afgxX+-" (L=4 quick, 5 thorough) and every '
        'numeral around 2^31/2^32/2^63/2^64 in bases 2,8,10,16,36 with 13 prefixes x 9 suffixes; each string is fed to '
        'Tokenizer::int64 for bases {0,8,10,16[,2,36]} x allowSign x limit {npos,0,1,2,3,19,20}, to udec64, '
        'httpHeaderParseOffset and httpHeaderParseInt and compared with an __int128 strtoll-alike reference; '
        'non-trivial = calls that accepted a numeral or rejected an overflowing one')
ASSUME = ['Tokenizer.cc and HttpHeaderTools.cc are recompiled from the scratch copy of the current tree with '
          '-fsanitize=address,undefined -fno-sanitize-recover; a sanitizer report aborts the case and is a violation',
          'a dangling "0x" prefix (no hex digit after it) may be rejected or parsed as the leading 0 (strtoll); both accepted']


def _build(ctx):
    return seq.build(ctx, 'tests/testHttpRequest', ['C27_int.cc'], drop_objects=[r'^HttpHeaderTools\.o$'],
                     tree_sources=['parser/Tokenizer.cc', 'HttpHeaderTools.cc'],
                     tree_flags=['-fsanitize=undefined', '-fno-sanitize-recover=undefined'])


def run(ctx):
    exe = _build(ctx)
    m = seq.run(ctx, exe)
    nontriv = [k for k in m['outcomes'] if k.endswith(':accepted') or k.endswith('overflow-rejected')]
    cov = seq.coverage_from(m, RULE, nontrivial_classes=nontriv, min_classes=6)
    cov['parser_calls'] = m['counters'].get('parser_calls', 0)
    return Result(LEVEL, cov, seq.violations_from(m), ASSUME)


def replay(ctx, data):
    exe = _build(ctx)
    m = seq.replay_case(ctx, exe, data['case'])
    m.setdefault('deadline_hit', False)
    return Result(LEVEL, {}, seq.violations_from(m), ASSUME)
