"""C59 Timed events fire in order and never after cancellation — E1, explicit-state BFS of the real
EventScheduler against a (nondeterministic) list model."""
from vverif import seq
from vverif.core import Result, HarnessError

LEVEL = 'model_checking'
RULE = ('BFS over all operation sequences of the real EventScheduler (src/event.cc, testEvent link set) up to a depth, '
        'operations = schedule(callback, arg, when, weight) / cancel(callback,arg) / cancel(callback,nullptr) / advance the '
        'clock / checkEvents()+AsyncCallQueue::fire(); four alphabets: full (2 callbacks x {a,b,null} x when {0,0.5,1} x '
        'weight {0,1}, advance {0.5,1}: 45 ops, depth 3 quick / 4 thorough), cancel (when {0,1}, weight 0, advance 1: 20 ops, depth 5/6), '
        'time (1 callback, 2 args, when {0,0.5,1,1.5}, both weights: 22 ops, depth 4/5), dup (one callback+arg only, so '
        'all events are indistinguishable duplicates: 11 ops, depth 6/7); states are deduplicated on the canonical '
        '(real list, model) pair with times relative to the clock; after every new state a drain probe advances the clock '
        'by 50 s and runs the scheduler until idle')
ASSUME = ['src/event.cc of the current tree as built for tests/testEvent (ASan); cbdata is stubbed in that link set, so all '
          'events are scheduled with cbdata=false (the "stale handler data" path is not exercised)',
          'the clock (current_dtime) never goes backwards; times are multiples of 0.5 s (exact in double)',
          'when=0 events: an ordering obligation against an event with when>0 is demanded only if it holds under both readings '
          'of the when=0 due time (the documented zero timestamp / the clock value at schedule time)',
          'cancel(callback,arg) is only issued when such an event is pending (documented precondition: debug_trap otherwise); '
          'with several indistinguishable pending events any one of them may be the cancelled / fired one',
          'exploration stops at a state where a violation was seen (model and implementation have diverged there)',
          'states are deduplicated exactly inside the root phase (sequences <= 2-3 ops) and inside each subtree below one '
          'root-phase frontier state; the same state reached in two subtrees is counted (and expanded) in both']


def _build(ctx):
    return seq.build(ctx, 'tests/testEvent', ['C59_event.cc'], drop_objects=[r'stub_libmem\.o$'])


def _result(ctx, m, replaying=False):
    c = m['counters']
    vs = seq.violations_from(m)
    if not replaying:
        need = {'events_fired': 1000, 'fifo_among_equal_times_observed': 100, 'due_time_order_observed': 100,
                'runs_leaving_not_yet_due_events': 100, 'runs_leaving_due_events_behind_heavy': 10,
                'cancel_null_removing_several': 10, 'cancel_arg_among_duplicates': 10, 'cancel_arg_leaving_others': 100,
                'drain_probes': 1000}
        low = {k: c.get(k, 0) for k, v in need.items() if c.get(k, 0) < v}
        if low and not m['deadline_hit']:
            raise HarnessError('vacuity guard: %r' % low)
    done = not m['deadline_hit']
    cov = {
        'states': c.get('states', 0), 'transitions': c.get('transitions', 0),
        'traces_validated_against_impl': c.get('transitions', 0),
        'states_root_phase': c.get('states_root_phase', 0),
        'subtrees': m['evaluations'], 'subtrees_completed': c.get('subtrees_completed', 0),
        'bound_completed': (('depth 3 (full) / 5 (cancel) / 4 (time) / 6 (dup)' if ctx.quick else 'depth 4 (full) / 6 (cancel) / 5 (time) / 7 (dup)')
                            if done else 'partial (deadline)'),
        'violating_transitions': c.get('violating_transitions', 0),
        'counters': c, 'outcome_classes': m['outcomes'], 'rule': RULE, 'samples': m['samples'],
        'exhaustive': done, 'deadline_hit': m['deadline_hit'],
    }
    return Result(LEVEL, cov, vs, ASSUME)



def _timed_build(ctx):
    """Compiling and linking the harness is build time as well: like ctx.vbuild(), do not charge it to the
    tier deadline (under load the link of a unit-test set alone can take minutes)."""
    import time
    t, b0 = time.time(), getattr(ctx, 'build_s', 0.0)
    exe = _build(ctx)
    ctx.deadline_s += max(0.0, (time.time() - t) - (getattr(ctx, 'build_s', 0.0) - b0))
    return exe


def run(ctx):
    exe = _timed_build(ctx)
    m = seq.run(ctx, exe)
    return _result(ctx, m)


def replay(ctx, data):
    exe = _build(ctx)
    # the case descriptor names the depth, which depends on the tier: try the requested tier first
    tiers = [ctx.tier] + [t for t in ('quick', 'thorough') if t != ctx.tier]
    for t in tiers:
        ctx.tier = t
        m = seq.replay_case(ctx, exe, data['case'])
        if m.get('evaluations'):
            break
    else:
        raise HarnessError('replay: no case named %r' % data['case'])
    m.setdefault('deadline_hit', False)
    return _result(ctx, m, replaying=True)
