"""C42 IP-address ACLs match exactly the configured address sets — E1, every ordered list over a value pool."""
from vverif import seq, seqla
from vverif.core import Result, HarnessError

LEVEL = 'exploration'
RULE = ('every ordered list (repetitions allowed => every insertion order, duplicates, overlaps) of <= 2 values '
        '(thorough: <= 3) from a pool of 113 src-ACL values - per family (10.0.0.0/28 and fc00::/124): all 31 aligned '
        'CIDR blocks plus the enclosing /27 (/123), 4 plain addresses, 15 ranges a-b over 6 points, a one-address range, '
        '3 ranges with a mask; plus all/ipv4/ipv6 - and every list of 3 (thorough: 4) values from a 20-value pool of '
        'bridging/swallowing candidates is parsed by the real ACLIP::parse() and probed (forwards, then backwards on the '
        'same self-adjusting tree) with all 32 core addresses and 14 addresses outside; oracle = union of the integer '
        'intervals / families of the listed values; non-trivial = lists of >= 2 values for which some probes match and '
        'others do not')
ASSUME = ['Ip::EnableIpv6 is switched on by the harness (Squid probes it at start-up; otherwise IPv6 values are ignored)',
          'values are written without host bits below the mask, as the property statement requires',
          'plain addresses go through getaddrinfo() (numeric, no DNS traffic)']


def _build(ctx):
    return seqla.build(ctx, 'tests/testCacheManager', ['C42_ip.cc'])


def run(ctx):
    exe = _build(ctx)
    m = seq.run(ctx, exe)
    nontriv = ['multi:overlapping', 'multi:disjoint', 'multi:with-family-keyword']
    cov = seq.coverage_from(m, RULE, nontrivial_classes=nontriv, min_classes=4)
    c = m['counters']
    if not m['failures'] and not m['crashes']:
        for k, least in (('hits', 1000), ('misses', 1000), ('lists_merged_or_deduplicated', 100)):
            if c.get(k, 0) < least:
                raise HarnessError('vacuity guard: %s = %d < %d' % (k, c.get(k, 0), least))
        for k in nontriv:
            if m['outcomes'].get(k, 0) < 50:
                raise HarnessError('vacuity guard: only %d lists of class %s' % (m['outcomes'].get(k, 0), k))
    return Result(LEVEL, cov, seq.violations_from(m), ASSUME)


def replay(ctx, data):
    exe = _build(ctx)
    m = seq.replay_case(ctx, exe, data['case'])
    m.setdefault('deadline_hit', False)
    return Result(LEVEL, {}, seq.violations_from(m), ASSUME)
