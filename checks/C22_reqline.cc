// C22 — Http1::RequestParser request-line acceptance vs an independent reference recogniser (E1).
//
// Real code: src/http/one/RequestParser.cc (parseRequestFirstLine and its field parsers), Parser.cc,
// parser/Tokenizer.cc, base/CharacterSet.cc, http/RequestMethod.cc of the current tree.
//
// Reference (written from the RFC text, forward-parsing; Squid parses the line from both ends):
//   strict  : RFC 9112 section 3   request-line = method SP request-target SP HTTP-version, terminated by CRLF
//             method = 1*tchar (Squid limit: 32), HTTP-version = "HTTP/" DIGIT "." DIGIT,
//             request-target = 1*( RFC 3986 characters ) (Squid limit: String::RawSizeMaxXXX() = 65535 bytes)
//             + RFC 1945 Simple-Request "GET" SP target CRLF (documented in RequestParser.cc: "A GET request
//             might use HTTP/0.9 syntax ... no HTTP version field at all")
//   relaxed : the tolerances documented in RequestParser.cc / Parser.cc / RFC 9112 2.2+3: leading empty lines
//             (LF or CRLF), bare LF terminator, any number of CR before the LF, one or more of SP HTAB VT FF CR
//             as field delimiter, those delimiters + RFC 2396 "unwise" characters + octets >= 0x80 inside the
//             target, mixed-case spelling of registered methods.
// The request-target is judged on the character level only (that is what this seam decides; the four
// request-target forms are validated by URL parsing later).  How many accepted targets are outside the four
// RFC 9112 forms is measured and reported, not judged.
#include "squid.h"
#include "http/one/RequestParser.h"
#include "http/RequestMethod.h"
#include "mem/forward.h"
#include "sbuf/SBuf.h"
#include "SquidConfig.h"
#include "SquidString.h"

#include "vharness.h"

namespace {

// ---------------------------------------------------------------- reference recogniser

bool isDigit(unsigned char c) { return c >= '0' && c <= '9'; }
bool isAlpha(unsigned char c) { return (c >= 'a' && c <= 'z') || (c >= 'A' && c <= 'Z'); }
bool isHex(unsigned char c) { return isDigit(c) || (c >= 'a' && c <= 'f') || (c >= 'A' && c <= 'F'); }
bool isTchar(unsigned char c) { return isDigit(c) || isAlpha(c) || (c && strchr("!#$%&'*+-.^_`|~", c)); }
bool isUnreserved(unsigned char c) { return isDigit(c) || isAlpha(c) || c == '-' || c == '.' || c == '_' || c == '~'; }
bool isSubDelim(unsigned char c) { return c && strchr("!$&'()*+,;=", c); }
bool isGenDelim(unsigned char c) { return c && strchr(":/?#[]@", c); }
bool isUriChar(unsigned char c) { return isUnreserved(c) || isSubDelim(c) || isGenDelim(c) || c == '%'; }
bool isRelaxedDelim(unsigned char c) { return c == ' ' || c == '\t' || c == 0x0b || c == 0x0c || c == '\r'; }
bool isUnwise(unsigned char c) { return c && strchr("\"\\|^<>`{}", c); }
bool isRelaxedTargetChar(unsigned char c) { return isUriChar(c) || isRelaxedDelim(c) || isUnwise(c) || c >= 0x80; }

const size_t MethodMax = 32;

enum Kind { Incomplete, Reject, Accept };
struct Ref {
    Kind kind = Reject;
    const char *why = "";
    std::string method, target;
    int major = -1, minor = -1;
    bool simple = false;      // RFC 1945 Simple-Request (no version field)
    bool uriTooLong = false;
};

// exactly "HTTP/" DIGIT "." DIGIT
bool isVersion(const std::string &v)
{
    return v.size() == 8 && v.compare(0, 5, "HTTP/") == 0 && isDigit(v[5]) && v[6] == '.' && isDigit(v[7]);
}
// ends with something meant to be a version field: "HTTP/" 1*DIGIT "." 1*DIGIT
bool endsVersionLike(const std::string &v)
{
    size_t e = v.size(), p = e;
    while (p > 0 && isDigit(v[p-1])) --p;
    if (p == e || p == 0 || v[p-1] != '.') return false;
    size_t q = --p;
    while (p > 0 && isDigit(v[p-1])) --p;
    if (p == q) return false;
    return p >= 5 && v.compare(p - 5, 5, "HTTP/") == 0;
}

Ref rejectRef(const char *why) { Ref r; r.kind = Reject; r.why = why; return r; }

Ref checkTarget(Ref r, bool relaxed, size_t uriMax)
{
    if (r.target.empty()) return rejectRef("empty request-target");
    for (unsigned char c : r.target)
        if (!(relaxed ? isRelaxedTargetChar(c) : isUriChar(c))) return rejectRef("octet not allowed in request-target");
    if (r.target.size() > uriMax) { Ref x = rejectRef("request-target longer than the URI limit"); x.uriTooLong = true; return x; }
    r.kind = Accept;
    return r;
}

Ref refStrict(const std::string &s, size_t uriMax)
{
    const size_t lf = s.find('\n');
    if (lf == std::string::npos) { Ref r; r.kind = Incomplete; return r; }
    if (lf == 0 || s[lf-1] != '\r') return rejectRef("line not terminated by CRLF");
    const std::string core = s.substr(0, lf - 1);
    std::vector<std::string> f(1);
    for (char c : core) { if (c == ' ') f.emplace_back(); else f.back() += c; }
    if (f.size() < 2 || f.size() > 3) return rejectRef("not 2 or 3 SP-separated fields");
    Ref r;
    r.method = f[0];
    if (r.method.empty() || r.method.size() > MethodMax) return rejectRef("method empty or longer than 32");
    for (unsigned char c : r.method) if (!isTchar(c)) return rejectRef("method is not a token");
    r.target = f[1];
    if (f.size() == 3) {
        if (!isVersion(f[2])) return rejectRef("third field is not HTTP-version");
        r.major = f[2][5] - '0'; r.minor = f[2][7] - '0';
    } else {
        if (endsVersionLike(f[1])) return rejectRef("version field present, request-target (or its delimiter) missing");
        if (r.method != "GET") return rejectRef("no HTTP-version and method is not GET");
        r.simple = true; r.major = 0; r.minor = 9;
    }
    return checkTarget(r, false, uriMax);
}

bool ieq(const std::string &a, const std::string &b)
{
    if (a.size() != b.size()) return false;
    for (size_t i = 0; i < a.size(); ++i) if (tolower((unsigned char)a[i]) != tolower((unsigned char)b[i])) return false;
    return true;
}

Ref refRelaxed(const std::string &s, size_t uriMax)
{
    size_t p = 0;
    for (;;) { // leading empty lines
        if (p < s.size() && s[p] == '\n') { ++p; continue; }
        if (p + 1 < s.size() && s[p] == '\r' && s[p+1] == '\n') { p += 2; continue; }
        break;
    }
    const size_t lf = s.find('\n', p);
    if (lf == std::string::npos) { Ref r; r.kind = Incomplete; return r; }
    size_t e = lf;
    while (e > p && s[e-1] == '\r') --e; // any number of CR before LF
    const std::string core = s.substr(p, e - p);
    size_t m = 0;
    while (m < core.size() && isTchar(core[m])) ++m;
    if (m == 0 || m > MethodMax) return rejectRef("method empty or longer than 32");
    Ref r;
    r.method = core.substr(0, m);
    size_t q = m;
    while (q < core.size() && isRelaxedDelim(core[q])) ++q;
    if (q == m) return rejectRef("no delimiter after method");
    std::string rest = core.substr(q);
    if (rest.size() >= 8 && isVersion(rest.substr(rest.size() - 8))) {
        r.major = rest[rest.size()-3] - '0'; r.minor = rest[rest.size()-1] - '0';
        rest.resize(rest.size() - 8);
        size_t t = rest.size();
        while (t > 0 && isRelaxedDelim(rest[t-1])) --t;
        if (t == rest.size()) return rejectRef("no delimiter before HTTP-version");
        r.target = rest.substr(0, t);
    } else if (endsVersionLike(rest)) {
        return rejectRef("malformed HTTP-version field");
    } else {
        if (!ieq(r.method, "GET")) return rejectRef("no HTTP-version and method is not GET");
        r.simple = true; r.major = 0; r.minor = 9;
        r.target = rest;
    }
    return checkTarget(r, true, uriMax);
}

// ---- RFC 9112 request-target forms on top of RFC 3986 (measured only)
struct Cur { const std::string &s; size_t p; bool end() const { return p >= s.size(); } unsigned char c() const { return s[p]; } };
bool pct(Cur &u) { if (u.p + 2 < u.s.size() && u.s[u.p] == '%' && isHex(u.s[u.p+1]) && isHex(u.s[u.p+2])) { u.p += 3; return true; } return false; }
bool pchar(Cur &u) { if (u.end()) return false; if (isUnreserved(u.c()) || isSubDelim(u.c()) || u.c() == ':' || u.c() == '@') { ++u.p; return true; } return pct(u); }
void segments(Cur &u) { for (;;) { while (pchar(u)) {} if (!u.end() && u.c() == '/') { ++u.p; continue; } break; } }
bool queryOpt(Cur &u) { if (!u.end() && u.c() == '?') { ++u.p; for (;;) { if (pchar(u)) continue; if (!u.end() && (u.c() == '/' || u.c() == '?')) { ++u.p; continue; } break; } } return true; }
bool hostPort(Cur &u, bool needPort)
{
    if (!u.end() && u.c() == '[') { // IP-literal, loosely: "[" 1*( HEXDIG / ":" / "." / "v" ) "]"
        size_t q = u.p + 1;
        while (q < u.s.size() && (isHex(u.s[q]) || u.s[q] == ':' || u.s[q] == '.' || u.s[q] == 'v')) ++q;
        if (q == u.p + 1 || q >= u.s.size() || u.s[q] != ']') return false;
        u.p = q + 1;
    } else {
        for (;;) { if (!u.end() && (isUnreserved(u.c()) || isSubDelim(u.c()))) { ++u.p; continue; } if (pct(u)) continue; break; }
    }
    if (!u.end() && u.c() == ':') { ++u.p; while (!u.end() && isDigit(u.c())) ++u.p; return true; }
    return !needPort;
}
bool isOriginForm(const std::string &t) { if (t.empty() || t[0] != '/') return false; Cur u{t, 0}; segments(u); queryOpt(u); return u.end(); }
bool isAuthorityForm(const std::string &t) { Cur u{t, 0}; return hostPort(u, true) && u.end(); }
bool isAbsoluteForm(const std::string &t)
{
    size_t p = 0;
    if (t.empty() || !isAlpha(t[0])) return false;
    while (p < t.size() && (isAlpha(t[p]) || isDigit(t[p]) || t[p] == '+' || t[p] == '-' || t[p] == '.')) ++p;
    if (p >= t.size() || t[p] != ':') return false;
    Cur u{t, p + 1};
    if (t.compare(u.p, 2, "//") == 0) {
        u.p += 2;
        // optional userinfo
        const size_t at = t.find('@', u.p), slash = t.find_first_of("/?", u.p);
        if (at != std::string::npos && (slash == std::string::npos || at < slash)) {
            Cur v{t, u.p};
            for (;;) { if (!v.end() && v.p < at && (isUnreserved(v.c()) || isSubDelim(v.c()) || v.c() == ':')) { ++v.p; continue; } if (v.p < at && pct(v)) continue; break; }
            if (v.p != at) return false;
            u.p = at + 1;
        }
        if (!hostPort(u, false)) return false;
        if (!u.end() && u.c() == '/') segments(u);
    } else {
        segments(u); // path-absolute / path-rootless / path-empty
    }
    queryOpt(u);
    return u.end();
}
bool isRfcTargetForm(const std::string &t) { return t == "*" || isOriginForm(t) || isAbsoluteForm(t) || isAuthorityForm(t); }

// ---------------------------------------------------------------- Squid side

struct Obs {
    Kind kind = Incomplete;
    int status = 0;
    std::string method, target;
    int methodId = 0;
    int major = -1, minor = -1;
};

std::string str(const SBuf &b) { return std::string(b.rawContent(), b.length()); }

uint64_t nParses = 0;

Obs runSquid(const std::string &s, int relaxed)
{
    Config.onoff.relaxed_header_parser = relaxed;
    Http1::RequestParser p;
    SBuf inBuf;
    inBuf.append(s.data(), s.size());
    ++nParses;
    const bool ok = p.parse(inBuf);
    Obs o;
    o.status = (int)p.parseStatusCode;
    const auto stage = p.parsingStage_;
    if (stage == Http1::HTTP_PARSE_NONE || stage == Http1::HTTP_PARSE_FIRST)
        o.kind = Incomplete;
    else if (ok || (stage == Http1::HTTP_PARSE_MIME && p.parseStatusCode == Http::scOkay))
        o.kind = Accept;
    else
        o.kind = Reject;
    if (o.kind == Accept) {
        o.method = str(p.method_.image());
        o.methodId = (int)p.method_.id();
        o.target = str(p.uri_);
        o.major = p.msgProtocol_.major; o.minor = p.msgProtocol_.minor;
        if (p.msgProtocol_.protocol != AnyP::PROTO_HTTP) o.major = -2;
    }
    return o;
}

std::string rstripDelims(std::string t) { while (!t.empty() && isRelaxedDelim(t.back())) t.pop_back(); return t; }

// the bytes Squid should take for the request line (without terminator and delimiters in front of it)
std::string requestLineOf(const std::string &s, bool relaxed)
{
    size_t p = 0;
    if (relaxed)
        for (;;) {
            if (p < s.size() && s[p] == '\n') { ++p; continue; }
            if (p + 1 < s.size() && s[p] == '\r' && s[p+1] == '\n') { p += 2; continue; }
            break;
        }
    const size_t lf = s.find('\n', p);
    return rstripDelims(s.substr(p, lf == std::string::npos ? std::string::npos : lf - p));
}
bool endsWithZeroVersion(const std::string &line) { return line.size() >= 8 && isVersion(line.substr(line.size() - 8)) && line[line.size() - 3] == '0'; }

std::set<std::string> keysEmitted;
std::map<std::string, uint64_t> keyCounts;
uint64_t nInputs = 0, nNotRfcForm = 0, nUndecided = 0, nMarker = 0;

void mismatch(const std::string &key, const std::string &s, int relaxed, const Ref &r, const Obs &o, const std::string &what)
{
    ++keyCounts[key];
    if (!keysEmitted.insert(key).second) return;
    static const char *kn[] = {"incomplete", "reject", "accept"};
    V::failKey(key, std::string("relaxed_header_parser=") + (relaxed ? "on" : "off") + " input '" + V::esc(s.size() > 300 ? s.substr(0, 300) + "..." : s) + "': " + what +
               " | reference: " + kn[r.kind] + (r.kind == Accept ? " method='" + V::esc(r.method) + "' target='" + V::esc(r.target.substr(0, 80)) + "' version=" + std::to_string(r.major) + "." + std::to_string(r.minor) + (r.simple ? " (simple-request)" : "") : std::string(" (") + r.why + ")") +
               " | squid: " + kn[o.kind] + (o.kind == Accept ? " method='" + V::esc(o.method) + "' target='" + V::esc(o.target.substr(0, 80)) + "' version=" + std::to_string(o.major) + "." + std::to_string(o.minor) : " status=" + std::to_string(o.status)));
}

// one input under one mode; returns the outcome class
const char *judge(const std::string &s, int relaxed, size_t uriMax)
{
    ++nInputs;
    const Ref r = relaxed ? refRelaxed(s, uriMax) : refStrict(s, uriMax);
    const Obs o = runSquid(s, relaxed);
    const std::string mode = relaxed ? "relaxed:" : "strict:";

    // Squid reports a version field with multi-digit numbers as accepted with version 0.0 ("use '0.0' for
    // unsupported multiple digit version numbers"); its caller answers 505.  That is Squid's way of rejecting.
    const bool marker = o.kind == Accept && o.major == 0 && o.minor == 0 && !(r.kind == Accept && r.major == 0 && r.minor == 0);
    if (marker) ++nMarker;
    const Kind ok = marker ? Reject : o.kind;

    // one root cause, recognised from the input: an explicit version field with major digit 0 is handled as if no
    // version field were there (http0()), i.e. the delimiter before it is neither required nor removed
    const bool explicitZero = r.kind == Accept ? (!r.simple && r.major == 0)
                              : (o.kind == Accept && o.major == 0 && !marker && endsWithZeroVersion(requestLineOf(s, relaxed)));

    if (r.kind == Accept) {
        if (ok != Accept) {
            if (explicitZero && !relaxed && o.kind == Reject && o.status == 400)
                mismatch("strict:explicit-HTTP/0.x-version-field:valid-line-rejected-400", s, relaxed, r, o, "line matches the grammar but is rejected");
            else
                mismatch(mode + "grammar-accepts:squid-" + (o.kind == Reject ? "rejects-" + std::to_string(o.status) : marker ? "reports-version-0.0" : "undecided"), s, relaxed, r, o, "line matches the grammar but is not accepted");
            return "accept:MISMATCH";
        }
        const bool mOk = relaxed ? ieq(o.method, r.method) : o.method == r.method;
        const bool tOk = relaxed ? rstripDelims(o.target) == rstripDelims(r.target) : o.target == r.target;
        const bool vOk = o.major == r.major && o.minor == r.minor;
        if (!mOk || !tOk || !vOk) {
            mismatch(mode + "fields-differ:" + (mOk ? "" : "method") + (tOk ? "" : "target") + (vOk ? "" : "version"), s, relaxed, r, o, "accepted, but the extracted fields are not the grammar's fields");
            return "accept:MISMATCH";
        }
        if (!isRfcTargetForm(r.target)) ++nNotRfcForm;
        return r.simple ? "accept:simple-request" : "accept:request-line";
    }
    if (ok == Accept) {
        if (explicitZero)
            mismatch(mode + "explicit-HTTP/0.x-version-field-without-delimiter:accepted-with-truncated-target", s, relaxed, r, o, "line is outside the grammar and the tolerances but is accepted");
        else
            mismatch(mode + "grammar-rejects:squid-accepts", s, relaxed, r, o, r.kind == Incomplete ? "no complete line yet but a request line is accepted" : "line is outside the grammar and the tolerances but is accepted");
        return "reject:MISMATCH";
    }
    if (r.kind == Incomplete) return "incomplete";
    if (o.kind == Incomplete) { ++nUndecided; return "reject:left-undecided-by-squid"; }
    if (r.uriTooLong) return o.status == 414 ? "reject:uri-too-long-414" : "reject:uri-too-long-other-status";
    // trivial rejection: the line does not even start with a method character
    const size_t lf = s.find('\n');
    (void)lf;
    if (s.empty() || !isTchar((unsigned char)s[0])) return "reject:first-octet-not-tchar";
    return "reject:malformed-line";
}

void runBoth(const std::string &s, size_t uriMax)
{
    for (int relaxed = 0; relaxed < 2; ++relaxed)
        V::outcome(std::string(relaxed ? "relaxed:" : "strict:") + judge(s, relaxed, uriMax));
}

// base line + every single-octet substitution, insertion of a delimiter-ish octet, deletion
void mutateAll(const std::string &base, const std::string &tail, size_t uriMax)
{
    std::set<std::string> seen;
    auto go = [&](const std::string &m) { if (seen.insert(m).second) runBoth(m + tail, uriMax); };
    go(base);
    for (size_t i = 0; i < base.size(); ++i)
        for (int b = 0; b < 256; ++b) {
            if ((unsigned char)base[i] == b) continue;
            std::string m = base; m[i] = (char)b; go(m);
        }
    static const char ins[] = {' ', '\t', 0x0b, 0x0c, '\r', '\n', 0};
    for (size_t i = 0; i <= base.size(); ++i)
        for (char c : ins) { std::string m = base; m.insert(i, 1, c); go(m); }
    for (size_t i = 0; i < base.size(); ++i) { std::string m = base; m.erase(i, 1); go(m); }
}

void body(V::Ctx &ctx)
{
    Mem::Init();
    Config.maxRequestHeaderSize = 1 << 20; // out of the way: C22 is about the line grammar (C21 covers this limit)
    const size_t uriMax = String::RawSizeMaxXXX();
    const bool q = ctx.quick();

    // (1) grammar-generated request lines x single-octet mutations
    const std::string tch = "!#$%&'*+-.^_`|~";
    std::vector<std::string> methods = {"GET", "A", tch, std::string(33, 'M')};
    std::vector<std::string> targets = {"/", "http://h/p?q", "*"};
    std::vector<std::string> versions = {" HTTP/1.1", " HTTP/2.0", " HTTP/12.1", " HTTP/0.9", ""};
    std::vector<std::string> terms = {"\r\n", "\n"};
    std::vector<std::string> prefixes = {"", "\r\n"};
    if (!q) {
        methods.insert(methods.end(), {std::string(32, 'M'), "get", "CONNECT"});
        targets.insert(targets.end(), {"h:1", "/%41/x", "/a?b=c&d"});
        versions.insert(versions.end(), {" HTTP/1.0", " HTTP/1.10"});
        terms.push_back("\r\r\n");
        prefixes.push_back("\n");
    }
    for (const auto &pre : prefixes)
        for (const auto &me : methods)
            for (const auto &ta : targets)
                for (const auto &ve : versions)
                    for (const auto &te : terms) {
                        const std::string base = pre + me + " " + ta + ve + te;
                        if (!V::begin_case("b:" + V::esc(base))) continue;
                        mutateAll(base, "\r\n", uriMax);
                        V::end_case();
                    }

    // (2) every token string up to L tokens (several mutations at once, pieces in any order)
    static const char *const TOK[] = {"GET", "get", "A", " ", "\t", "\x0b", "\r", "\n", "/", "*", "h:1", "HTTP/1.1", "HTTP/0.9", "HTTP/12.1",
                                      "HTTP/", "1", ".", "%", "\x80", "\0", "<", "\r\n"};
    std::vector<std::string> alpha;
    for (const char *t : TOK) alpha.push_back(t[0] ? std::string(t) : std::string(1, '\0'));
    const int L = q ? 4 : 5;
    std::vector<int> idx;
    for (int len = 0; len <= L; ++len) {
        idx.assign(len, 0);
        for (;;) {
            std::string s;
            for (int i : idx) s += alpha[i];
            if (V::begin_case("t:" + V::esc(s))) { runBoth(s, uriMax); V::end_case(); }
            int k = len - 1;
            while (k >= 0 && ++idx[k] == (int)alpha.size()) { idx[k] = 0; --k; }
            if (k < 0) break;
        }
    }

    // (3) Squid's method and URI length limits exactly at the boundary
    for (size_t n : {uriMax - 1, uriMax, uriMax + 1, uriMax + 2})
        for (const char *ve : {" HTTP/1.1", ""})
            for (const char *me : {"GET", "MMMMMMMMMMMMMMMMMMMMMMMMMMMMMMMM"}) {
                const std::string s = std::string(me) + " /" + std::string(n - 1, 'a') + ve + "\r\n\r\n";
                if (V::begin_case("u:" + std::string(me) + ":" + std::to_string(n) + ":" + (ve[0] ? "1.1" : "simple"))) { runBoth(s, uriMax); V::end_case(); }
            }

    V::count("inputs_x_modes", nInputs);
    V::count("parser_calls", nParses);
    V::count("accepted_target_outside_the_four_rfc9112_forms", nNotRfcForm);
    V::count("complete_invalid_line_left_undecided_by_squid", nUndecided);
    V::count("multi_digit_version_reported_as_0.0", nMarker);
    for (auto &kc : keyCounts) V::count("mismatches:" + kc.first, kc.second);
}

} // namespace

VHARNESS_MAIN(body)
