"""C43 Integer-range ACLs match exactly the configured ranges — E1, every ordered list over a value pool."""
from vverif import seq, seqla
from vverif.core import Result, HarnessError

LEVEL = 'exploration'
RULE = ('every ordered list (repetitions allowed) of <= 2 (thorough: <= 3) values from the pool {n, a-b : 0 <= a < b <= 11 '
        '(thorough: 15)} + {5-5, 65535, 65534-65535, 0-65535, 15-65534}, and in the quick tier every list of 3 values '
        'from a reduced pool, is parsed by the real ACLIntRange::parse() (as for "acl X port ...") and probed with '
        '-1..top+2 and 10 numbers around 2^8, 2^15, 2^16, 2^17; oracle = union of the listed closed intervals; '
        'non-trivial = lists of >= 2 values for which some probes match and others do not')
ASSUME = ['only well-formed values (lo <= hi <= 65535) are configured; malformed ones make Squid refuse the configuration']


def _build(ctx):
    return seqla.build(ctx, 'tests/testCacheManager', ['C43_intrange.cc'])


def run(ctx):
    exe = _build(ctx)
    m = seq.run(ctx, exe)
    nontriv = ['multi:overlapping', 'multi:disjoint', 'multi:adjacent']
    cov = seq.coverage_from(m, RULE, nontrivial_classes=nontriv, min_classes=4)
    c = m['counters']
    if not m['failures'] and not m['crashes']:
        for k, least in (('hits', 1000), ('misses', 1000)):
            if c.get(k, 0) < least:
                raise HarnessError('vacuity guard: %s = %d < %d' % (k, c.get(k, 0), least))
        for k in nontriv:
            if m['outcomes'].get(k, 0) < 50:
                raise HarnessError('vacuity guard: only %d lists of class %s' % (m['outcomes'].get(k, 0), k))
    return Result(LEVEL, cov, seq.violations_from(m), ASSUME)


def replay(ctx, data):
    exe = _build(ctx)
    m = seq.replay_case(ctx, exe, data['case'])
    m.setdefault('deadline_hit', False)
    return Result(LEVEL, {}, seq.violations_from(m), ASSUME)
