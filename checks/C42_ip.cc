// C42 — IP ACLs (src/dst/localip data: ACLIP) vs. a set model (E1).
// Real code: ACLIP::parse()/match(), acl_ip_data::FactoryParse(), Acl::SplayInserter<acl_ip_data*>
// (src/acl/Ip.cc, src/acl/SplayInserter.h), Ip::Address (src/ip/Address.cc), Splay<> — driven through
// ConfigParser::SetCfgLine() like an "acl NAME src v1 v2 ..." line, on a real ACLSourceIP object.
#include "squid.h"
#include "acl/SourceIp.h"
#include "ConfigParser.h"
#include "ip/Address.h"
#include "ip/tools.h"
#include "mem/forward.h"

#include "vharness.h"

#include <algorithm>

namespace {

// Addresses are modelled as (family, signed offset from the universe base 10.0.0.0 / fc00::).
struct Val {
    std::string text;
    int fam = 0;            // 4, 6, or 0 for the family-wide keywords
    long lo = 0, hi = -1;   // inclusive offsets
    bool all4 = false, all6 = false;
    bool rangeSyntax = false;   // written as addr1-addr2[/mask]
    bool covers(int pf, long off) const {
        if (pf == 4 && all4) return true;
        if (pf == 6 && all6) return true;
        return fam == pf && lo <= off && off <= hi;
    }
};

struct Probe {
    std::string text;
    int fam;
    long off;
    Ip::Address addr;
};

// Offsets >= Low and < Low + 256 denote the very first addresses of the family: 0.0.0.x resp. ::x.
const long Low4 = -(10L << 24);
const long Low6 = -1000000;
const long Loop4 = (127L - 10) << 24;   // 127.0.0.0
const long Bcast4 = ((255L - 10) << 24) + 0xffffff;   // 255.255.255.255

std::string addrText(int fam, long off)
{
    char b[64];
    if (fam == 4) {
        const unsigned long a = (unsigned long)(off - Low4);
        snprintf(b, sizeof b, "%lu.%lu.%lu.%lu", a >> 24 & 255, a >> 16 & 255, a >> 8 & 255, a & 255);
    } else if (off >= Low6 && off < Low6 + 256) {
        if (off == Low6) snprintf(b, sizeof b, "::");
        else snprintf(b, sizeof b, "::%lx", off - Low6);
    } else snprintf(b, sizeof b, "fc00::%lx", off);
    return b;
}

Val cidr(int fam, long start, int hostBits)
{
    Val v;
    v.fam = fam; v.lo = start; v.hi = start + (1L << hostBits) - 1;
    v.text = addrText(fam, start) + "/" + std::to_string((fam == 4 ? 32 : 128) - hostBits);
    return v;
}

Val plain(int fam, long a)
{
    Val v; v.fam = fam; v.lo = v.hi = a; v.text = addrText(fam, a); return v;
}

Val range(int fam, long a, long b)
{
    Val v; v.fam = fam; v.lo = a; v.hi = b; v.rangeSyntax = true; v.text = addrText(fam, a) + "-" + addrText(fam, b); return v;
}

// addr1-addr2/mask with both ends free of host bits: every address whose masked value lies in [a, b]
Val maskedRange(int fam, long a, long b, int hostBits)
{
    Val v; v.fam = fam; v.lo = a; v.hi = b + (1L << hostBits) - 1; v.rangeSyntax = true;
    v.text = addrText(fam, a) + "-" + addrText(fam, b) + "/" + std::to_string((fam == 4 ? 32 : 128) - hostBits);
    return v;
}

Val keyword(const char *k)
{
    Val v; v.text = k;
    v.all4 = strcmp(k, "ipv6") != 0;
    v.all6 = strcmp(k, "ipv4") != 0;
    return v;
}

std::vector<Val> fullPool()
{
    std::vector<Val> pool;
    for (int fam : {4, 6}) {
        pool.push_back(cidr(fam, 0, 5));                      // /27 resp. /123: reaches beyond the 16-address core
        for (int hb = 4; hb >= 0; --hb)
            for (long s = 0; s < 16; s += (1L << hb)) pool.push_back(cidr(fam, s, hb));
        for (long a : {0L, 5L, 8L, 15L}) pool.push_back(plain(fam, a));
        const long pts[] = {0, 1, 5, 8, 14, 15};
        for (int i = 0; i < 6; ++i)
            for (int j = i + 1; j < 6; ++j) pool.push_back(range(fam, pts[i], pts[j]));
        pool.push_back(range(fam, 5, 5));
        pool.push_back(maskedRange(fam, 4, 8, 2));
        pool.push_back(maskedRange(fam, 0, 12, 2));
        pool.push_back(maskedRange(fam, 8, 8, 1));
    }
    pool.push_back(keyword("all"));
    pool.push_back(keyword("ipv4"));
    pool.push_back(keyword("ipv6"));
    return pool;
}

// a smaller pool for the longest lists: chosen so that a later value can bridge / swallow earlier ones
std::vector<Val> smallPool()
{
    std::vector<Val> pool;
    for (long s = 0; s < 16; s += 4) pool.push_back(cidr(4, s, 2));
    pool.push_back(cidr(4, 2, 1));
    pool.push_back(cidr(4, 6, 1));
    pool.push_back(cidr(4, 8, 3));
    pool.push_back(plain(4, 0));
    pool.push_back(plain(4, 5));
    pool.push_back(range(4, 1, 5));
    pool.push_back(range(4, 5, 8));
    pool.push_back(range(4, 8, 14));
    pool.push_back(range(4, 3, 12));
    pool.push_back(range(4, 14, 15));
    pool.push_back(range(4, 0, 15));
    pool.push_back(maskedRange(4, 4, 8, 2));
    pool.push_back(cidr(6, 4, 2));
    pool.push_back(range(6, 3, 6));
    pool.push_back(keyword("ipv6"));
    return pool;
}

// the first and last addresses of each family, as used by Squid's own default ACLs
// (to_localhost dst 127.0.0.0/8 0.0.0.0/32 ::1/128 ::/128), mixed with ordinary values
std::vector<Val> specialPool()
{
    std::vector<Val> pool;
    pool.push_back(cidr(4, Low4, 0));               // 0.0.0.0/32
    pool.push_back(plain(4, Low4));                 // 0.0.0.0
    pool.push_back(range(4, Low4, Low4 + 5));       // 0.0.0.0-0.0.0.5
    pool.push_back(range(4, Low4 + 1, Low4 + 5));   // 0.0.0.1-0.0.0.5
    pool.push_back(cidr(4, Loop4, 24));             // 127.0.0.0/8
    pool.push_back(plain(4, Bcast4));               // 255.255.255.255
    pool.push_back(cidr(4, Bcast4, 0));             // 255.255.255.255/32
    pool.push_back(cidr(6, Low6, 0));               // ::/128
    pool.push_back(plain(6, Low6));                 // ::
    pool.push_back(cidr(6, Low6 + 1, 0));           // ::1/128
    pool.push_back(plain(6, Low6 + 1));             // ::1
    pool.push_back(range(6, Low6 + 1, Low6 + 5));   // ::1-::5
    pool.push_back(range(6, Low6, Low6 + 5));       // ::-::5
    pool.push_back(cidr(4, 0, 4));                  // 10.0.0.0/28
    pool.push_back(cidr(6, 0, 4));                  // fc00::/124
    pool.push_back(range(6, 1, 5));                 // fc00::1-fc00::5
    pool.push_back(range(4, 1, 5));                 // 10.0.0.1-10.0.0.5
    return pool;
}

std::vector<Probe> probes;

void addProbe(int fam, long off, const std::string &text)
{
    Probe p;
    p.text = text; p.fam = fam; p.off = off;
    if (!(p.addr = text.c_str())) { fprintf(stderr, "C42 harness: cannot parse probe %s\n", text.c_str()); _exit(3); }
    if ((fam == 4) != p.addr.isIPv4()) { fprintf(stderr, "C42 harness: probe %s has an unexpected family\n", text.c_str()); _exit(3); }
    probes.push_back(p);
}

void makeProbes()
{
    for (int fam : {4, 6}) {
        for (long o = 0; o < 16; ++o) addProbe(fam, o, addrText(fam, o));
        addProbe(fam, 16, addrText(fam, 16));
        addProbe(fam, 31, addrText(fam, 31));
        addProbe(fam, 32, addrText(fam, 32));
    }
    addProbe(4, -1, "9.255.255.255");
    addProbe(4, 261, "10.0.1.5");
    for (long o : {0L, 1L, 3L, 5L, 6L}) addProbe(4, Low4 + o, addrText(4, Low4 + o));
    addProbe(4, Loop4 - 1, "126.255.255.255");
    addProbe(4, Loop4 + 1, "127.0.0.1");
    addProbe(4, Loop4 + (1L << 24), "128.0.0.0");
    addProbe(4, Bcast4 - 1, "255.255.255.254");
    addProbe(4, Bcast4, "255.255.255.255");
    for (long o : {0L, 1L, 3L, 5L, 6L}) addProbe(6, Low6 + o, addrText(6, Low6 + o));
    addProbe(6, -1, "fbff:ffff:ffff:ffff:ffff:ffff:ffff:ffff");
    addProbe(6, 65541, "fc00::1:5");
    addProbe(6, 1L << 40, "ffff:ffff:ffff:ffff:ffff:ffff:ffff:ffff");
}

uint64_t nMatchCalls = 0, nHits = 0, nMisses = 0, nMerged = 0, nParsed = 0;

struct NodeCounter { size_t n = 0; void operator()(acl_ip_data *const &) { ++n; } };

uint64_t nKnownClassMismatches = 0;
std::set<std::string> reported;     // known classes are reported once per process (with the first list showing them)

// Mismatches with an analysed root cause get a stable key naming the failing input class (so that they can be
// listed as known findings while every other mismatch keeps its own identity); "" = not classified.
std::string knownClass(const std::vector<Val> &values, const Probe &p, bool got)
{
    bool v6Range = false;
    for (const auto &v : values) v6Range = v6Range || (v.fam == 6 && v.rangeSyntax);
    // Ip::Address::operator>=() treats 255.255.255.255 (::ffff:255.255.255.255) as "no address", greater than
    // everything, so the range test (A >= addr1 && A <= addr2) of aclIpAddrNetworkCompare() holds for IPv6 ranges
    if (got && p.fam == 4 && p.off == Bcast4 && v6Range) return "ipv6-range-matches-255.255.255.255";
    // Mirror image: operator<=() treats 0.0.0.0 (::ffff:0.0.0.0) as "any address", smaller than everything, so
    // an IPv6 range that starts below ::ffff:0:0 (e.g. ::1-::5) matches the IPv4 address 0.0.0.0
    bool lowV6Range = false, lowV6 = false, zeroV4 = false;
    for (const auto &v : values) {
        lowV6Range = lowV6Range || (v.fam == 6 && v.rangeSyntax && v.lo < Low6 + 256);
        lowV6 = lowV6 || (v.fam == 6 && v.lo < Low6 + 256);
        zeroV4 = zeroV4 || (v.fam == 4 && v.lo == Low4);
    }
    if (got && p.fam == 4 && p.off == Low4 && lowV6Range) return "ipv6-range-below-::ffff:0:0-matches-0.0.0.0";
    // Acl::SplayInserter<acl_ip_data*>::Compare() orders values with Ip::Address::operator<()/>(), which put
    // 0.0.0.0 below every address, while lookups (aclIpAddrNetworkCompare) order numerically, where 0.0.0.0 is
    // ::ffff:0.0.0.0 and lies above ::1: a list holding both a value that starts at 0.0.0.0 and an IPv6 value below
    // ::ffff:0:0 can be built in an order the lookup cannot follow, and configured addresses are not found
    const bool lowProbe = (p.fam == 4 && p.off < Low4 + 256) || (p.fam == 6 && p.off < Low6 + 256);
    if (!got && lowProbe && zeroV4 && lowV6) return "miss-in-list-mixing-0.0.0.0-with-ipv6-below-::ffff:0:0";
    return "";
}

void checkList(const std::vector<Val> &values)
{
    std::string line;
    size_t nonKeyword = 0;
    bool hasKeyword = false;
    for (const auto &v : values) {
        if (!line.empty()) line += ' ';
        line += v.text;
        if (v.fam) ++nonKeyword; else hasKeyword = true;
    }

    RefCount<ACLSourceIP> acl(new ACLSourceIP);
    char *cfg = xstrdup(line.c_str());
    ConfigParser::SetCfgLine(cfg);
    acl->parse();
    ConfigParser::SetCfgLine(nullptr);
    xfree(cfg);
    ++nParsed;

    NodeCounter nc; acl->data->visit(nc);
    if (nc.n > nonKeyword) { V::fail("the tree stores " + std::to_string(nc.n) + " entries for " + std::to_string(nonKeyword) + " configured values"); return; }
    if (nonKeyword && !nc.n) { V::fail("all configured values were dropped"); return; }
    if (nc.n < nonKeyword) ++nMerged;
    if (acl->empty() != values.empty()) V::fail("empty() disagrees with the configured list");

    bool anyHit = false, anyMiss = false;
    for (int pass = 0; pass < 2; ++pass)        // find() re-splays the tree: probe forwards, then backwards
        for (size_t k = 0; k < probes.size(); ++k) {
            const Probe &p = probes[pass ? probes.size() - 1 - k : k];
            bool want = false;
            for (const auto &v : values) want = want || v.covers(p.fam, p.off);
            ++nMatchCalls;
            const bool got = acl->ACLIP::match(p.addr) != 0;
            if (got != want) {
                const std::string what = "address " + p.text + (got ? " matched" : " did not match") + " but the union of the listed values " + (want ? "contains it" : "does not contain it") + (pass ? " (reverse probing pass)" : "");
                const std::string key = knownClass(values, p, got);
                if (key.empty()) { V::fail(what); return; }
                if (!reported.count(key)) { reported.insert(key); V::failKey(key, what); }
                ++nKnownClassMismatches;
                continue;       // keep checking the other probes of this list
            }
            (got ? anyHit : anyMiss) = true;
            ++(got ? nHits : nMisses);
        }

    bool overlap = false;
    for (size_t i = 0; i < values.size(); ++i)
        for (size_t j = i + 1; j < values.size(); ++j)
            if (values[i].fam && values[i].fam == values[j].fam)
                overlap = overlap || (values[i].lo <= values[j].hi && values[j].lo <= values[i].hi);
    if (values.size() < 2) V::outcome("single-or-empty");
    else if (!(anyHit && anyMiss)) V::outcome("multi:all-same-answer");
    else if (hasKeyword) V::outcome("multi:with-family-keyword");
    else V::outcome(overlap ? "multi:overlapping" : "multi:disjoint");
}

void enumerate(const char *tag, const std::vector<Val> &pool, int minLen, int maxLen)
{
    std::vector<int> idx;
    for (int len = minLen; len <= maxLen; ++len) {
        idx.assign(len, 0);
        for (;;) {
            std::string desc = std::string(tag) + "[";
            for (int i = 0; i < len; ++i) { if (i) desc += ' '; desc += pool[idx[i]].text; }
            desc += "]";
            if (V::begin_case(desc)) {
                std::vector<Val> values;
                for (int i = 0; i < len; ++i) values.push_back(pool[idx[i]]);
                checkList(values);
                V::end_case();
            }
            int k = len - 1;
            while (k >= 0 && ++idx[k] == (int)pool.size()) { idx[k] = 0; --k; }
            if (k < 0) break;
        }
    }
}

void body(V::Ctx &ctx)
{
    Mem::Init();
    // squid.conf default "configuration_includes_quoted_values off" (default_all() sets both before parsing starts)
    ConfigParser::RecognizeQuotedValues = false;
    ConfigParser::StrictMode = false;
    Ip::EnableIpv6 = IPV6_SPECIAL_SPLITSTACK;   // otherwise FactoryParse() ignores IPv6 values (normally probed at startup)
    makeProbes();
    const auto full = fullPool();
    const auto small = smallPool();
    const auto special = specialPool();
    if (ctx.shard == 0) {
        V::setCount("value_pool_full", full.size());
        V::setCount("value_pool_small", small.size());
        V::setCount("value_pool_special", special.size());
        V::setCount("probe_addresses", probes.size());
    }
    {   // Squid's built-in ACLs (src/cf.data.pre: DEFAULT: localhost / to_localhost), in all orders
        std::vector<Val> toLocalhost = {cidr(4, Loop4, 24), cidr(4, Low4, 0), cidr(6, Low6 + 1, 0), cidr(6, Low6, 0)};
        std::vector<int> perm = {0, 1, 2, 3};
        do {
            std::vector<Val> values;
            std::string desc = "D[";
            for (int i : perm) { values.push_back(toLocalhost[i]); if (values.size() > 1) desc += ' '; desc += toLocalhost[i].text; }
            desc += "]";
            if (V::begin_case(desc)) { checkList(values); V::end_case(); }
        } while (std::next_permutation(perm.begin(), perm.end()));
        std::vector<Val> localhost = {cidr(4, Loop4 + 1, 0), plain(6, Low6 + 1)};
        for (int rev = 0; rev < 2; ++rev) {
            std::vector<Val> values = {localhost[rev], localhost[1 - rev]};
            if (V::begin_case("D[" + values[0].text + " " + values[1].text + "]")) { checkList(values); V::end_case(); }
        }
    }
    if (ctx.quick()) {
        enumerate("F", full, 0, 2);
        enumerate("S", small, 3, 3);
        enumerate("Z", special, 1, 3);
    } else {
        enumerate("F", full, 0, 3);
        enumerate("S", small, 4, 4);
        enumerate("Z", special, 1, 4);
    }
    V::count("match_calls", nMatchCalls);
    V::count("hits", nHits);
    V::count("misses", nMisses);
    V::count("lists_merged_or_deduplicated", nMerged);
    V::count("lists_parsed", nParsed);
    V::count("mismatches_of_known_classes", nKnownClassMismatches);
}

} // namespace

VHARNESS_MAIN(body)
