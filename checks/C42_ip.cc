// C42 — IP ACLs (src/dst/localip data: ACLIP) vs. a set model (E1).
// Real code: ACLIP::parse()/match(), acl_ip_data::FactoryParse(), Acl::SplayInserter<acl_ip_data*>
// (src/acl/Ip.cc, src/acl/SplayInserter.h), Ip::Address (src/ip/Address.cc), Splay<> — driven through
// ConfigParser::SetCfgLine() like an "acl NAME src v1 v2 ..." line, on a real ACLSourceIP object.
#include "squid.h"
#include "acl/SourceIp.h"
#include "ConfigParser.h"
#include "ip/Address.h"
#include "ip/tools.h"
#include "mem/forward.h"

#include "vharness.h"

#include <algorithm>

namespace {

// Addresses are modelled as (family, signed offset from the universe base 10.0.0.0 / fc00::).
struct Val {
    std::string text;
    int fam = 0;            // 4, 6, or 0 for the family-wide keywords
    long lo = 0, hi = -1;   // inclusive offsets
    bool all4 = false, all6 = false;
    bool covers(int pf, long off) const {
        if (pf == 4 && all4) return true;
        if (pf == 6 && all6) return true;
        return fam == pf && lo <= off && off <= hi;
    }
};

struct Probe {
    std::string text;
    int fam;
    long off;
    Ip::Address addr;
};

std::string addrText(int fam, long off)
{
    char b[64];
    if (fam == 4) snprintf(b, sizeof b, "10.0.0.%ld", off);
    else snprintf(b, sizeof b, "fc00::%lx", off);
    return b;
}

Val cidr(int fam, long start, int hostBits)
{
    Val v;
    v.fam = fam; v.lo = start; v.hi = start + (1L << hostBits) - 1;
    v.text = addrText(fam, start) + "/" + std::to_string((fam == 4 ? 32 : 128) - hostBits);
    return v;
}

Val plain(int fam, long a)
{
    Val v; v.fam = fam; v.lo = v.hi = a; v.text = addrText(fam, a); return v;
}

Val range(int fam, long a, long b)
{
    Val v; v.fam = fam; v.lo = a; v.hi = b; v.text = addrText(fam, a) + "-" + addrText(fam, b); return v;
}

// addr1-addr2/mask with both ends free of host bits: every address whose masked value lies in [a, b]
Val maskedRange(int fam, long a, long b, int hostBits)
{
    Val v; v.fam = fam; v.lo = a; v.hi = b + (1L << hostBits) - 1;
    v.text = addrText(fam, a) + "-" + addrText(fam, b) + "/" + std::to_string((fam == 4 ? 32 : 128) - hostBits);
    return v;
}

Val keyword(const char *k)
{
    Val v; v.text = k;
    v.all4 = strcmp(k, "ipv6") != 0;
    v.all6 = strcmp(k, "ipv4") != 0;
    return v;
}

std::vector<Val> fullPool()
{
    std::vector<Val> pool;
    for (int fam : {4, 6}) {
        pool.push_back(cidr(fam, 0, 5));                      // /27 resp. /123: reaches beyond the 16-address core
        for (int hb = 4; hb >= 0; --hb)
            for (long s = 0; s < 16; s += (1L << hb)) pool.push_back(cidr(fam, s, hb));
        for (long a : {0L, 5L, 8L, 15L}) pool.push_back(plain(fam, a));
        const long pts[] = {0, 1, 5, 8, 14, 15};
        for (int i = 0; i < 6; ++i)
            for (int j = i + 1; j < 6; ++j) pool.push_back(range(fam, pts[i], pts[j]));
        pool.push_back(range(fam, 5, 5));
        pool.push_back(maskedRange(fam, 4, 8, 2));
        pool.push_back(maskedRange(fam, 0, 12, 2));
        pool.push_back(maskedRange(fam, 8, 8, 1));
    }
    pool.push_back(keyword("all"));
    pool.push_back(keyword("ipv4"));
    pool.push_back(keyword("ipv6"));
    return pool;
}

// a smaller pool for the longest lists: chosen so that a later value can bridge / swallow earlier ones
std::vector<Val> smallPool()
{
    std::vector<Val> pool;
    for (long s = 0; s < 16; s += 4) pool.push_back(cidr(4, s, 2));
    pool.push_back(cidr(4, 2, 1));
    pool.push_back(cidr(4, 6, 1));
    pool.push_back(cidr(4, 8, 3));
    pool.push_back(plain(4, 0));
    pool.push_back(plain(4, 5));
    pool.push_back(range(4, 1, 5));
    pool.push_back(range(4, 5, 8));
    pool.push_back(range(4, 8, 14));
    pool.push_back(range(4, 3, 12));
    pool.push_back(range(4, 14, 15));
    pool.push_back(range(4, 0, 15));
    pool.push_back(maskedRange(4, 4, 8, 2));
    pool.push_back(cidr(6, 4, 2));
    pool.push_back(range(6, 3, 6));
    pool.push_back(keyword("ipv6"));
    return pool;
}

std::vector<Probe> probes;

void addProbe(int fam, long off, const std::string &text)
{
    Probe p;
    p.text = text; p.fam = fam; p.off = off;
    if (!(p.addr = text.c_str())) { fprintf(stderr, "C42 harness: cannot parse probe %s\n", text.c_str()); _exit(3); }
    if ((fam == 4) != p.addr.isIPv4()) { fprintf(stderr, "C42 harness: probe %s has an unexpected family\n", text.c_str()); _exit(3); }
    probes.push_back(p);
}

void makeProbes()
{
    for (int fam : {4, 6}) {
        for (long o = 0; o < 16; ++o) addProbe(fam, o, addrText(fam, o));
        addProbe(fam, 16, addrText(fam, 16));
        addProbe(fam, 31, addrText(fam, 31));
        addProbe(fam, 32, addrText(fam, 32));
    }
    addProbe(4, -1, "9.255.255.255");
    addProbe(4, 261, "10.0.1.5");
    addProbe(4, -(10L << 24), "0.0.0.5");
    addProbe(4, 1L << 31, "255.255.255.255");
    addProbe(6, -1, "fbff:ffff:ffff:ffff:ffff:ffff:ffff:ffff");
    addProbe(6, 65541, "fc00::1:5");
    addProbe(6, -2, "::5");
    addProbe(6, 1L << 40, "ffff:ffff:ffff:ffff:ffff:ffff:ffff:ffff");
}

uint64_t nMatchCalls = 0, nHits = 0, nMisses = 0, nMerged = 0, nParsed = 0;

struct NodeCounter { size_t n = 0; void operator()(acl_ip_data *const &) { ++n; } };

void checkList(const std::vector<Val> &values)
{
    std::string line;
    size_t nonKeyword = 0;
    bool hasKeyword = false;
    for (const auto &v : values) {
        if (!line.empty()) line += ' ';
        line += v.text;
        if (v.fam) ++nonKeyword; else hasKeyword = true;
    }

    RefCount<ACLSourceIP> acl(new ACLSourceIP);
    char *cfg = xstrdup(line.c_str());
    ConfigParser::SetCfgLine(cfg);
    acl->parse();
    ConfigParser::SetCfgLine(nullptr);
    xfree(cfg);
    ++nParsed;

    NodeCounter nc; acl->data->visit(nc);
    if (nc.n > nonKeyword) { V::fail("the tree stores " + std::to_string(nc.n) + " entries for " + std::to_string(nonKeyword) + " configured values"); return; }
    if (nonKeyword && !nc.n) { V::fail("all configured values were dropped"); return; }
    if (nc.n < nonKeyword) ++nMerged;
    if (acl->empty() != values.empty()) V::fail("empty() disagrees with the configured list");

    bool anyHit = false, anyMiss = false;
    for (int pass = 0; pass < 2; ++pass)        // find() re-splays the tree: probe forwards, then backwards
        for (size_t k = 0; k < probes.size(); ++k) {
            const Probe &p = probes[pass ? probes.size() - 1 - k : k];
            bool want = false;
            for (const auto &v : values) want = want || v.covers(p.fam, p.off);
            ++nMatchCalls;
            const bool got = acl->ACLIP::match(p.addr) != 0;
            if (got != want) {
                V::fail("address " + p.text + (got ? " matched" : " did not match") + " but the union of the listed values " + (want ? "contains it" : "does not contain it") + (pass ? " (reverse probing pass)" : ""));
                return;
            }
            (got ? anyHit : anyMiss) = true;
            ++(got ? nHits : nMisses);
        }

    bool overlap = false;
    for (size_t i = 0; i < values.size(); ++i)
        for (size_t j = i + 1; j < values.size(); ++j)
            if (values[i].fam && values[i].fam == values[j].fam)
                overlap = overlap || (values[i].lo <= values[j].hi && values[j].lo <= values[i].hi);
    if (values.size() < 2) V::outcome("single-or-empty");
    else if (!(anyHit && anyMiss)) V::outcome("multi:all-same-answer");
    else if (hasKeyword) V::outcome("multi:with-family-keyword");
    else V::outcome(overlap ? "multi:overlapping" : "multi:disjoint");
}

void enumerate(const char *tag, const std::vector<Val> &pool, int minLen, int maxLen)
{
    std::vector<int> idx;
    for (int len = minLen; len <= maxLen; ++len) {
        idx.assign(len, 0);
        for (;;) {
            std::string desc = std::string(tag) + "[";
            for (int i = 0; i < len; ++i) { if (i) desc += ' '; desc += pool[idx[i]].text; }
            desc += "]";
            if (V::begin_case(desc)) {
                std::vector<Val> values;
                for (int i = 0; i < len; ++i) values.push_back(pool[idx[i]]);
                checkList(values);
                V::end_case();
            }
            int k = len - 1;
            while (k >= 0 && ++idx[k] == (int)pool.size()) { idx[k] = 0; --k; }
            if (k < 0) break;
        }
    }
}

void body(V::Ctx &ctx)
{
    Mem::Init();
    Ip::EnableIpv6 = IPV6_SPECIAL_SPLITSTACK;   // otherwise FactoryParse() ignores IPv6 values (normally probed at startup)
    makeProbes();
    const auto full = fullPool();
    const auto small = smallPool();
    if (ctx.shard == 0) {
        V::setCount("value_pool_full", full.size());
        V::setCount("value_pool_small", small.size());
        V::setCount("probe_addresses", probes.size());
    }
    if (ctx.quick()) {
        enumerate("F", full, 0, 2);
        enumerate("S", small, 3, 3);
    } else {
        enumerate("F", full, 0, 3);
        enumerate("S", small, 4, 4);
    }
    V::count("match_calls", nMatchCalls);
    V::count("hits", nHits);
    V::count("misses", nMisses);
    V::count("lists_merged_or_deduplicated", nMerged);
    V::count("lists_parsed", nParsed);
}

} // namespace

VHARNESS_MAIN(body)
