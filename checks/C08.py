"""C08 No descriptor leaks, hangs or crashes across abort histories -- E3 lock-step, fault enumeration.

One real (ASan) squid per work unit, all timeouts configured to 5..20 virtual seconds, client and
origin played by the driver.  A *history* is one or two transactions (GET / POST with a body), each
with one abort {client FIN, client RST, client half-close, client stall, origin FIN, origin RST,
origin stall} placed at a byte offset of the request or of the response.  Single-transaction
histories put the abort at EVERY byte offset; two-transaction histories use phase boundaries and
enumerate the interleavings of the two scripts with a bounded number of preemptions.

After every history the driver lets TOTAL_S virtual seconds pass in 1 s steps (longer than every
configured timeout stacked), then checks, *before closing any of its own sockets*:
  - /proc/<pid>/fd of squid has exactly the idle-baseline number of entries (idle pconns have timed out too),
  - squid is alive, cache.log has no assertion/FATAL, there is no sanitizer report,
  - after the driver closed its sockets the count is still the baseline,
  - a probe GET through the proxy is answered with the origin's 200 and the count returns to the baseline.
The instance is reused for all histories of the unit (accumulated leakage is the point).
"""
import os
import re
import time

from vverif import lockstep as ls
from vverif import httpref
from vverif.core import Result, Violation, HarnessError

LEVEL = 'fault_enumeration'

TIMEOUTS = '''
connect_timeout 5 seconds
client_idle_pconn_timeout 6 seconds
server_idle_pconn_timeout 7 seconds
request_timeout 8 seconds
request_start_timeout 9 seconds
read_timeout 10 seconds
write_timeout 12 seconds
forward_timeout 15 seconds
client_lifetime 20 seconds
pconn_lifetime 30 seconds
'''
TOTAL_S = 40          # virtual seconds that pass after every history (> 20 + 10 + 7, > pconn_lifetime; measured: last reaction at 20 s)

CFGS = {
    'nocache': dict(conf='cache deny all\n', memory_cache=False),
    'memcache': dict(conf='cache_mem 16 MB\nmaximum_object_size_in_memory 64 KB\n', memory_cache=True),
    'nocache-halfclosed': dict(conf='cache deny all\nhalf_closed_clients on\n', memory_cache=False),
    'memcache-halfclosed': dict(conf='cache_mem 16 MB\nmaximum_object_size_in_memory 64 KB\nhalf_closed_clients on\n', memory_cache=True),
}

CLIENT_KINDS = ('cFIN', 'cRST', 'cHALF', 'cSTALL')
ORIGIN_KINDS = ('oFIN', 'oRST', 'oSTALL')
REQ_BODY = b'k=v&x=y1'
RESP_BODY = b'0123456789abcdef'


# ------------------------------------------------------------------ messages

def request_bytes(method, hostport, tag):
    if method == 'GET':
        return ('GET http://%s/%s HTTP/1.1\r\nHost: %s\r\nAccept: */*\r\n\r\n' % (hostport, tag, hostport)).encode()
    return ('POST http://%s/%s HTTP/1.1\r\nHost: %s\r\nContent-Length: %d\r\n\r\n' % (hostport, tag, hostport, len(REQ_BODY))).encode() + REQ_BODY


def response_bytes(now_us, tag):
    body = RESP_BODY
    return ('HTTP/1.1 200 OK\r\nDate: %s\r\nContent-Length: %d\r\nCache-Control: max-age=300\r\nX-Tag: %s\r\n\r\n' % (
        ls.http_date(now_us), len(body), tag)).encode() + body


# lengths are independent of port numbers/tags of a given width; computed once from a specimen
def _spec_lengths():
    hp = '127.0.0.1:10000'
    out = {}
    for m in ('GET', 'POST'):
        r = request_bytes(m, hp, 'h000000')
        out[m] = dict(R=len(r), rline=r.index(b'\r\n') + 2, head=r.index(b'\r\n\r\n') + 4)
    s = response_bytes(ls.T0_US, 'h000000')
    out['S'] = dict(S=len(s), head=s.index(b'\r\n\r\n') + 4)
    return out


LEN = _spec_lengths()


def script_for(t):
    """The ordered environment actions of one transaction spec t = {m, kind, phase, off}."""
    R, S = LEN[t['m']]['R'], LEN['S']['S']
    kind, phase, off = t['kind'], t.get('phase'), t.get('off')
    abort = {'cFIN': 'c_fin', 'cRST': 'c_rst', 'cHALF': 'c_half', 'oFIN': 'o_fin', 'oRST': 'o_rst'}.get(kind)
    if kind == 'none':
        return [('c_send', 0, R), ('o_send', 0, S)]
    if kind in CLIENT_KINDS:
        if phase == 'req':
            sc = [('c_send', 0, off)]
            if abort:
                sc.append((abort,))
            return sc
        sc = [('c_send', 0, R), ('o_send', 0, off)]
        if abort:
            sc.append((abort,))
        sc.append(('o_send', off, S))
        return sc
    if phase == 'req':      # origin aborts while the request body is still arriving
        sc = [('c_send', 0, off)]
        if abort:
            sc.append((abort,))
        sc.append(('c_send', off, R))
        return sc
    sc = [('c_send', 0, R), ('o_send', 0, off)]
    if abort:
        sc.append((abort,))
    return sc


# ------------------------------------------------------------------ case lists

def single_histories(cfgs, kinds_client, kinds_origin, stride=1):
    out = []
    for cfg in cfgs:
        for m in ('GET', 'POST'):
            R, head = LEN[m]['R'], LEN[m]['head']
            S = LEN['S']['S']
            for kind in kinds_client:
                for off in range(0, R, stride):
                    out.append({'cfg': cfg, 'txns': [{'m': m, 'kind': kind, 'phase': 'req', 'off': off}]})
                for off in range(0, S + 1, stride):
                    out.append({'cfg': cfg, 'txns': [{'m': m, 'kind': kind, 'phase': 'resp', 'off': off}]})
            for kind in kinds_origin:
                if m == 'POST' and kind != 'oSTALL':
                    for off in range(head, R, stride):
                        out.append({'cfg': cfg, 'txns': [{'m': m, 'kind': kind, 'phase': 'req', 'off': off}]})
                for off in range(0, S + 1, stride):
                    out.append({'cfg': cfg, 'txns': [{'m': m, 'kind': kind, 'phase': 'resp', 'off': off}]})
            # no listener at all: connection refused on every attempt
            out.append({'cfg': cfg, 'txns': [{'m': m, 'kind': 'refused', 'phase': 'req', 'off': 0}]})
    return out


def reuse_histories(cfgs, kinds_origin, stride=1):
    """A complete GET leaves an idle server connection; the next transaction (GET: retriable) is sent over
    that reused connection and the origin aborts it there at every response offset.  Offset 0 is the
    persistent-connection race: Squid re-forwards the request on a fresh connection (which the origin then
    answers), so the retry machinery runs with a half-torn-down first attempt."""
    out = []
    S = LEN['S']['S']
    for cfg in cfgs:
        for kind in kinds_origin:
            for off in range(0, S + 1, stride):
                a = {'m': 'GET', 'kind': 'none'}
                b = {'m': 'GET', 'kind': kind, 'phase': 'resp', 'off': off, 'reuse': True}
                na, nb = len(script_for(a)), len(script_for(b))
                out.append({'cfg': cfg, 'txns': [a, b], 'order': [0] * na + [1] * nb, 'reuse': True})
    return out


def phase_points(m):
    """(kind-class, phase, off) abort points used by the two-transaction histories."""
    L, S = LEN[m], LEN['S']
    cpts = [('req', L['rline'])]
    opts = []
    if m == 'POST':
        cpts += [('req', L['head']), ('req', L['head'] + len(REQ_BODY) // 2)]
        opts += [('req', L['head'] + len(REQ_BODY) // 2)]
    for p in (('resp', 0), ('resp', S['head']), ('resp', S['head'] + len(RESP_BODY) // 2)):
        cpts.append(p)
        opts.append(p)
    return cpts, opts


def txn_specs(m, kinds_client, kinds_origin):
    cpts, opts = phase_points(m)
    out = [{'m': m, 'kind': k, 'phase': p, 'off': o} for k in kinds_client for p, o in cpts]
    out += [{'m': m, 'kind': k, 'phase': p, 'off': o} for k in kinds_origin for p, o in opts]
    return out


def interleavings(na, nb, max_preempt):
    """All merge orders (tuples of 0/1) of two scripts of na and nb actions in which at most max_preempt
    switches happen away from a script that still has actions left."""
    out = []

    def rec(seq, a, b, cur, pre):
        if a == na and b == nb:
            out.append(tuple(seq))
            return
        for nxt in (0, 1):
            if (nxt == 0 and a == na) or (nxt == 1 and b == nb):
                continue
            p = pre
            if cur is not None and nxt != cur:
                left = (na - a) if cur == 0 else (nb - b)
                if left > 0:
                    p += 1
            if p > max_preempt:
                continue
            seq.append(nxt)
            rec(seq, a + (nxt == 0), b + (nxt == 1), nxt, p)
            seq.pop()
    rec([], 0, 0, None, 0)
    return out


def pair_histories(cfgs, kinds_client, kinds_origin, max_preempt):
    out = []
    for cfg in cfgs:
        for ma, mb in (('GET', 'GET'), ('GET', 'POST'), ('POST', 'POST')):
            A = txn_specs(ma, kinds_client, kinds_origin)
            B = txn_specs(mb, kinds_client, kinds_origin)
            for ia, a in enumerate(A):
                for ib, b in enumerate(B):
                    if ma == mb and ib < ia:
                        continue        # unordered pair: all interleavings are enumerated anyway
                    na, nb = len(script_for(a)), len(script_for(b))
                    for order in interleavings(na, nb, max_preempt):
                        if ma == mb and ia == ib and order[0] == 1:
                            continue    # identical scripts: mirror image
                        out.append({'cfg': cfg, 'txns': [a, b], 'order': list(order)})
                    # both clients ask for the SAME cacheable URL (shared StoreEntry / collapsed or hit)
                    if cfg.startswith('memcache') and ma == 'GET' and mb == 'GET':
                        for order in interleavings(na, nb, min(max_preempt, 1)):
                            if ia == ib and order[0] == 1:
                                continue
                            out.append({'cfg': cfg, 'txns': [a, b], 'order': list(order), 'same_url': True})
    return out


def hist_name(h):
    s = h['cfg'] + '|' + ' + '.join('%s %s@%s:%d' % (t['m'], t['kind'], t.get('phase', '-'), t.get('off', 0)) for t in h['txns'])
    if h.get('same_url'):
        s += ' same-url'
    if h.get('reuse'):
        s += ' reused-conn'
    if 'order' in h:
        s += ' order=' + ''.join(map(str, h['order']))
    return s


def hist_class(h):
    """Identity of a finding: configuration + abort kinds and phases, not the byte offset or merge order."""
    def ph(t):
        if 'phase' not in t:
            return 'complete'
        if t['phase'] == 'req':
            L = LEN[t['m']]
            return 'req-line' if t['off'] < L['rline'] else ('req-head' if t['off'] < L['head'] else 'req-body')
        S = LEN['S']
        return 'resp-none' if t['off'] == 0 else ('resp-head' if t['off'] < S['head'] else ('resp-body' if t['off'] < S['S'] else 'resp-complete'))
    return h['cfg'] + '|' + '+'.join('%s:%s:%s' % (t['m'], t['kind'], ph(t)) for t in h['txns']) + ('|same-url' if h.get('same_url') else '') + ('|reused-conn' if h.get('reuse') else '')


# ------------------------------------------------------------------ the simulated environment

class Txn:
    def __init__(self, sim, tag, spec, scripted=True):
        self.sim = sim
        self.tag = tag
        self.spec = spec
        self.m = spec['m']
        port = sim.dead_port if spec.get('kind') == 'refused' else sim.w.origin_port
        self.R = request_bytes(self.m, '127.0.0.1:%d' % port, tag)
        self.S = response_bytes(sim.sq.now_us, tag)
        self.client = None
        self.held = None          # first origin connection that carried this transaction (script-controlled)
        self.scripted = scripted
        self.served = 0           # complete responses sent by the origin for this tag
        self.owner = self         # transaction whose origin connection the o_* actions address
        self.o_sent = 0           # bytes of S already sent on the held connection


class OConn:
    def __init__(self, c, idx):
        self.c = c
        self.idx = idx
        self.raw = b''
        self.upto = 0
        self.nreq = 0             # complete requests parsed
        self.cur_tag = None       # tag of the request currently arriving / last arrived
        self.first_tag = None
        self.hold_first = False   # the first request is left to the script
        self.hold_tags = set()    # later requests on this (reused) connection that are left to the script
        self.eof_seen = False


class Sim:
    def __init__(self, ctx, name, port_base, cfg):
        c = CFGS[cfg]
        self.cfg = cfg
        self.w = ls.World(ctx, name, port_base, conf=TIMEOUTS + c['conf'], memory_cache=c['memory_cache'])
        self.sq = self.w.sq
        self.dead_port = port_base + 7       # nothing ever listens here
        self.oconns = []
        self.txns = {}
        self.clients = []
        self.events = []
        self.baseline = None
        self.base_list = None
        self.log_pos = 0
        self.nhist = 0
        self.bug_lines = []
        self.last_event_s = 0

    # ---- life cycle
    def start(self):
        self.w.start()
        # warm-up: one of everything, so that lazily opened descriptors are part of the baseline
        for i, spec in enumerate(({'m': 'GET', 'kind': 'none'}, {'m': 'POST', 'kind': 'none'},
                                  {'m': 'GET', 'kind': 'refused', 'phase': 'req', 'off': 0})):
            self.run_history({'cfg': self.cfg, 'txns': [spec]}, 'w%05d' % i, check=False)
        self.baseline = self.sq.fd_count()
        self.base_list = self.fd_desc()
        if self.baseline < 5:
            raise HarnessError('cannot read squid fd table: %r' % self.baseline)
        return self

    def stop(self):
        self.close_all()
        self.w.stop()

    # ---- observation
    def fd_desc(self):
        """Multiset description of squid's descriptors; sockets are resolved through /proc/<pid>/net/tcp."""
        pid = self.sq.live_slots()[0].pid if self.sq.live_slots() else None
        if pid is None:
            return []
        socks = {}
        for fn in ('tcp', 'tcp6'):
            try:
                with open('/proc/%d/net/%s' % (pid, fn)) as f:
                    for ln in f.readlines()[1:]:
                        p = ln.split()
                        lport = int(p[1].rsplit(':', 1)[1], 16)
                        rport = int(p[2].rsplit(':', 1)[1], 16)
                        st = {'01': 'ESTABLISHED', '08': 'CLOSE_WAIT', '0A': 'LISTEN', '06': 'TIME_WAIT', '04': 'FIN_WAIT1',
                              '05': 'FIN_WAIT2', '09': 'LAST_ACK', '02': 'SYN_SENT', '07': 'CLOSE'}.get(p[3], p[3])
                        if lport == self.sq.http_port and st != 'LISTEN':
                            d = 'tcp:client-side(%s)' % st
                        elif rport == self.w.origin_port:
                            d = 'tcp:server-side(%s)' % st
                        elif st == 'LISTEN':
                            d = 'tcp:listen:%d' % (lport - self.sq.port_base)
                        else:
                            d = 'tcp:other(%s)' % st
                        socks[p[9]] = d
            except OSError:
                pass
        out = []
        for l in self.sq.fd_list():
            mm = re.match(r'socket:\[(\d+)\]', l)
            if mm:
                out.append(socks.get(mm.group(1), 'socket:non-tcp'))
            else:
                out.append(re.sub(r'^.*/', '', l))
        return sorted(out)

    def new_log(self):
        try:
            with open(os.path.join(self.sq.dir, 'cache.log'), 'rb') as f:
                f.seek(self.log_pos)
                d = f.read()
                self.log_pos += len(d)
                return d.decode('latin1')
        except OSError:
            return ''

    def health(self):
        probs = []
        log = self.new_log()
        for m in re.finditer(r'^.*(Squid BUG|BUG:).*$', log, re.M):
            self.bug_lines.append(re.sub(r'^\S+ \S+ \S+ ', '', m.group(0))[:200])
        for m in re.finditer(r'^.*(assertion failed|FATAL:|dying from an unhandled exception|Received Segment Violation).*$', log, re.M):
            probs.append('cache.log: ' + m.group(0)[:300])
        for r in self.sq.asan_reports():
            probs.append('sanitizer: ' + r[:1500])
        if not self.sq.alive():
            probs.append('squid exited with status %s' % self.sq.proc.returncode)
        return probs

    # ---- environment
    def ev(self, *a):
        self.events.append(a)

    def env_step(self):
        """Accept, read, let unscripted origin connections answer.  True if anything happened."""
        prog = False
        for c in self.w.origin.accept_all():
            oc = OConn(c, len(self.oconns))
            self.oconns.append(oc)
            self.ev('o-accept', oc.idx)
            prog = True
        for oc in self.oconns:
            if oc.c.closed:
                continue
            if oc.c.pump():
                prog = True
                oc.raw += oc.c.inbuf
                oc.c.inbuf = b''
                while oc.upto < len(oc.raw):
                    rest = oc.raw[oc.upto:]
                    tg = re.search(rb' http://[^/ ]+/([a-z]\d{5,6}) | /([a-z]\d{5,6}) ', rest[:200])
                    if tg:
                        oc.cur_tag = (tg.group(1) or tg.group(2)).decode()
                        t = self.txns.get(oc.cur_tag)
                        if oc.first_tag is None:
                            oc.first_tag = oc.cur_tag
                            if t is not None and t.scripted and t.held is None:
                                t.held = oc
                                oc.hold_first = True
                        elif (t is not None and t.scripted and t.held is None and t.spec.get('reuse')
                              and oc.cur_tag != oc.first_tag):
                            # a scripted transaction that Squid sends over a reused idle connection
                            t.held = oc
                            oc.hold_tags.add(oc.cur_tag)
                    m = httpref.parse_request(rest)
                    if m.error:
                        raise HarnessError('origin received a malformed request: %s %r' % (m.error, rest[:200]))
                    if not m.complete or m.consumed <= 0:
                        break
                    oc.upto += m.consumed
                    oc.nreq += 1
                    self.ev('o-request', oc.idx, oc.cur_tag, m.method.decode(), len(m.body))
                    t = self.txns.get(oc.cur_tag)
                    if t is None:
                        continue
                    if (oc.nreq == 1 and oc.hold_first) or oc.cur_tag in oc.hold_tags:
                        continue            # the script decides
                    oc.c.send(t.S)
                    t.served += 1
                    self.ev('o-auto-answer', oc.idx, oc.cur_tag)
            if oc.c.eof and not oc.eof_seen:
                oc.eof_seen = True
                self.ev('o-eof', oc.idx, 'rst' if oc.c.reset else 'fin')
                prog = True
        for t in list(getattr(self, 'cur', [])) + [x for x in self.txns.values() if x not in getattr(self, 'cur', [])]:
            c = t.client
            if c is None or c.closed:
                continue
            was = c.eof
            if c.pump():
                prog = True
            if c.eof and not was:
                self.ev('c-eof', t.tag, 'rst' if c.reset else 'fin', len(c.inbuf))
                prog = True
        return prog

    def drive(self, rounds=1):
        for _ in range(40):
            self.sq.settle(rounds)
            if not self.env_step():
                return
        raise HarnessError('environment does not quiesce')

    def act(self, t, a):
        op = a[0]
        if op == 'c_send':
            if t.client is None:
                try:
                    t.client = self.sq.client()
                except ConnectionRefusedError:
                    if self.sq.alive():
                        raise
                    self.ev('squid-dead-at-connect', t.tag)
                    return
                self.clients.append(t.client)
            if a[2] > a[1] and not t.client.closed:
                t.client.send(t.R[a[1]:a[2]])
        elif op in ('c_fin', 'c_rst', 'c_half'):
            c = t.client
            if c is not None and not c.closed:
                c.pump()
                if op == 'c_fin':
                    c.close()
                elif op == 'c_rst':
                    c.rst()
                else:
                    c.shutdown_wr()
        elif op == 'o_send':
            o = t.owner
            oc = o.held
            lo, hi = max(a[1], o.o_sent), a[2]
            if oc is None or oc.c.closed or oc.c.eof or oc.nreq < 1 or hi <= lo:
                self.ev('skip', t.tag, op)
            else:
                oc.c.send(o.S[lo:hi])
                o.o_sent = hi
                if hi == len(o.S):
                    o.served += 1
        elif op in ('o_fin', 'o_rst'):
            oc = t.owner.held
            if oc is None or oc.c.closed:
                self.ev('skip', t.tag, op)
            else:
                oc.c.pump()
                oc.raw += oc.c.inbuf
                oc.c.inbuf = b''
                if op == 'o_fin':
                    oc.c.close()
                else:
                    oc.c.rst()
        else:
            raise HarnessError('bad action %r' % (a,))

    def close_all(self):
        for c in self.clients:
            c.close()
        for oc in self.oconns:
            oc.c.close()
        self.clients = []
        self.oconns = []
        self.txns = {}

    # ---- one history
    def run_history(self, h, tag, check=True):
        """Returns dict(transcript, problems[], leak_desc, stats)."""
        self.events = []
        self.nhist += 1
        specs = h['txns']
        txns = []
        for i, spec in enumerate(specs):
            if i == 1 and h.get('same_url'):
                # second client asks for the first one's URL: it has its own client connection, the
                # origin-side actions of its script address the first transaction's origin connection
                t = Txn(self, txns[0].tag, spec)
                t.R, t.S = txns[0].R, txns[0].S
                t.owner = txns[0]
            else:
                tg = ('h' if i == 0 else 'g') + tag[1:]
                t = Txn(self, tg, spec)
                self.txns[tg] = t
            txns.append(t)
        self.cur = txns
        scripts = [script_for(s) if s.get('kind') != 'refused' else [('c_send', 0, len(t.R))] for s, t in zip(specs, txns)]
        order = h.get('order') or [0] * len(scripts[0])
        pos = [0] * len(scripts)
        for who in order:
            a = scripts[who][pos[who]]
            pos[who] += 1
            self.act(txns[who], a)
            self.drive()
            self.ev('after', who, a[0], [len(x.client.inbuf) if x.client else -1 for x in txns],
                    [len(oc.raw) for oc in self.oconns])
        if any(p != len(s) for p, s in zip(pos, scripts)):
            raise HarnessError('order does not exhaust the scripts: %r' % (h,))
        # traffic has stopped: let every timeout expire
        for sec in range(TOTAL_S):
            self.sq.advance(1000, rounds=1)
            n0 = len(self.events)
            if self.env_step():
                self.drive(1)
            if len(self.events) > n0:
                self.events.insert(n0, ('t+%d' % (sec + 1),))
                if check:
                    self.last_event_s = max(self.last_event_s, sec + 1)
        res = {'problems': [], 'keyx': None}
        served = sum(t.served for t in txns)
        got200 = sum(1 for t in txns if t.client is not None and t.client.inbuf.startswith(b'HTTP/1.1 200'))
        res['stats'] = dict(origin_conns=len(self.oconns), served=served, client_200=got200,
                            client_other=sum(1 for t in txns if t.client is not None and t.client.inbuf and not t.client.inbuf.startswith(b'HTTP/1.1 200')),
                            squid_closed_client=sum(1 for t in txns if t.client is not None and t.client.eof),
                            squid_closed_origin=sum(1 for oc in self.oconns if oc.eof_seen))
        if not check:
            self.close_all()
            self.drive()
            self.new_log()
            return res
        hp = self.health()
        if hp:
            res['problems'] += hp
            res['keyx'] = 'crash'
        else:
            n = self.sq.fd_count()
            if n != self.baseline:
                res['problems'].append('%d descriptors open %d virtual seconds after the last byte of traffic, idle baseline is %d; extra: %s' % (
                    n, TOTAL_S, self.baseline, self.fd_extra()))
                res['keyx'] = 'leak'
            self.close_all()
            self.drive()
            n2 = self.sq.fd_count()
            if n2 != self.baseline and not res['problems']:
                res['problems'].append('%d descriptors open after the peers closed their sockets too, idle baseline is %d; extra: %s' % (
                    n2, self.baseline, self.fd_extra()))
                res['keyx'] = 'leak-after-close'
            # probe
            pr = self.probe('p' + tag[1:])
            if pr:
                res['problems'].append(pr)
                res['keyx'] = res['keyx'] or 'probe'
            hp = self.health()
            if hp:
                res['problems'] += hp
                res['keyx'] = 'crash'
            elif not res['problems']:
                n3 = self.sq.fd_count()
                if n3 != self.baseline:
                    res['problems'].append('%d descriptors open after the probe transaction finished and its connections were closed, idle baseline is %d; extra: %s' % (
                        n3, self.baseline, self.fd_extra()))
                    res['keyx'] = 'leak-after-probe'
        self.close_all()
        res['transcript'] = repr(self.events)
        return res

    def fd_extra(self):
        cur = self.fd_desc()
        base = list(self.base_list)
        extra = []
        for d in cur:
            if d in base:
                base.remove(d)
            else:
                extra.append(d)
        return '%r%s' % (extra, (' missing: %r' % base) if base else '')

    def probe(self, tag):
        t = Txn(self, tag, {'m': 'GET', 'kind': 'none'}, scripted=False)
        self.txns[tag] = t
        t.client = self.sq.client()
        self.clients.append(t.client)
        t.client.send(t.R)
        self.drive()
        m = httpref.parse_response(t.client.inbuf, 'GET', eof=t.client.eof)
        bad = None
        if m.error or not m.complete or m.status != 200 or m.body != RESP_BODY or m.get('x-tag') != tag:
            bad = 'probe GET after the history was not answered with the origin\'s response: got %r' % t.client.inbuf[:200]
        self.close_all()
        self.drive()
        return bad


# ------------------------------------------------------------------ work units

def make_units(histories, nshards, min_per_unit=40):
    """Split the histories by configuration into units (one squid instance each), about nshards units in total."""
    by = {}
    for i, h in enumerate(histories):
        by.setdefault(h['cfg'], []).append((i, h))
    total = len(histories)
    units = []
    for cfg in sorted(by):
        items = by[cfg]
        k = max(1, min(len(items) // min_per_unit or 1, round(nshards * len(items) / max(1, total)) or 1))
        for j in range(k):
            units.append({'cfg': cfg, 'items': items[j::k], 'uid': '%s-%d' % (cfg, j)})
    return units


DETERMINISM_N = 10
MAX_VIOL_PER_UNIT = 4


def busy_looping(pid):
    def cpu():
        with open('/proc/%d/stat' % pid) as f:
            p = f.read().rsplit(')', 1)[1].split()
        return int(p[11]) + int(p[12])
    try:
        a = cpu()
        time.sleep(2.0)
        b = cpu()
    except (OSError, IndexError, ValueError):
        return False
    return (b - a) >= 0.8 * 2.0 * os.sysconf('SC_CLK_TCK')


def run_one(sim, idx, h):
    """Run one history; a watchdog expiry while squid burns CPU is a hang (violation), otherwise a HarnessError."""
    try:
        return sim.run_history(h, 'h%06d' % idx)
    except HarnessError as e:
        if 'watchdog' not in str(e):
            raise
        pid = sim.sq.proc.pid if sim.sq.proc else None
        if pid and sim.sq.alive() and busy_looping(pid):
            return {'problems': ['squid stopped returning to its event loop (busy for more than %ss of real time, still consuming CPU): %s' % (ls.WATCHDOG_S, str(e)[:200])],
                    'keyx': 'hang', 'transcript': 'hang', 'stats': {}, 'dead': True}
        raise


def unit_worker(ctx, t_end):
    def worker(shard, units):
        out = {'evaluations': 0, 'violations': [], 'classes': {}, 'nontrivial': 0, 'samples': [], 'deadline_hit': False,
               'kicks': 0, 'replays': 0, 'starts': 0, 'fd_checks': 0, 'baselines': {}, 'units_done': 0, 'max_hist_per_instance': 0,
               'stats': {}, 'last_event_s': 0, 'bug_lines': [], 'done_by_group': {}}
        port_base = ls.port_base_for_check(ctx.pid, shard)
        state = {'sim': None}

        def fresh(cfg):
            drop()
            for attempt in range(3):
                s = Sim(ctx, 'u%d' % shard, port_base, cfg)
                try:
                    s.start()
                    break
                except HarnessError as e:
                    # instance start-up is real-time bounded in the engine; on an overloaded machine it can miss
                    # that bound, which says nothing about Squid
                    try:
                        s.stop()
                    except Exception:
                        pass
                    if attempt == 2 or not ('not ready' in str(e) or 'exited during start-up' in str(e)):
                        raise
                    time.sleep(3)
            out['starts'] += 1
            state['sim'] = s
            return s

        def drop():
            if state['sim'] is not None:
                out['kicks'] += state['sim'].sq.kicks
                out['max_hist_per_instance'] = max(out['max_hist_per_instance'], state['sim'].nhist)
                out['last_event_s'] = max(out['last_event_s'], state['sim'].last_event_s)
                for b in state['sim'].bug_lines:
                    if b not in out['bug_lines'] and len(out['bug_lines']) < 10:
                        out['bug_lines'].append(b)
                try:
                    state['sim'].stop()
                except Exception:
                    pass
                state['sim'] = None

        def confirm(cfg, items_prefix, idx, h):
            """Re-run the violating history twice on fresh instances (alone; if that does not reproduce, after the
            same prefix of histories).  Returns (replay dict, problems) or raises HarnessError."""
            for mode in ('alone', 'prefix'):
                seq = [(idx, h)] if mode == 'alone' else items_prefix
                if mode == 'prefix' and len(seq) > 400:
                    break
                hits = []
                for attempt in range(2):
                    s = fresh(cfg)
                    r = None
                    for (i2, h2) in seq:
                        r = run_one(s, i2, h2)
                        out['replays'] += 1
                        if r.get('dead'):
                            break
                    hits.append(r if r and r['problems'] else None)
                if all(hits):
                    return {'cfg': cfg, 'histories': [[i2, h2] for i2, h2 in seq]}, hits[0]
                if any(hits):
                    raise HarnessError('violation reproduced only once in two replays (%s): %s' % (mode, hist_name(h)))
            raise HarnessError('violation not reproducible: %s' % hist_name(h))
        try:
            for u in units:
                if time.time() > t_end:
                    out['deadline_hit'] = True
                    break
                cfg, items = u['cfg'], u['items']
                sim = fresh(cfg)
                first = []
                for idx, h in items[:DETERMINISM_N]:
                    first.append(run_one(sim, idx, h))
                    out['replays'] += 1
                    if first[-1].get('dead') or first[-1].get('keyx') == 'crash':
                        break       # squid died: what follows on this instance says nothing about determinism
                sim = fresh(cfg)
                out['baselines'][u['uid']] = sim.baseline
                nviol = 0
                complete = True
                for n, (idx, h) in enumerate(items):
                    if time.time() > t_end:
                        out['deadline_hit'] = True
                        complete = False
                        break
                    r = run_one(sim, idx, h)
                    out['evaluations'] += 1
                    gname = u['uid'].split(':')[0]
                    out['done_by_group'][gname] = out['done_by_group'].get(gname, 0) + 1
                    out['fd_checks'] += 3
                    if n < len(first) and (first[n].get('transcript') != r.get('transcript') or
                                           ((first[n].get('keyx') != r.get('keyx')) if 'crash' in (first[n].get('keyx'), r.get('keyx'))
                                            else first[n]['problems'] != r['problems'])):   # crash reports differ in pids/addresses
                        raise HarnessError('nondeterminism: %s gave different transcripts on two instances:\n%s\n%s' % (
                            hist_name(h), first[n].get('transcript', '')[:1500], r.get('transcript', '')[:1500]))
                    st = r.get('stats', {})
                    for k, v in st.items():
                        out['stats'][k] = out['stats'].get(k, 0) + v
                    cls = 'served=%d client200=%d clientErr=%d squidClosedClient=%d originConns=%d' % (
                        st.get('served', 0), st.get('client_200', 0), st.get('client_other', 0), st.get('squid_closed_client', 0), st.get('origin_conns', 0))
                    out['classes'][cls] = out['classes'].get(cls, 0) + 1
                    # non-trivial: Squid had to tear something down itself (it closed a connection on its own
                    # initiative or answered with an error) rather than completing a plain transaction
                    if st.get('squid_closed_client', 0) or st.get('squid_closed_origin', 0) or st.get('client_other', 0):
                        out['nontrivial'] += 1
                    if len(out['samples']) < 2 and n % 53 == 7:
                        out['samples'].append({'history': hist_name(h), 'outcome': cls, 'events': r.get('transcript', '')[:700]})
                    if r['problems']:
                        rep, r2 = confirm(cfg, items[:n + 1], idx, h)
                        key = '%s:%s' % (r2['keyx'] if r2.get('keyx') else r['keyx'], hist_class(h))
                        if (r2.get('keyx') or r['keyx']) == 'crash':
                            sig = re.search(r'(assertion failed: [^\n]{0,120}|FATAL: [^\n]{0,80}|SUMMARY: [^\n]{0,120}|Squid BUG[^\n]{0,80})', ' '.join(r2['problems']))
                            key = 'crash:%s' % (re.sub(r'0x[0-9a-f]+|pid \d+|\d{4}/\d\d/\d\d \d\d:\d\d:\d\d', '', sig.group(1)).strip() if sig else hist_class(h))
                        out['violations'].append((key, '%s: %s' % (hist_name(h), ' | '.join(r2['problems'])[:1500]), rep))
                        nviol += 1
                        if nviol >= MAX_VIOL_PER_UNIT:
                            out['deadline_hit'] = True
                            complete = False
                            break
                        sim = fresh(cfg)
                if complete:
                    out['units_done'] += 1
        finally:
            drop()
        return out
    return worker


ASSUME = ['the real squid binary (ASan build of the current tree, -N, no disk cache) runs under the lock-step/virtual-time shim; client and origin are played by the driver over loopback TCP',
          'descriptor count = entries of /proc/<squid pid>/fd; the idle baseline is measured per instance after a warm-up GET, POST and refused connection and %d virtual seconds' % TOTAL_S,
          'timeouts are configured to 5..30 virtual seconds and %d virtual seconds pass in 1 s steps after every history, so idle persistent connections have been closed as well and the baseline must be met exactly' % TOTAL_S,
          'messages are small (one TCP segment each way unless the history splits them); back-pressure and large bodies are outside this check']
RULE = ('histories = (configuration: caching off/on [thorough: x half_closed_clients off/on]) x method {GET, POST with 8-byte body} x abort kind '
        '{client FIN, RST, half-close, stall; origin FIN, RST, stall} x abort offset = every byte offset of the request resp. response '
        '(+ connection refused); thorough adds all two-transaction histories over phase-boundary abort points, all merge orders of the two scripts with <=2 preemptions (and shared-URL pairs with <=1). '
        'non-trivial = histories in which Squid itself had to tear down a connection or produce an error (it closed a client or origin connection on its '
        'own initiative, or sent a non-200 response)')


def exactly_preempts(hs, k):
    def npre(h):
        scripts = [len(script_for(t)) for t in h['txns']]
        left = list(scripts)
        n = 0
        cur = None
        for w in h['order']:
            if cur is not None and w != cur and left[cur] > 0:
                n += 1
            left[w] -= 1
            cur = w
        return n
    return [h for h in hs if npre(h) == k]


def plan(ctx):
    """Groups of histories in decreasing priority (a deadline cuts the last groups first)."""
    if ctx.quick:
        return [('single', single_histories(['nocache', 'memcache'], CLIENT_KINDS, ORIGIN_KINDS)),
                ('reused-connection', reuse_histories(['nocache'], ('oFIN', 'oRST')))]
    ck = ('cFIN', 'cRST', 'cSTALL')
    p2 = pair_histories(['nocache', 'memcache'], ck, ORIGIN_KINDS, 2)
    return [('single', single_histories(['nocache', 'memcache', 'nocache-halfclosed', 'memcache-halfclosed'], CLIENT_KINDS, ORIGIN_KINDS)),
            ('reused-connection', reuse_histories(['nocache', 'memcache'], ORIGIN_KINDS)),
            ('pairs<=1preemption', _le1(p2)),
            ('pairs=2preemptions', exactly_preempts(p2, 2))]


def _le1(p2):
    two = set(id(h) for h in exactly_preempts(p2, 2))
    return [h for h in p2 if id(h) not in two]


def run(ctx):
    ls.build_squid(ctx)
    t_built = time.time()
    groups = plan(ctx)
    nsh = ctx.ncpu
    units = []
    hs = []
    for prio, (gname, g) in enumerate(groups):
        base = len(hs)
        us = make_units(g, nsh)
        for u in us:
            u['items'] = [(base + i, h) for i, h in u['items']]
            u['uid'] = gname + ':' + u['uid']
            u['prio'] = prio
        us.sort(key=lambda u: -len(u['items']))
        units += us
        hs += g
    parts = {gname: len(g) for gname, g in groups}
    t_end = ctx.t0 + ctx.deadline_s - (25 if ctx.quick else 60)
    parts_out = ls.run_sharded(ctx, unit_worker(ctx, t_end), units, nsh)
    tot = {'evaluations': 0, 'nontrivial': 0, 'kicks': 0, 'replays': 0, 'starts': 0, 'fd_checks': 0, 'units_done': 0}
    classes, viol, samples, stats, baselines = {}, [], [], {}, {}
    deadline = False
    maxh = 0
    last_ev = 0
    bugs = []
    done_by_group = {}
    for p in parts_out:
        if p is None:
            continue
        last_ev = max(last_ev, p['last_event_s'])
        bugs += [b for b in p['bug_lines'] if b not in bugs]
        for k in tot:
            tot[k] += p[k]
        for k, v in p['classes'].items():
            classes[k] = classes.get(k, 0) + v
        for k, v in p['stats'].items():
            stats[k] = stats.get(k, 0) + v
        for k, v in p['done_by_group'].items():
            done_by_group[k] = done_by_group.get(k, 0) + v
        viol += p['violations']
        samples += p['samples'][:1]
        baselines.update(p['baselines'])
        deadline = deadline or p['deadline_hit']
        maxh = max(maxh, p['max_hist_per_instance'])
    if tot['evaluations'] == 0 and not viol:
        raise HarnessError('no history was run: the tier deadline (%ds) was used up before exploration started (build step took %.0fs); run again now that the tree is built' % (
            ctx.deadline_s, t_built - ctx.t0))
    if not viol:
        if tot['nontrivial'] < tot['evaluations'] // 4:
            raise HarnessError('vacuity guard: Squid had to abort something in only %d of %d histories' % (tot['nontrivial'], tot['evaluations']))
        if stats.get('client_200', 0) < 10 or stats.get('squid_closed_origin', 0) < 10 or stats.get('client_other', 0) < 10:
            raise HarnessError('vacuity guard: outcome mix too narrow: %r' % stats)
    vio = [Violation(k, what, rep) for k, what, rep in viol]
    cov = {'evaluations': tot['evaluations'], 'distinct_nontrivial': tot['nontrivial'], 'rule': RULE,
           'samples': samples[:6], 'exhaustive': (not deadline) and tot['evaluations'] == len(hs),
           'histories_total': len(hs), 'histories_by_group': parts, 'histories_completed_by_group': done_by_group,
           'units': len(units), 'units_completed': tot['units_done'], 'instance_starts': tot['starts'], 'kicks': tot['kicks'],
           'determinism_and_confirmation_replays': tot['replays'], 'fd_baseline_checks': tot['fd_checks'],
           'max_histories_on_one_instance': maxh, 'idle_baseline_fds': sorted(set(baselines.values())),
           'virtual_seconds_after_each_history': TOTAL_S, 'latest_squid_reaction_virtual_s': last_ev,
           'build_step_wall_s': round(t_built - ctx.t0, 1), 'exploration_wall_s': round(time.time() - t_built, 1), 'outcome_totals': stats,
           'outcome_classes': dict(sorted(classes.items(), key=lambda kv: -kv[1])[:25])}
    obs = ['cache.log BUG line (not a violation of C08 by itself): ' + b for b in bugs[:10]]
    return Result(LEVEL, cov, vio, ASSUME, obs)


def replay(ctx, data):
    ls.build_squid(ctx)
    sim = Sim(ctx, 'replay', ls.port_base_for_check(ctx.pid, 0), data['cfg'])
    sim.start()
    v = []
    try:
        r = None
        for idx, h in data['histories']:
            r = run_one(sim, idx, h)
            if r.get('dead'):
                break
        print(hist_name(data['histories'][-1][1]))
        print(r.get('transcript', '')[:4000])
        if r['problems']:
            print('\n'.join(r['problems']))
            v = [Violation('%s:%s' % (r['keyx'], hist_class(data['histories'][-1][1])), ' | '.join(r['problems'])[:1500], data)]
    finally:
        try:
            sim.stop()
        except Exception:
            pass
    return Result(LEVEL, {}, v, ASSUME)
