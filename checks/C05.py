"""C05 Pipelined responses are delivered in request order, each matching its request — E3, all orders of
origin events and client sends.

One client connection carries k pipelined requests of types {GET miss, GET hit (primed), HEAD, POST with a
3-byte body, GET denied by ACL} (pipeline_prefetch 3).  The origin (driver) answers every forwarded request
in two events (head, rest); the explorer runs every order of the enabled origin events and the client's
later sends on the real squid binary.  Every origin response carries the id of its request.
"""
import re
import time

from vverif import lockstep as ls
from vverif import lsexplore as ex
from vverif import httpref
from vverif.core import Result, Violation, HarnessError

LEVEL = 'model_checking'
TYPES = 'MHDPX'            # Miss, Hit, heaD, Post, denied (X)
METHOD = {'M': 'GET', 'H': 'GET', 'D': 'HEAD', 'P': 'POST', 'X': 'GET'}
SIZES = [30, 5000, 100, 4097]    # origin body size by pipeline position (some span more than one 4 KB page)
CONF = 'pipeline_prefetch %d\nacl denied urlpath_regex ^/x-\nhttp_access deny denied\n'


def _tuples(k, alphabet=TYPES):
    out = ['']
    for _ in range(k):
        out = [p + t for p in out for t in alphabet]
    return out


def cases_for(tier):
    """pf = pipeline_prefetch value of the instance: 3 (no request is ever held back for k <= 4) and 1 (the third
    request of a pipeline is parsed only after the first response is finished)."""
    out = []
    for k in (2, 3):
        for types in _tuples(k):
            for seg in ('one', 'each'):
                out.append({'types': types, 'seg': seg, 'pf': 3})
    for types in _tuples(3):
        for seg in ('one', 'each'):
            out.append({'types': types, 'seg': seg, 'pf': 1})
    if tier != 'quick':
        for types in _tuples(4):
            out.append({'types': types, 'seg': 'one', 'pf': 3})
        for types in _tuples(4, 'MHX'):
            out.append({'types': types, 'seg': 'each', 'pf': 3})
        for types in _tuples(4, 'MHX'):
            out.append({'types': types, 'seg': 'each', 'pf': 1})
    return out


def case_name(c):
    return '%s/%s/pf%d' % (c['types'], c['seg'], c.get('pf', 3))


def origin_body(rid, pos):
    tag = ('id=%s;' % rid).encode()
    n = max(SIZES[pos], len(tag))
    return tag + httpref.body_pattern(pos + 1, n - len(tag))


def post_body(pos):
    return b'p%dz' % pos


class OConn:
    def __init__(self, conn):
        self.c = conn
        self.raw = b''
        self.upto = 0


class Run:
    """One execution: state of client, origin and the script positions."""

    def __init__(self, w, case, uid):
        self.w = w
        self.sq = w.sq
        self.case = case
        self.k = len(case['types'])
        self.rids = ['%s%d' % (uid, i) for i in range(self.k)]
        self.client = None
        self.sent = 0                 # requests sent so far
        self.oconns = []
        self.arrived = {}             # pos -> (OConn, Msg)   requests seen by the origin
        self.ostage = {}              # pos -> 0 (nothing sent) | 1 (head sent) | 2 (done)
        self.cbuf = b''
        self.tr = []
        self.facts = set()
        self.bad = None               # violation found by the origin side (e.g. mangled request)
        self.step = 0
        self.sent_step = {}

    def path(self, pos):
        return '/%s-%s' % (self.case['types'][pos].lower(), self.rids[pos])

    def request_bytes(self, pos):
        t = self.case['types'][pos]
        url = self.w.url(self.path(pos))
        h = '%s %s HTTP/1.1\r\nHost: %s\r\n' % (METHOD[t], url, self.w.hostport())
        if t == 'P':
            b = post_body(pos)
            return (h + 'Content-Length: %d\r\n\r\n' % len(b)).encode() + b
        return (h + '\r\n').encode()

    def response_parts(self, pos):
        """(head event bytes, rest event bytes or None) the origin sends for the request at pipeline position pos."""
        t = self.case['types'][pos]
        rid = self.rids[pos]
        body = origin_body(rid, pos)
        h = 'HTTP/1.1 200 OK\r\nDate: %s\r\nX-Req-Id: %s\r\n' % (ls.http_date(self.sq.now_us), rid)
        if t == 'H':
            h += 'Cache-Control: max-age=3600\r\n'
        else:
            h += 'Cache-Control: no-store\r\n'
        if t == 'D':
            return (h + 'Content-Length: %d\r\n\r\n' % len(body)).encode(), None
        if pos % 2 == 1:
            wire = httpref.chunk_encode(body, [10, len(body) - 10])
            h += 'Transfer-Encoding: chunked\r\n\r\n'
            cut = len(b'a\r\n') + 10 + 2
        else:
            wire = body
            h += 'Content-Length: %d\r\n\r\n' % len(body)
            cut = 10
        return h.encode() + wire[:cut], wire[cut:]

    # ---- environment plumbing
    def origin_poll(self):
        for c in self.w.origin.accept_all():
            self.oconns.append(OConn(c))
        for oc in self.oconns:
            if oc.c.closed:
                continue
            if oc.c.pump():
                oc.raw += oc.c.inbuf
                oc.c.inbuf = b''
                while True:
                    m = httpref.parse_request(oc.raw[oc.upto:])
                    if m.error:
                        self.bad = ('origin-request-malformed', 'origin received a malformed request: %s: %r' % (m.error, oc.raw[oc.upto:oc.upto + 200]))
                        break
                    if not m.complete or m.consumed <= 0:
                        break
                    oc.upto += m.consumed
                    self.note_request(oc, m)
            if oc.c.eof and not oc.c.closed:
                oc.c.close()

    def note_request(self, oc, m):
        mm = re.search(r'/([a-z])-(\w+)$', m.target.decode('latin1'))
        pos = self.rids.index(mm.group(2)) if mm and mm.group(2) in self.rids else None
        if pos is None:
            self.bad = ('origin-request-unknown', 'origin received a request that the client never sent: %r' % m.start)
            return
        t = self.case['types'][pos]
        if pos in self.arrived:
            self.bad = ('origin-request-twice', 'origin received request %d (%s) twice' % (pos, t))
            return
        if m.method.decode() != METHOD[t]:
            self.bad = ('origin-request-method', 'request %d reached the origin as %r, sent as %s' % (pos, m.method, METHOD[t]))
        if t == 'P' and m.body != post_body(pos):
            self.bad = ('origin-request-body', 'POST %d reached the origin with body %r, client sent %r' % (pos, m.body, post_body(pos)))
        if t != 'P' and m.body:
            self.bad = ('origin-request-body', 'request %d (%s) reached the origin with a body %r' % (pos, t, m.body[:40]))
        if t == 'X':
            self.bad = ('denied-forwarded', 'request %d is denied by http_access but reached the origin' % pos)
        if t == 'H':
            self.facts.add('hit-forwarded')
        self.arrived[pos] = (oc, m)
        self.ostage[pos] = 0
        if self.step > self.sent_step.get(pos, 0):
            self.facts.add('forwarding-deferred')

    def settle(self):
        for _ in range(6):
            self.sq.settle(1)
            before = (len(self.cbuf), len(self.arrived))
            self.origin_poll()
            if self.client.pump():
                self.cbuf += self.client.inbuf
                self.client.inbuf = b''
            if (len(self.cbuf), len(self.arrived)) == before:
                break

    def enabled(self, last):
        en = []
        if self.sent < self.k:
            en.append(('C', 'send%d' % self.sent))
        for pos in sorted(self.arrived):
            st = self.ostage[pos]
            if st == 0:
                en.append(('O%d' % pos, 'head%d' % pos))
            elif st == 1:
                en.append(('O%d' % pos, 'rest%d' % pos))
        for i, (a, _) in enumerate(en):
            if a == last:
                en.insert(0, en.pop(i))
                break
        return en

    def do(self, actor, step):
        self.step += 1
        if actor == 'C':
            if self.case['seg'] == 'one':
                data = b''.join(self.request_bytes(p) for p in range(self.k))
                for p in range(self.k):
                    self.sent_step[p] = self.step
                self.sent = self.k
            else:
                data = self.request_bytes(self.sent)
                self.sent_step[self.sent] = self.step
                self.sent += 1
            self.client.send(data)
            return
        pos = int(actor[1:])
        oc, m = self.arrived[pos]
        head, rest = self.response_parts(pos)
        if oc.c.closed:
            # Squid gave up on this server connection before the origin answered
            self.facts.add('origin-conn-closed-early')
            self.ostage[pos] = 2
            return
        if step.startswith('head'):
            oc.c.send(head)
            self.ostage[pos] = 2 if rest is None else 1
        else:
            oc.c.send(rest)
            self.ostage[pos] = 2

    # ---- oracle
    def expected_ok(self, pos, m):
        """None if response m is an acceptable answer to the request at position pos, else a reason."""
        t = self.case['types'][pos]
        rid = self.rids[pos]
        if t == 'X':
            if m.status != 403:
                return 'status %d instead of 403 for the denied request' % m.status
            if self.path(pos).encode() not in m.body:
                other = [p for p in range(self.k) if p != pos and self.path(p).encode() in m.body]
                return 'the 403 page does not name the denied URL%s' % (' but names the URL of request %d' % other[0] if other else '')
            return None
        if m.status != 200:
            return 'status %d instead of 200' % m.status
        if m.get('x-req-id') != rid:
            return 'X-Req-Id %r instead of %r' % (m.get('x-req-id'), rid)
        if t == 'D':
            if m.body:
                return 'HEAD response with a body'
            if m.declared_length != len(origin_body(rid, pos)):
                return 'HEAD response Content-Length %r instead of %d' % (m.declared_length, len(origin_body(rid, pos)))
            return None
        if m.body != origin_body(rid, pos):
            b = m.body
            mm = re.match(rb'id=(\w+);', b)
            return 'body is not the one the origin produced for this request (%d bytes, starts %r%s)' % (
                len(b), b[:24], (', which belongs to request %d' % self.rids.index(mm.group(1).decode())) if mm and mm.group(1).decode() in self.rids else '')
        return None

    def check(self, final):
        if self.bad:
            return self.bad
        methods = [METHOD[t] for t in self.case['types']]
        msgs, left = httpref.parse_responses(self.cbuf, methods, eof=self.client.eof)
        done = 0
        for i, m in enumerate(msgs):
            if m.error:
                return ('client-malformed:%d' % i, 'response %d on the client connection is malformed: %s: %r' % (i, m.error, self.cbuf[:300]))
            if not m.complete:
                break
            why = self.expected_ok(i, m)
            if why:
                return ('mismatch:%s' % self.case['types'][i], 'response %d (to a %s request): %s' % (i, self.case['types'][i], why))
            if i in self.ostage and self.ostage[i] != 2 and self.case['types'][i] not in 'HX':
                return ('premature', 'response %d was complete at the client before the origin had finished sending it' % i)
            done += 1
        self.done = done
        if done == self.k and left:
            return ('extra-bytes', '%d bytes follow the %d-th response on the client connection: %r' % (len(left), self.k, left[:80]))
        if final and done < self.k:
            closed_ok = done > 0 and any(v.strip().lower() == 'close' for v in ','.join(msgs[done - 1].get_all('connection')).split(',')) and self.client.eof
            if closed_ok:
                self.facts.add('closed-after-connection-close')
                return None
            return ('missing:%s' % self.case['types'][done], 'client sent %d requests, all enabled origin events were executed and Squid is idle, but only %d complete responses arrived (%d bytes pending, eof=%s)' % (
                self.k, done, len(left), self.client.eof))
        return None

    def snap(self, label):
        methods = [METHOD[t] for t in self.case['types']]
        msgs, left = httpref.parse_responses(self.cbuf, methods, eof=self.client.eof)
        n = sum(1 for m in msgs if m.complete and not m.error)
        self.tr.append('%s | client: %d complete %s +%d%s | origin: arrived %s stage %s conns %d' % (
            label, n, [m.status for m in msgs if m.complete and not m.error], len(self.cbuf) - sum(m.consumed for m in msgs if m.complete and not m.error),
            ' eof' if self.client.eof else '', sorted(self.arrived), [self.ostage[p] for p in sorted(self.ostage)], len(self.oconns)))


def prime(w, run):
    """Put the H objects into the cache through a separate connection (one complete transaction each)."""
    for pos, t in enumerate(run.case['types']):
        if t != 'H':
            continue
        head, rest = run.response_parts(pos)
        req = ('GET %s HTTP/1.1\r\nHost: %s\r\n\r\n' % (w.url(run.path(pos)), w.hostport())).encode()
        x = w.fetch(req, lambda m, r=head + rest: r)
        if not x.response or x.response.status != 200 or x.response.body != origin_body(run.rids[pos], pos):
            raise HarnessError('priming transaction failed: %r' % x.client_bytes[:200])
    w.close_origin_conns()


def execute(w, case, choices, uid):
    run = Run(w, case, uid)
    prime(w, run)
    ch = ex.Chooser(choices)
    states = []
    nact = 0
    v = None
    run.client = w.sq.client()
    try:
        last = None
        idle = 0
        while v is None:
            en = run.enabled(last)
            if not en:
                idle += 1
                if idle > 1:
                    break
                run.settle()
                v = run.check(False)
                continue
            idle = 0
            states.append(ex.h64(case_name(case), '\n'.join(run.tr)))
            a, step = en[ch.choose(len(en), '/'.join(s for _, s in en))]
            run.do(a, step)
            last = a
            nact += 1
            run.settle()
            run.snap(step)
            v = run.check(False)
        if v is None:
            run.settle()
            run.snap('end')
            v = run.check(True)
    finally:
        run.client.close()
        for oc in run.oconns:
            oc.c.close()
        w.sq.settle(2)
        for c in w.origin.accept_all():
            c.close()
    forwarded = ''.join(t for p, t in enumerate(case['types']) if p in run.arrived)
    if 'H' in case['types'] and 'hit-forwarded' not in run.facts:
        run.facts.add('hit-served-from-cache')
    if len(run.arrived) >= 2:
        order = [s for s in (l.split(' | ')[0] for l in run.tr) if s.startswith('rest') or (s.startswith('head') and case['types'][int(s[4:])] == 'D')]
        if order and order != sorted(order, key=lambda s: int(s[4:])):
            run.facts.add('origin-finished-later-request-first')
    return {'violation': v, 'transcript': run.tr, 'states': states, 'transitions': nact, 'chooser': ch,
            'facts': sorted(run.facts), 'forwarded': forwarded}


# ------------------------------------------------------------------ run

def make_world(ctx, shard, pf=3):
    return ls.World(ctx, 'w%dpf%d' % (shard, pf), ls.port_base_for_check(ctx.pid, shard) + (0 if pf == 3 else 10), conf=CONF % pf, memory_cache=True)


ASSUME = ['the real squid binary (ASan build of the current tree) runs under the lock-step/virtual-time shim; client and origin are played by the driver',
          'each environment action (client segment, origin head, origin rest) is followed by running Squid to quiescence; interleavings are at that granularity',
          'a pipeline that Squid ends early is accepted only if the last delivered response carried Connection: close (RFC 9112 9.6)',
          'virtual time does not advance during an execution (no timeouts fire)']


def run(ctx):
    ls.build_squid(ctx)
    cases = cases_for(ctx.tier)
    # heavier cases (more forwarded requests => more orders) first, dealt round-robin
    cases.sort(key=lambda c: (-(sum(2 if t in 'MP' else 1 if t == 'D' else 0 for t in c['types']) + (len(c['types']) - 1 if c['seg'] == 'each' else 0)), case_name(c)))
    t_end = ctx.t0 + ctx.deadline_s - 15

    def worker(shard, mine):
        out = {'cases_done': [], 'execs': 0, 'states': set(), 'transitions': 0, 'violations': [], 'facts': {}, 'kicks': 0, 'replays': 0,
               'samples': [], 'crashes': [], 'deadline': False, 'per_case': {}, 'bounds': {}}
        st = {'w': {}, 'n': 0}

        def fresh(pf):
            if st['w'].get(pf) is not None:
                out['kicks'] += st['w'][pf].sq.kicks
                st['w'][pf].stop()
                st['w'][pf] = None
            st['w'][pf] = make_world(ctx, shard, pf)
            st['w'][pf].start()

        def one(case, choices):
            pf = case['pf']
            if st['w'].get(pf) is None:
                fresh(pf)
            st['n'] += 1
            try:
                r = execute(st['w'][pf], case, choices, 's%02dn%06d' % (shard, st['n']))
            except HarnessError:
                if not st['w'][pf].sq.health_problems():
                    raise
                r = {'violation': None, 'transcript': [], 'states': [], 'transitions': 0, 'chooser': ex.Chooser(choices), 'facts': [], 'forwarded': ''}
            hp = st['w'][pf].sq.health_problems()
            if hp:
                r['crash'] = hp
                fresh(pf)
            return r
        try:
            # determinism obligation: the first executions of this shard's first case on two separate instances
            first = {}
            if mine:
                def on0(ch, r):
                    first[tuple(ch.choices())] = r['transcript']
                ex.explore(lambda ch: _wrap(one, mine[0], ch), on0, max_exec=5)
                out['replays'] += len(first)
                fresh(mine[0]['pf'])
            for case in mine:
                if time.time() > t_end:
                    out['deadline'] = True
                    break
                cn = case_name(case)
                stop = {'v': False}

                def on(ch, r):
                    out['execs'] += 1
                    out['states'].update(r['states'])
                    out['transitions'] += r['transitions']
                    for f in r['facts']:
                        out['facts'][f] = out['facts'].get(f, 0) + 1
                    key = tuple(ch.choices())
                    if r.get('crash'):
                        out['crashes'].append((cn, list(key), '; '.join(r['crash'])[:2000]))
                        stop['v'] = True
                        return True
                    if case is mine[0] and key in first and first[key] != r['transcript']:
                        raise HarnessError('nondeterminism: %s %r gave different transcripts on two instances:\n%r\n%r' % (cn, list(key), first[key], r['transcript']))
                    if len(out['samples']) < 2 and out['execs'] % 37 == 5:
                        out['samples'].append({'case': cn, 'choices': list(key), 'schedule': _taken(ch), 'transcript': r['transcript']})
                    if r['violation']:
                        k, what = r['violation']
                        if not any(k == k0 for k0, _, _ in out['violations']):
                            for attempt in range(2):
                                if attempt == 0:
                                    fresh(case['pf'])
                                r2 = one(case, list(key))
                                out['replays'] += 1
                                if r2.get('crash'):
                                    out['crashes'].append((cn, list(key), '; '.join(r2['crash'])[:2000]))
                                    stop['v'] = True
                                    return True
                                if not r2['violation'] or r2['violation'][0] != k:
                                    raise HarnessError('violation not reproducible: %s %r: %s / replay gave %r' % (cn, list(key), what, r2['violation']))
                            out['violations'].append((k, '%s, schedule %s: %s' % (cn, ' '.join(_taken(ch)), what), {'case': case, 'choices': list(key)}))
                        if len(out['violations']) >= 6:
                            stop['v'] = True
                            return True
                    return False
                res = ex.explore(lambda ch: _wrap(one, case, ch), on, t_end=t_end)
                out['per_case'][cn] = res['executions']
                out['bounds'][cn] = res['bound_completed']
                if len(out['crashes']) >= 3 or len(out['violations']) >= 6:
                    out['deadline'] = True
                    break
                if stop['v']:
                    continue
                if res['exhausted']:
                    out['cases_done'].append(cn)
                else:
                    out['deadline'] = True
                    break
        finally:
            for w_ in st['w'].values():
                if w_ is not None:
                    out['kicks'] += w_.sq.kicks
                    w_.stop()
        out['states'] = list(out['states'])
        return out

    parts = ls.run_sharded(ctx, worker, cases)
    states = set()
    tot = {'transitions': 0, 'kicks': 0, 'replays': 0, 'execs': 0}
    facts, vio, crashes, samples, per_case, done, bounds = {}, {}, [], [], {}, [], {}
    deadline = False
    for p in parts:
        if p is None:
            continue
        states.update(p['states'])
        for k in ('transitions', 'kicks', 'replays', 'execs'):
            tot[k] += p[k]
        deadline = deadline or p['deadline']
        for k, n in p['facts'].items():
            facts[k] = facts.get(k, 0) + n
        for k, what, rp in p['violations']:
            vio.setdefault(k, (what, rp))
        crashes += p['crashes']
        samples += p['samples']
        per_case.update(p['per_case'])
        bounds.update(p['bounds'])
        done += p['cases_done']
    complete = len(done) == len(cases)
    violations = [Violation(k, what, rp) for k, (what, rp) in sorted(vio.items())]
    seen = set()
    for name, choices, what in crashes:
        mk = re.search(r'(assertion failed: [^\n"]{0,80})|(FATAL: [^\n"]{0,60})|AddressSanitizer: ([\w-]+)', what)
        kind = (mk.group(1) or mk.group(2) or mk.group(3)) if mk else 'exit'
        if kind in seen:
            continue
        seen.add(kind)
        violations.append(Violation('crash:' + kind, 'squid crashed/asserted during %s %r: %s' % (name, choices, what), {'case': None}))
    if complete and not violations:
        need = {'hit-served-from-cache': 10, 'origin-finished-later-request-first': 10, 'forwarding-deferred': 10}
        miss = {f: facts.get(f, 0) for f, n in need.items() if facts.get(f, 0) < n}
        if miss:
            raise HarnessError('vacuity guard: too few executions with %r (all facts: %r)' % (miss, facts))
    kmax = max(len(c['types']) for c in cases)
    cov = {
        'states': len(states), 'transitions': tot['transitions'], 'traces_validated_against_impl': tot['execs'],
        'cases': len(cases), 'cases_completed': len(done), 'max_executions_in_one_case': max(per_case.values()) if per_case else 0,
        'bound_completed': ('all orders of all cases, k<=%d' % kmax) if complete else 'partial: %d of %d cases complete' % (len(done), len(cases)),
        'max_preemptions_needed': max(bounds.values()) if bounds else 0,
        'exhaustive': complete and not deadline, 'kicks': tot['kicks'], 'determinism_replays': tot['replays'], 'facts': facts,
        'rule': 'case = k requests over {GET miss, GET hit, HEAD, POST, GET denied} x {all in one segment, one per segment} x pipeline_prefetch {3, 1}: '
                'quick k in {2,3} (prefetch 1: k=3); thorough adds k=4 (all 625 type tuples in one segment; tuples over {miss, hit, denied} one per segment, prefetch 3 and 1); '
                'per case every order of the enabled actions {client sends next request, origin sends head of i, origin sends rest of i} is executed',
        'samples': samples[:6], 'executions_per_case_sample': dict(sorted(per_case.items())[:12]),
    }
    return Result(LEVEL, cov, violations, ASSUME)


def _wrap(one, case, ch):
    # the chooser is consumed inside execute() through its prefix; keep the points for the explorer
    r = one(case, ch.prefix)
    inner = r['chooser']
    ch.points = list(inner.points)
    while len(ch.points) < len(ch.prefix):     # execution died (Squid crashed) before the prefix was consumed
        ch.points.append((ch.prefix[len(ch.points)] + 1, 'crashed', ch.prefix[len(ch.points)]))
    return r


def _taken(ch):
    return [p[1].split('/')[p[2]] for p in ch.points]


def replay(ctx, data):
    ls.build_squid(ctx)
    if not data.get('case'):
        raise HarnessError('this replay file records a crash; re-run the tier to reproduce')
    w = make_world(ctx, 0, data['case'].get('pf', 3))
    w.start()
    try:
        r = execute(w, data['case'], data['choices'], 's00n000001')
        print('\n'.join(r['transcript']))
        hp = w.sq.health_problems()
        if hp:
            print('squid problems:', hp)
    finally:
        w.stop()
    v = [Violation(r['violation'][0], r['violation'][1], data)] if r['violation'] else []
    return Result(LEVEL, {}, v, ASSUME)
