"""C06 CONNECT tunnels relay both directions unchanged — E3, all interleavings of client/server scripts.

The real squid binary (lock-step) sits between a driver-played client and a driver-played TCP server.
After the CONNECT/200 exchange the client runs the script [a1..an, close] and the server [b1..bn, close]
(close = FIN, shutdown(WR)+later close, or RST); every interleaving of the scripts is executed for every
combination of chunk size class x early-bytes x close styles.  After every environment action Squid runs
to quiescence and the byte streams seen on both sides are compared with what the peer handed to its
kernel.
"""
import json
import os
import re
import socket
import time

from vverif import lockstep as ls
from vverif import lsexplore as ex
from vverif import httpref
from vverif.core import Result, Violation, HarnessError

LEVEL = 'model_checking'

BP_CLASSES = ('bp', 'asymC', 'asymS')
KERNEL_DEPENDENT_CLASSES = ('asymC', 'asymS')
ACTORS = ('C', 'S', 'DC', 'DS')     # client script, server script, client starts reading, server starts reading


# ------------------------------------------------------------------ the space

def tunnel_bufsize(ctx):
    """SQUID_TCP_SO_RCVBUF of the built tree = size of TunnelStateData's per-direction buffer."""
    try:
        with open(os.path.join(ctx.tree, 'include', 'autoconf.h')) as f:
            m = re.search(r'^#define\s+SQUID_TCP_SO_RCVBUF\s+(\d+)', f.read(), re.M)
        return int(m.group(1))
    except Exception:
        raise HarnessError('cannot read SQUID_TCP_SO_RCVBUF from the scratch tree')


def specs_for(tier):
    out = []

    def add(cls, n, styles, earlies=(False, True)):
        for early in earlies:
            for cs, ss in styles:
                out.append({'cls': cls, 'early': early, 'cs': cs, 'ss': ss, 'n': n})
    if tier == 'quick':
        q = [(c, s) for c in ('fin', 'shut') for s in ('fin', 'shut')]
        add('one', 2, q)
        add('buf1', 2, q)
        add('bp', 1, [('fin', 'fin'), ('shut', 'fin'), ('fin', 'shut')])
        add('asymC', 1, [('shut', 'fin')], (False,))
        add('asymS', 1, [('fin', 'shut')])
    else:
        t = [(c, s) for c in ('fin', 'shut', 'rst') for s in ('fin', 'shut', 'rst')]
        add('one', 3, t)
        add('buf1', 3, t)
        add('mixed', 3, t)
        add('bp', 1, t)
        add('bp', 2, [('fin', 'fin'), ('shut', 'fin'), ('fin', 'shut')])
        add('asymC', 1, t)
        add('asymS', 1, t)
    return out


def spec_name(sp):
    return '%s/n%d/%s/c-%s/s-%s' % (sp['cls'], sp['n'], 'early' if sp['early'] else 'late', sp['cs'], sp['ss'])


ONE_A = [b'\x00', b'\xff', b'\r']
ONE_B = [b'\n', b'\x80', b'\x00']


def chunk(sp, side, i, bufsz):
    """i-th chunk of side 'C'/'S'.  Every chunk has its own pattern version, so loss, duplication, reordering or
    mixing at any offset changes the stream."""
    v = (1 + i) if side == 'C' else (11 + i)
    cls = sp['cls']
    if cls == 'one':
        return (ONE_A if side == 'C' else ONE_B)[i]
    if cls == 'buf1':
        return httpref.body_pattern(v, bufsz + 1)
    if cls == 'mixed':
        n = [1, bufsz + 1, 2 * bufsz + 3][(i + (0 if side == 'C' else 1)) % 3]
        return httpref.body_pattern(v, n)
    if cls == 'bp':
        return httpref.body_pattern(v, BP_CHUNK)
    if cls in ('asymC', 'asymS'):
        return httpref.body_pattern(v, ASYM_SMALL if side == cls[4] else BP_CHUNK)
    raise HarnessError('bad class ' + cls)


# Back-pressure class: the driver's sockets get a small MSS and small fixed buffers, which makes the amount the
# kernels + Squid can absorb in one direction small and reproducible (measured: 254624 bytes client->server,
# 184456 server->client; with the loopback default MSS of 64 KB it is several MB and depends on real-time kernel
# timers).  The chunk must exceed it, so that Squid really is blocked in a write when the next action happens.
BP_CHUNK = 384 * 1024
BP_SOCKBUF = 8192
BP_MSS = 1460
ASYM_SMALL = 24 * 1024          # fits into Squid's socket send queue + the peer's receive window, but not into the window alone
GRACE_STEP_S = 0.03             # kernel timers (delayed ACK 40 ms, window probes) are outside the virtual clock
GRACE_STEPS = 12


class Sched:
    """The static part of an execution: scripts and the enabled set."""

    def __init__(self, sp):
        self.sp = sp
        n = sp['n']

        def tail(style):
            return {'fin': ['fin'], 'shut': ['shut', 'close'], 'rst': ['rst']}[style]
        self.script = {
            'C': ['send%d' % i for i in range(1 if sp['early'] else 0, n)] + tail(sp['cs']),
            'S': ['send%d' % i for i in range(n)] + tail(sp['ss']),
            'DC': ['drain'] if sp['cls'] in BP_CLASSES else [],
            'DS': ['drain'] if sp['cls'] in BP_CLASSES else [],
        }
        self.pos = {a: 0 for a in ACTORS}
        self.gone = {'C': False, 'S': False}      # socket fully closed by its owner
        self.last = None

    def enabled(self):
        en = []
        for a in ACTORS:
            if self.pos[a] >= len(self.script[a]):
                continue
            if a in ('DC', 'DS') and self.gone[a[1]]:
                continue
            en.append(a)
        if self.last in en:
            en.remove(self.last)
            en.insert(0, self.last)
        return en

    def take(self, a):
        step = self.script[a][self.pos[a]]
        self.pos[a] += 1
        self.last = a
        if a in ('C', 'S') and step in ('fin', 'close', 'rst'):
            self.gone[a] = True
        return step


def enumerate_schedules(sp):
    """All choice lists of a spec (the structure is static, so this needs no Squid)."""
    out = []

    def run(ch):
        s = Sched(sp)
        labels = []
        while True:
            en = s.enabled()
            if not en:
                break
            a = en[ch.choose(len(en), '/'.join(en))]
            labels.append(a + ':' + s.take(a))
        return labels

    def on(ch, labels):
        out.append((ch.choices(), labels))
    r = ex.explore(run, on)
    if not r['exhausted']:
        raise HarnessError('schedule enumeration incomplete')
    return out


# ------------------------------------------------------------------ one execution on the real binary

class Side:
    def __init__(self, name, conn, reading):
        self.name = name
        self.conn = conn
        self.reading = reading
        self.outq = []                 # bytes | 'shut' | 'fin'  (a blocking writer: later items wait for earlier ones)
        self.recv = bytearray()
        self.ksent = bytearray()       # bytes handed to the kernel, in order
        self.closeish = None           # first close-like action performed: 'shut' | 'fin' | 'rst'
        self.closed = False

    def flush(self):
        prog = False
        while self.outq and not self.closed:
            it = self.outq[0]
            if isinstance(it, (bytes, bytearray)):
                before = len(self.conn.sent)
                n = self.conn.send(it)
                self.ksent += it[:n]
                if n:
                    prog = True
                if self.conn.reset:
                    # the kernel refused (EPIPE/ECONNRESET): Squid has closed this connection; what was not accepted was never sent
                    self.outq = [x for x in self.outq if not isinstance(x, (bytes, bytearray))]
                    continue
                if n < len(it):
                    self.outq[0] = it[n:]
                    break
                self.outq.pop(0)
            elif it == 'shut':
                self.conn.shutdown_wr()
                self.outq.pop(0)
                prog = True
            elif it == 'fin':
                self.conn.close()
                self.closed = True
                self.outq.pop(0)
                prog = True
        return prog

    def pump(self):
        if self.closed or not self.reading:
            return 0
        n = self.conn.pump()
        if n:
            self.recv += self.conn.inbuf
            self.conn.inbuf = b''
        return n


def _client_conn(sq, small):
    s = socket.socket(socket.AF_INET, socket.SOCK_STREAM)
    if small:
        s.setsockopt(socket.IPPROTO_TCP, socket.TCP_MAXSEG, BP_MSS)
        s.setsockopt(socket.SOL_SOCKET, socket.SO_RCVBUF, BP_SOCKBUF)
        s.setsockopt(socket.SOL_SOCKET, socket.SO_SNDBUF, BP_SOCKBUF)
    s.connect(('127.0.0.1', sq.http_port))
    return ls.Conn(s)


def _first_diff(a, b):
    n = min(len(a), len(b))
    if a[:n] == b[:n]:
        return n
    lo, hi = 0, n
    while lo < hi:
        mid = (lo + hi) // 2
        if a[:mid + 1] == b[:mid + 1]:
            lo = mid + 1
        else:
            hi = mid
    return lo


def execute(w, sp, choices, bufsz, trace=None):
    """Run one execution.  Returns dict(violation=None|(key, what), transcript=[...], states=[h...], transitions=n, outcome=str)."""
    sq = w.sq
    bp = sp['cls'] in BP_CLASSES
    ch = ex.Chooser(choices)
    sched = Sched(sp)
    tr = []             # canonical transcript
    states = []
    res = {'violation': None, 'transitions': 0, 'outcome': '', 'facts': set()}

    lst = w.origin_bp if bp else w.origin
    cli = Side('C', _client_conn(sq, bp), reading=not bp)
    srv = None
    sides = {}
    head200 = {'len': None}

    def all_sides():
        return [x for x in (cli, srv) if x is not None]

    def quiesce():
        rounds = 0
        while True:
            rounds += 1
            prog = False
            for s in all_sides():
                if s.flush():
                    prog = True
            sq.kick()
            for s in all_sides():
                if s.pump():
                    prog = True
            if trace is not None:
                trace.append('  round: ' + ' '.join('%s ksent=%d outq=%d recv=%d%s%s' % (
                    s.name, len(s.ksent), sum(len(i) for i in s.outq if not isinstance(i, str)), len(s.recv),
                    ' eof' if s.conn.eof else '', ' rst' if s.conn.reset else '') for s in all_sides()))
            if not prog:
                break
            if rounds > 4000:
                raise HarnessError('quiesce does not converge')
        return rounds

    def peer(x):
        return srv if x is cli else cli

    def stalled():
        """A writer is blocked although its peer is open and reading: either Squid lost track of the tunnel or the
        kernel is sitting on a timer (delayed ACK / window probe); real time tells the two apart."""
        for x in all_sides():
            y = peer(x)
            if y is None or x.closed:
                continue
            if any(isinstance(it, (bytes, bytearray)) for it in x.outq) and y.reading and y.closeish is None and not x.conn.reset:
                return True
        return False

    def settle_checked(label):
        """quiesce, evaluate the oracle; a 'lost'/stalled verdict is only final after a real-time grace period."""
        quiesce()
        v = check(label)
        n = 0
        while (stalled() or (v is not None and v[0].startswith('lost:'))) and n < GRACE_STEPS:
            n += 1
            time.sleep(GRACE_STEP_S)
            quiesce()
            v = check(label)
        if n:
            res['grace'] = res.get('grace', 0) + 1
        if v is None and stalled():
            x = [s_ for s_ in all_sides() if s_.outq and not s_.closed][0]
            v = ('stalled:%s:%s' % ('c2s' if x is cli else 's2c', sp['cls']),
                 '%s cannot send (kernel buffers full for %.1f s real time) although the other side is open and reading and Squid is idle [after %s]' % (
                     'client' if x is cli else 'server', GRACE_STEP_S * GRACE_STEPS, label))
        return v

    def client_payload():
        """bytes the client received after the 200 head (None while the head is incomplete)."""
        if head200['len'] is None:
            i = bytes(cli.recv).find(b'\r\n\r\n')
            if i < 0:
                return None
            m = httpref.parse_response(bytes(cli.recv[:i + 4]), 'CONNECT')
            if m.error or not m.complete or m.status != 200:
                head200['bad'] = 'client did not get a well-formed 200 head first: %r' % bytes(cli.recv[:120])
                return None
            head200['len'] = i + 4
        return bytes(cli.recv[head200['len']:])

    def check(label):
        """The oracle, at a quiescent state."""
        if head200.get('bad'):
            return ('head:' + sp['cls'], head200['bad'])
        for S, R, dname in ((srv, cli, 's2c'), (cli, srv, 'c2s')):
            if S is None or R is None:
                continue
            got = client_payload() if R is cli else bytes(R.recv)
            if got is None:
                if R is cli and len(cli.recv) > 4096:
                    return ('head:' + sp['cls'], 'client got %d bytes without a complete response head' % len(cli.recv))
                got = b''
            want = bytes(S.ksent)
            kq = ':early' if (dname == 'c2s' and sp['early']) else ''
            if got != want[:len(got)]:
                d = _first_diff(got, want)
                kind = 'corrupt'
                if R is cli and d == 0 and got.startswith(b'HTTP/'):
                    kind = 'inserted'
                return ('%s:%s:%s%s' % (kind, dname, sp['cls'], kq),
                        '%s stream differs from what the peer sent at payload offset %d (received %d bytes, peer sent %d): got %r, expected %r [after %s]' % (
                            'client' if R is cli else 'server', d, len(got), len(want), got[d:d + 24], want[d:d + 24], label))
            # S's close turns into an abort (RST) when S closed its socket without having read everything that was
            # sent to it: TCP then allows undelivered bytes of S to be discarded, so no completeness claim is made
            s_got = (client_payload() or b'') if S is cli else bytes(S.recv)
            aborted = S.closeish == 'rst' or (S.closed and len(R.ksent) > len(s_got))
            if sp['cls'] == 'bp' and S.closeish and len(R.ksent) > len(s_got):
                # half-close with data in flight towards the closer: Squid closes the far socket with close(2); whether the
                # kernel then still delivers what Squid had queued depends on kernel buffer state (see asym classes, which
                # pin that state, and docs/checks/C06.md)
                aborted = True
            if aborted:
                res['facts'].add(dname + ':sender-aborted')
            if R.reading and R.closeish is None and not aborted and len(got) != len(want):
                return ('lost:%s:%s%s' % (dname, sp['cls'], kq),
                        '%s has received only %d of the %d bytes the %s sent, Squid is quiescent, the receiver is open and reading%s [after %s]' % (
                            'client' if R is cli else 'server', len(got), len(want), 'server' if R is cli else 'client',
                            (' and the sender has closed with %s' % S.closeish) if S.closeish else '', label))
            if len(got) == len(want) and want:
                res['facts'].add(dname + ':delivered')
            if S.closeish in ('fin', 'shut') and R.closeish is None and len(got) == len(want) and want:
                res['facts'].add(dname + ':delivered-after-sender-close')
        return None

    def snapshot(label):
        cp = client_payload() or b''
        sp_ = bytes(srv.recv) if srv else b''
        if bp:
            # byte counts of partially drained streams depend on kernel buffer sizing, not on Squid: keep only
            # "complete / incomplete" (see docs/checks/C06.md)
            cdesc = 'full' if srv and len(cp) == len(srv.ksent) else 'part'
            sdesc = 'full' if srv and len(sp_) == len(cli.ksent) else 'part'
        else:
            cdesc = '%d:%x' % (len(cp), ex.h64(cp))
            sdesc = '%d:%x' % (len(sp_), ex.h64(sp_))
        tr.append('%s c=%s%s%s s=%s%s%s' % (label, cdesc, ' eof' if cli.conn.eof else '', ' rst' if cli.conn.reset and not bp else '',
                                          sdesc, ' eof' if srv and srv.conn.eof else '', ' rst' if srv and srv.conn.reset and not bp else ''))

    try:
        # ---- set-up: CONNECT head (+ first chunk when early), 200, accept
        head = ('CONNECT 127.0.0.1:%d HTTP/1.1\r\nHost: 127.0.0.1:%d\r\n\r\n' % (lst.port, lst.port)).encode()
        first = head + (chunk(sp, 'C', 0, bufsz) if sp['early'] else b'')
        cli.outq.append(first)
        quiesce()
        cli.ksent = cli.ksent[len(head):] if len(cli.ksent) >= len(head) else None
        if cli.ksent is None:
            raise HarnessError('could not even send the CONNECT head')
        cli._head = len(head)
        oc = lst.accept_all()
        if len(oc) != 1:
            raise HarnessError('expected one connection at the server after CONNECT, got %d; client has %r' % (len(oc), bytes(cli.recv[:200])))
        srv = Side('S', oc[0], reading=not bp)
        quiesce()
        # the client reads the answer to its CONNECT in every class (a client that closed with the 200 still unread would
        # reset its own connection); in the back-pressure classes it stops reading after that
        was = cli.reading
        cli.reading = True
        cli.pump()
        cli.reading = was
        if client_payload() is None:
            raise HarnessError('no 200 for CONNECT: %r %s' % (bytes(cli.recv[:200]), head200.get('bad')))
        v = settle_checked('setup')
        snapshot('setup')
        # ---- the schedule
        while v is None:
            en = sched.enabled()
            if not en:
                break
            states.append(ex.h64(spec_name(sp), '\n'.join(tr)))
            a = en[ch.choose(len(en), '/'.join(en))]
            step = sched.take(a)
            label = a + ':' + step
            if a in ('DC', 'DS'):
                (cli if a == 'DC' else srv).reading = True
            else:
                side = cli if a == 'C' else srv
                if step.startswith('send'):
                    side.outq.append(chunk(sp, a, int(step[4:]), bufsz))
                elif step == 'shut':
                    side.outq.append('shut')
                    side.closeish = side.closeish or 'shut'
                elif step == 'fin':
                    side.outq.append('fin')
                    side.closeish = side.closeish or 'fin'
                elif step == 'close':
                    side.outq.append('fin')
                elif step == 'rst':
                    side.closeish = side.closeish or 'rst'
                    side.outq = []
                    side.conn.rst()
                    side.closed = True
            v = settle_checked(label)
            res['transitions'] += 1
            snapshot(label)
            if trace is not None:
                trace.append(tr[-1])
        if v is None:
            # blocked writers whose peer never drained are legitimate; everything else must have been flushed
            v = settle_checked('end')
            snapshot('end')
        res['violation'] = v
        res['outcome'] = 'violation' if v else 'relayed'
    finally:
        for s in all_sides():
            if not s.closed:
                s.conn.rst() if bp else s.conn.close()
                s.closed = True
        for c in lst.accept_all():
            c.close()
        sq.settle(2)
    res['transcript'] = tr
    res['states'] = states
    res['choices'] = ch.choices()
    res['facts'] = sorted(res['facts'])
    return res


# ------------------------------------------------------------------ run / shard / report

class TunnelWorld(ls.World):
    """World + a second server listener whose sockets have small fixed buffers (back-pressure class)."""

    def __init__(self, ctx, name, port_base):
        ls.World.__init__(self, ctx, name, port_base)
        self.origin_bp = ls.Listener(port_base + 2)
        self.origin_bp.s.setsockopt(socket.IPPROTO_TCP, socket.TCP_MAXSEG, BP_MSS)
        for opt in (socket.SO_RCVBUF, socket.SO_SNDBUF):
            self.origin_bp.s.setsockopt(socket.SOL_SOCKET, opt, BP_SOCKBUF)

    def stop(self):
        try:
            ls.World.stop(self)
        finally:
            self.origin_bp.close()


def make_world(ctx, shard):
    return TunnelWorld(ctx, 'w%d' % shard, ls.port_base_for_check(ctx.pid, shard))


ASSUME = ['the real squid binary (ASan build of the current tree) runs under the lock-step/virtual-time shim; client and TCP server are played by the driver',
          'each environment action is followed by running Squid to quiescence (kick until no driver socket makes progress), so interleavings are at the granularity of whole driver actions; '
          'races between an action and a half-finished Squid reaction to the previous one are not explored',
          'loopback TCP: what a side "sent" is what its kernel accepted; a shutdown(WR) counts as that side closing (Squid does not keep half-closed tunnels)',
          'virtual time does not advance during an execution (no timeouts fire)']


def run(ctx):
    ls.build_squid(ctx)
    bufsz = tunnel_bufsize(ctx)
    specs = specs_for(ctx.tier)
    items = []
    per_spec = {}
    for si, sp in enumerate(specs):
        scheds = enumerate_schedules(sp)
        per_spec[spec_name(sp)] = len(scheds)
        for choices, labels in scheds:
            items.append((ex.deviations(choices), si, choices))
    items.sort(key=lambda t: (t[0], t[1], t[2]))
    t_end = ctx.t0 + ctx.deadline_s - 15
    det_n = 4

    def worker(shard, mine):
        out = {'done': [], 'states': set(), 'transitions': 0, 'violations': [], 'facts': {}, 'kicks': 0, 'replays': 0,
               'samples': [], 'crashes': [], 'deadline': False, 'outcomes': {}, 'unconfirmed': {}}
        st = {'w': None}

        def fresh():
            if st['w'] is not None:
                out['kicks'] += st['w'].sq.kicks
                st['w'].stop()
            st['w'] = make_world(ctx, shard)
            st['w'].start()

        def one(item):
            dev, si, choices = item
            r = execute(st['w'], specs[si], choices, bufsz)
            hp = st['w'].sq.health_problems()
            if hp:
                r['crash'] = hp
                fresh()
            return r
        try:
            fresh()
            first = [one(it) for it in mine[:det_n]]
            out['replays'] += len(first)
            fresh()
            for n, it in enumerate(mine):
                if time.time() > t_end:
                    out['deadline'] = True
                    break
                r = one(it)
                sp = specs[it[1]]
                if r.get('crash') or (n < len(first) and first[n].get('crash')):
                    # a crashed Squid is a verdict by itself; transcripts of such executions are not comparable
                    if r.get('crash'):
                        out['crashes'].append((spec_name(sp), it[2], '; '.join(r['crash'])[:2000]))
                    out['done'].append((it[0], it[1]))
                    out['outcomes']['squid-crashed'] = out['outcomes'].get('squid-crashed', 0) + 1
                    if len(out['crashes']) >= 5:
                        out['deadline'] = True
                        break
                    continue
                if n < len(first) and (first[n]['transcript'] != r['transcript']):
                    raise HarnessError('nondeterminism: %s %r gave different transcripts on two instances:\n%r\n%r' % (
                        spec_name(sp), it[2], first[n]['transcript'], r['transcript']))
                out['done'].append((it[0], it[1]))
                out['states'].update(r['states'])
                out['transitions'] += r['transitions']
                for f in r['facts']:
                    out['facts'][f] = out['facts'].get(f, 0) + 1
                out['outcomes'][r['outcome']] = out['outcomes'].get(r['outcome'], 0) + 1
                if len(out['samples']) < 1 and n % 53 == 7:
                    out['samples'].append({'spec': spec_name(sp), 'choices': it[2], 'transcript': r['transcript']})
                if r['violation']:
                    key, what = r['violation']
                    if not any(k == key for k, _, _ in out['violations']) and not (key in out['unconfirmed'] and out['unconfirmed'][key] >= 3):
                        # replay twice (first on a fresh instance) before reporting
                        confirmed = True
                        for attempt in range(2):
                            if attempt == 0:
                                fresh()
                            r2 = one(it)
                            out['replays'] += 1
                            if r2.get('crash'):
                                out['crashes'].append((spec_name(sp), it[2], '; '.join(r2['crash'])[:2000]))
                                confirmed = False
                                break
                            if not r2['violation'] or r2['violation'][0] != key:
                                if sp['cls'] in KERNEL_DEPENDENT_CLASSES and key.startswith('lost:'):
                                    # the asym classes rely on how much the kernel keeps in Squid's socket send queue; under heavy
                                    # machine load that varies, so an unconfirmed loss there is an observation, not a verdict
                                    out['unconfirmed'][key] = out['unconfirmed'].get(key, 0) + 1
                                    confirmed = False
                                    break
                                raise HarnessError('violation not reproducible: %s %r: %s / replay gave %r' % (spec_name(sp), it[2], what, r2['violation']))
                        if confirmed:
                            out['violations'].append((key, what, {'spec': sp, 'choices': it[2], 'bufsz': bufsz}))
                    if len(out['violations']) >= 8:
                        out['deadline'] = True
                        break
        finally:
            if st['w'] is not None:
                out['kicks'] += st['w'].sq.kicks
                st['w'].stop()
        out['states'] = list(out['states'])
        return out

    parts = ls.run_sharded(ctx, worker, items)
    states = set()
    done = {}
    tot = {'transitions': 0, 'kicks': 0, 'replays': 0, 'execs': 0}
    facts, outcomes, vio, crashes, samples = {}, {}, {}, [], []
    unconfirmed = {}
    deadline = False
    for p in parts:
        if p is None:
            continue
        states.update(p['states'])
        tot['transitions'] += p['transitions']
        tot['kicks'] += p['kicks']
        tot['replays'] += p['replays']
        tot['execs'] += len(p['done'])
        deadline = deadline or p['deadline']
        for d in p['done']:
            done[d[0]] = done.get(d[0], 0) + 1
        for k, n in p['facts'].items():
            facts[k] = facts.get(k, 0) + n
        for k, n in p['outcomes'].items():
            outcomes[k] = outcomes.get(k, 0) + n
        for k, what, rp in p['violations']:
            vio.setdefault(k, (what, rp))
        crashes += p['crashes']
        samples += p['samples']
        for k, n in p['unconfirmed'].items():
            unconfirmed[k] = unconfirmed.get(k, 0) + n
    total_by_dev = {}
    for dev, si, choices in items:
        total_by_dev[dev] = total_by_dev.get(dev, 0) + 1
    bound = -1
    for k in sorted(total_by_dev):
        if done.get(k, 0) == total_by_dev[k]:
            bound = k
        else:
            break
    complete = tot['execs'] == len(items)
    violations = [Violation(k, what, rp) for k, (what, rp) in sorted(vio.items())]
    for name, choices, what in crashes:
        mk = re.search(r'AddressSanitizer: ([\w-]+)|(assertion failed: [^\n"]{0,80})|(FATAL: [^\n"]{0,60})', what)
        kind = (mk.group(1) or mk.group(2) or mk.group(3)) if mk else 'exit'
        violations.append(Violation('crash:%s:%s' % (name.split('/')[0], kind), 'squid crashed/asserted during %s %r: %s' % (name, choices, what),
                                    {'spec': None, 'name': name, 'choices': choices}))
    if complete and not [v for v in violations if v.key.split(':')[0] != 'lost']:
        need = ['s2c:delivered', 'c2s:delivered', 's2c:delivered-after-sender-close', 'c2s:delivered-after-sender-close']
        miss = [f for f in need if facts.get(f, 0) < 10]
        if miss:
            raise HarnessError('vacuity guard: too few executions with %s: %r' % (miss, facts))
    cov = {
        'states': len(states), 'transitions': tot['transitions'], 'traces_validated_against_impl': tot['execs'],
        'executions_total_in_space': len(items), 'specs': len(specs), 'schedules_per_spec': per_spec,
        'bound_completed': ('all interleavings (max %d preemptions)' % max(total_by_dev)) if complete else '%d preemptions' % bound,
        'exhaustive': complete and not deadline, 'executions_by_deviation_count': {str(k): done.get(k, 0) for k in sorted(total_by_dev)},
        'kicks': tot['kicks'], 'determinism_replays': tot['replays'], 'outcome_classes': outcomes, 'delivery_facts': facts,
        'tunnel_buffer_bytes': bufsz, 'bp_chunk_bytes': BP_CHUNK,
        'rule': 'spec = chunk class {1 byte, tunnel buffer+1, back-pressure (%d KiB chunks, receivers start reading late), asymmetric (24 KiB one way against a blocked %d KiB the other way)%s} x early bytes {with CONNECT head, after 200} x client close style x server close style; '
                'per spec every interleaving of client script [a1..an, close] and server script [b1..bn, close] (+ the two "start reading" actions in the back-pressure class) is executed' % (
                    BP_CHUNK // 1024, BP_CHUNK // 1024, '' if ctx.quick else ', mixed sizes'),
        'samples': samples[:6],
    }
    obs = ['%d executions with key %s showed a loss that did not reproduce on replay (kernel send-queue state differs under load)' % (n, k)
           for k, n in sorted(unconfirmed.items())]
    return Result(LEVEL, cov, violations, ASSUME, obs)


def replay(ctx, data):
    ls.build_squid(ctx)
    sp = data.get('spec')
    if not sp:
        raise HarnessError('this replay file records a crash; re-run the tier to reproduce')
    w = make_world(ctx, 0)
    w.start()
    try:
        trace = []
        r = execute(w, sp, data['choices'], data.get('bufsz') or tunnel_bufsize(ctx), trace=trace)
        print('\n'.join(r['transcript']))
        hp = w.sq.health_problems()
        if hp:
            print('squid problems:', hp)
    finally:
        w.stop()
    v = [Violation(r['violation'][0], r['violation'][1], data)] if r['violation'] else []
    return Result(LEVEL, {}, v, ASSUME)
