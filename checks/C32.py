"""C32 HTML quoting neutralises markup and is reversible — E1, exhaustive strings over a metacharacter alphabet + all byte pairs."""
from vverif import seq
from vverif.core import Result, HarnessError

LEVEL = 'exploration'
RULE = ('(a) every string of length <= L (L=4 quick, 5 thorough) over the 16 symbols < > " \' & ; # a l t g 0 x SP 0x01 0xE9; '
        '(b) every single byte and every pair of bytes 1..255 (thorough: also every triple whose first byte is one of 11 '
        'metacharacter / control / 8-bit / plain representatives); (c) 11 repeating units blown up to 10 lengths between 1 and '
        '20000 (thorough 65536) bytes in an up-down-up order. Each string goes through html_quote from an exact-size heap block; '
        'the result must consist of plain characters other than < > " \' & and of entity references &lt; &gt; &quot; &apos; &amp; '
        '&#1;..&#255; only, and a reference entity decoder must give back the original. non-trivial = strings for which '
        'html_quote had to produce at least one entity reference')
ASSUME = ['src/html/Quoting.cc is recompiled from the scratch copy of the current tree with -fsanitize=address,undefined; '
          'html_quote sizes its static result buffer exactly (xcalloc(6n+1)) so ASan is the out-of-bounds oracle for it',
          'inputs are C strings: the NUL byte cannot occur']


def _build(ctx):
    return seq.build(ctx, 'tests/testHtmlQuote', ['C32_html.cc'], tree_sources=['html/Quoting.cc'],
                     tree_flags=['-fsanitize=undefined', '-fno-sanitize-recover=undefined'])


def run(ctx):
    exe = _build(ctx)
    m = seq.run(ctx, exe)
    cov = seq.coverage_from(m, RULE, nontrivial_classes=['quoted-something'], min_classes=2)
    c = m['counters']
    if not m['deadline_hit']:
        if m['outcomes'].get('quoted-something', 0) < 1000 or m['outcomes'].get('passed-through', 0) < 100:
            raise HarnessError('vacuity guard: outcome classes %r' % m['outcomes'])
        if c.get('entity_references_decoded', 0) < 10000 or c.get('result_buffer_growths', 0) < 5:
            raise HarnessError('vacuity guard: counters %r' % c)
    for k in ('strings_quoted', 'input_bytes', 'entity_references_decoded'):
        cov[k] = c.get(k, 0)
    return Result(LEVEL, cov, seq.violations_from(m), ASSUME)


def replay(ctx, data):
    exe = _build(ctx)
    m = seq.replay_case(ctx, exe, data['case'])
    m.setdefault('deadline_hit', False)
    return Result(LEVEL, {}, seq.violations_from(m), ASSUME)
