"""C63 Forwarding loops and Max-Forwards — E3, bounded input product.

Part 1 (loops): every Via list of <= 3 elements built from one "own" element form (the exact element this
Squid appends, learnt at run time from a baseline request; without comment; with another comment; upper
case; with protocol name; with another protocol version), near-miss names and foreign elements, with the
own element at every position, in three list syntaxes (", " / "," / one Via field per element).
Oracle: the received-by part of some element equals this Squid's name (case-insensitively, comment
irrelevant: RFC 9110 7.6.3 lets any recipient strip comments) => nothing reaches the origin and the client
gets an error; otherwise the request is expected to be forwarded (vacuity guard only).

Part 2 (Max-Forwards): methods {TRACE, OPTIONS, GET} x Max-Forwards values.
Oracle (RFC 9110 7.6.2 as quoted by the statement): TRACE/OPTIONS with a valid value of zero => answered
by Squid, zero origin arrivals; valid n > 0 and forwarded => upstream carries exactly one Max-Forwards,
1*DIGIT, equal to n-1 (for n beyond 2^31: any value <= n-1, "the lesser of n-1 and the recipient's maximum").
"""
import re

from vverif import lockstep as ls
from vverif import httpref
from vverif.lsutil import RetryWorld, written_out_samples
from vverif.core import Result, Violation, HarnessError

LEVEL = 'exploration'

OWN_FORMS = ['full', 'no-comment', 'other-comment', 'upper', 'upper-no-comment', 'proto-name', 'version-1.0', 'version-2']
NEAR = ['prefix-x', 'suffix-x', 'suffix-label', 'prefix-label', 'truncated', 'with-port']
OTHERS = ['1.1 proxy-a.example (squid/9.9)', '1.0 fred', '1.1 p.example.net:8080 (Apache/1.1)']
SYNTAX = ['comma-sp', 'comma', 'fields']

MF_VALUES = [None, '0', '1', '2', '00', '007', '10', '+1', '-1', '-0', 'x', '', ' 0 ', '1 ', '0x1', '1.0', '0, 5', '5, 0',
             str(2 ** 31 - 1), str(2 ** 31), str(2 ** 32), str(2 ** 32 + 1), str(2 ** 63 - 1), str(2 ** 63), str(2 ** 64), str(2 ** 64 + 1)]
MF_DUP = [('0', '5'), ('5', '0'), ('3', '3')]            # two Max-Forwards fields
METHODS = ['TRACE', 'OPTIONS', 'GET']


def own_element(form, name, full):
    """full = the element Squid itself appends, e.g. '1.1 squid.verif (squid/7.0)'."""
    ver, rest = full.split(' ', 1)
    comment = rest[len(name):].strip()
    if form == 'full':
        return full
    if form == 'no-comment':
        return '%s %s' % (ver, name)
    if form == 'other-comment':
        return '%s %s (some other product)' % (ver, name)
    if form == 'upper':
        return '%s %s %s' % (ver, name.upper(), comment)
    if form == 'upper-no-comment':
        return '%s %s' % (ver, name.upper())
    if form == 'proto-name':
        return 'HTTP/%s %s %s' % (ver, name, comment)
    if form == 'version-1.0':
        return '1.0 %s %s' % (name, comment)
    if form == 'version-2':
        return '2 %s %s' % (name, comment)
    raise HarnessError(form)


def near_element(form, name, full):
    ver, rest = full.split(' ', 1)
    comment = rest[len(name):].strip()
    nm = {'prefix-x': 'x' + name, 'suffix-x': name + 'x', 'suffix-label': name + '.example', 'prefix-label': 'a.' + name,
          'truncated': name[:-1], 'with-port': name + ':3128'}[form]
    return '%s %s %s' % (ver, nm, comment)


def received_by(element):
    """RFC 9110 7.6.3: Via = #( received-protocol RWS received-by [ RWS comment ] ) -> received-by or None."""
    m = re.match(r'^\s*(?:[!#$%&\'*+\-.^_`|~0-9A-Za-z]+/)?[!#$%&\'*+\-.^_`|~0-9A-Za-z]+[ \t]+([^ \t(),]+)(?:[ \t]+\(.*\))?\s*$', element)
    return m.group(1) if m else None


def all_cases(quick):
    cases = []
    n = 1000
    # --- Via lists
    fillers = OTHERS
    for form in OWN_FORMS + ['near:' + x for x in NEAR] + ['none']:
        for length in (1, 2, 3):
            positions = range(length) if form != 'none' else [None]
            for pos in positions:
                for syn in SYNTAX:
                    if length == 1 and syn != 'comma-sp':
                        continue
                    if quick and syn == 'comma' and length == 3:
                        continue
                    n += 1
                    cases.append({'n': n, 'kind': 'via', 'form': form, 'len': length, 'pos': pos, 'syntax': syn})
    # --- Max-Forwards
    for method in METHODS:
        for v in MF_VALUES:
            n += 1
            cases.append({'n': n, 'kind': 'mf', 'method': method, 'mf': v})
        for a, b in MF_DUP:
            n += 1
            cases.append({'n': n, 'kind': 'mf', 'method': method, 'mf': [a, b]})
    if not quick:
        # Max-Forwards together with a Via list (own element absent / present), and every value 0..20
        for method in ('TRACE', 'OPTIONS'):
            for v in [str(i) for i in range(3, 21)]:
                n += 1
                cases.append({'n': n, 'kind': 'mf', 'method': method, 'mf': v})
            for v in ('0', '1', '5'):
                for via in ('other', 'own'):
                    n += 1
                    cases.append({'n': n, 'kind': 'mf', 'method': method, 'mf': v, 'via': via})
        # longer lists: own element somewhere in a list of 4..6, all own forms
        for form in OWN_FORMS:
            for length in (4, 6):
                for pos in range(length):
                    n += 1
                    cases.append({'n': n, 'kind': 'via', 'form': form, 'len': length, 'pos': pos, 'syntax': 'comma-sp'})
    return cases


# ------------------------------------------------------------------ one execution

def make_world(ctx, shard):
    w = RetryWorld(ctx, 'w%d' % shard, ls.port_base_for_check(ctx.pid, shard))
    w.own = None
    return w


def ok_response(w, m):
    body = b'R:' + m.target
    allow = 'Allow: GET, HEAD, OPTIONS, TRACE\r\n' if m.method == b'OPTIONS' else ''
    return ('HTTP/1.1 200 OK\r\nDate: %s\r\nContent-Length: %d\r\nCache-Control: no-store\r\n%s\r\n' % (
        ls.http_date(w.sq.now_us), len(body), allow)).encode('latin1') + body


def learn_own(w):
    """What this Squid calls itself: the element it appends to Via on a plain request."""
    if w.own:
        return w.own
    ex = w.fetch(('GET %s HTTP/1.1\r\nHost: %s\r\n\r\n' % (w.url('/baseline'), w.hostport())).encode(), lambda m: ok_response(w, m))
    w.close_origin_conns()
    if len(ex.origin_requests) != 1:
        raise HarnessError('baseline request not forwarded: %r' % ex.client_bytes[:200])
    via = ex.origin_requests[0].get_all('via')
    if len(via) != 1 or ',' in via[0]:
        raise HarnessError('baseline upstream Via is %r' % via)
    full = via[0].strip()
    name = received_by(full)
    if not name or name.lower() != 'squid.verif':
        raise HarnessError('own Via element %r does not carry the configured visible_hostname' % full)
    w.own = (name, full)
    return w.own


def via_lines(case, name, full):
    form = case['form']
    if form == 'none':
        own = None
    elif form.startswith('near:'):
        own = near_element(form[5:], name, full)
    else:
        own = own_element(form, name, full)
    els = []
    fi = 0
    for i in range(case['len']):
        if own is not None and i == case['pos']:
            els.append(own)
        else:
            els.append(OTHERS[fi % len(OTHERS)])
            fi += 1
    if case['syntax'] == 'comma-sp':
        return ['Via: ' + ', '.join(els)], els
    if case['syntax'] == 'comma':
        return ['Via: ' + ','.join(els)], els
    return ['Via: ' + e for e in els], els


def run_case(w, case):
    name, full = learn_own(w)
    n = case['n']
    if case['kind'] == 'via':
        lines, els = via_lines(case, name, full)
        method = 'GET'
    else:
        method = case['method']
        mf = case['mf']
        lines = []
        if isinstance(mf, list):
            lines += ['Max-Forwards: %s' % x for x in mf]
        elif mf is not None:
            lines.append('Max-Forwards:%s%s' % ('' if mf.startswith(' ') or mf == '' else ' ', mf))
        els = []
        if case.get('via') == 'other':
            lines.append('Via: ' + OTHERS[0])
            els = [OTHERS[0]]
        elif case.get('via') == 'own':
            lines.append('Via: ' + OTHERS[0] + ', ' + full)
            els = [OTHERS[0], full]
    req = ('%s %s HTTP/1.1\r\nHost: %s\r\n' % (method, w.url('/c%d' % n), w.hostport())) + ''.join(l + '\r\n' for l in lines) + '\r\n'
    ex = w.fetch(req.encode('latin1'), lambda m: ok_response(w, m), method=method)
    w.close_origin_conns()
    status = ex.response.status if ex.response and ex.response.status else 0
    arrivals = len(ex.origin_requests)
    answered = bool(ex.response and ex.response.complete and not ex.response.error)
    tr = b'O:' + ex.origin_raw + b'\nC:' + ex.client_bytes
    vio = None
    names_me = any((received_by(e) or '').lower() == name.lower() for e in els)
    if case['kind'] == 'via':
        if names_me:
            oc = 'via:own(%s):%s' % (case['form'], 'blocked-%s' % status if not arrivals else 'FORWARDED')
            if arrivals or ex.origin_raw:
                vio = ('loop-forwarded:' + case['form'],
                       'a request whose Via list %r names this Squid (%s, element form %s at position %d of %d, syntax %s) was forwarded to the origin' % (
                           els, name, case['form'], case['pos'], case['len'], case['syntax']))
            elif status < 400:
                vio = ('loop-not-refused:' + case['form'], 'looping request got status %s' % status)
        else:
            oc = 'via:%s:%s' % ('near-miss' if case['form'].startswith('near:') else 'foreign', 'forwarded' if arrivals == 1 and status == 200 else 'refused-%s' % status)
            if arrivals == 1:
                # Squid appends itself exactly once, at the end, and keeps what it received
                up = ', '.join(ex.origin_requests[0].get_all('via'))
                got = [e.strip() for e in up.split(',')]
                if got[-1] != full or [received_by(e) for e in got[:-1]] != [received_by(e) for e in els]:
                    oc += '(via-rewritten)'
        return {'outcome': oc, 'violation': vio[1] if vio else None, 'key': vio[0] if vio else None, 'transcript': tr, 'sent': req.encode('latin1')}
    # Max-Forwards
    mf = case['mf']
    vals = mf if isinstance(mf, list) else ([] if mf is None else [mf])
    stripped = [v.strip(' \t') for v in vals]
    valid = len(stripped) == 1 and re.match(r'^[0-9]+$', stripped[0]) is not None
    value = int(stripped[0]) if valid else None
    up_mf = [m.get_all('max-forwards') for m in ex.origin_requests]
    klass = 'absent' if not vals else ('zero' if valid and value == 0 else 'positive' if valid else 'invalid')
    if names_me:
        klass += '+own-via'
    oc = 'mf:%s:%s:%s' % (method, klass, ('forwarded' if arrivals else 'local-%s' % status))
    if method in ('TRACE', 'OPTIONS') and valid:
        if value == 0:
            if arrivals or ex.origin_raw:
                vio = ('mf-zero-forwarded:' + method, '%s with Max-Forwards: %r was forwarded to the origin (upstream Max-Forwards %r)' % (method, mf, up_mf))
            elif not answered:
                vio = ('mf-zero-unanswered:' + method, '%s with Max-Forwards: %r was neither forwarded nor answered (client bytes %r)' % (method, mf, ex.client_bytes[:80]))
        elif arrivals:
            got = up_mf[0]
            big = value >= 2 ** 31
            okv = len(got) == 1 and re.match(r'^[0-9]+$', got[0]) and (int(got[0]) == value - 1 or (big and int(got[0]) <= value - 1))
            if not okv:
                vio = ('mf-not-decremented:%s:%s' % (method, 'beyond-int64' if value >= 2 ** 63 else 'beyond-int32' if big else 'small'),
                       '%s with Max-Forwards: %s was forwarded with Max-Forwards %r instead of %d' % (method, mf, got, value - 1))
    if arrivals and method in ('TRACE', 'OPTIONS') and up_mf[0] and not all(re.match(r'^[0-9]+$', x) for x in up_mf[0]):
        oc += '(upstream-mf-malformed)'
    return {'outcome': oc, 'violation': vio[1] if vio else None, 'key': vio[0] if vio else None, 'transcript': tr, 'sent': req.encode('latin1')}


_last_key = {}


def run_case_recording(w, case):
    r = run_case(w, case)
    if r.get('key'):
        _last_key[case['n']] = r['key']
    return r


def key_of(case):
    return _last_key.get(case['n'], 'case:%d' % case['n'])


ASSUME = ['the real squid binary (ASan build of the current tree) runs under the lock-step/virtual-time shim; client and origin are played by the driver',
          'this Squid\'s name is learnt from the Via element it appends to a baseline request (visible_hostname squid.verif); "names this Squid" = the '
          'received-by part of a Via element equals that name case-insensitively, whatever protocol version or comment the element carries',
          'forward-proxy mode, default via on, http_access allow all (TRACE allowed)']
RULE = ('Via lists of 1..3 elements (thorough: also 4 and 6) x own-element form (8) / near-miss name (6) / none x position x list syntax (", " | "," | one field per '
        'element); methods {TRACE, OPTIONS, GET} x 26 Max-Forwards values (absent, 0, 00, 1, 2, 10, signs, hex, OWS, lists, 2^31-1 .. 2^64+1) + duplicate fields '
        '(thorough: every value 0..20 and combinations with a Via list); non-trivial = cases in which Squid either forwarded the request (and the upstream '
        'Via / Max-Forwards were compared) or answered it itself because of the Via list / Max-Forwards value')


def run(ctx):
    ls.build_squid(ctx)
    cases = all_cases(ctx.quick)
    r = ls.run_cases(ctx, cases, run_case_recording, make_world, key_of=key_of, determinism_n=8)
    oc = r['outcomes']
    blocked = sum(v for k, v in oc.items() if k.startswith('via:own') and 'blocked' in k)
    fwd = sum(v for k, v in oc.items() if k.endswith(':forwarded') or ':forwarded(' in k)
    local = sum(v for k, v in oc.items() if k.startswith('mf:') and ':local-' in k)
    flagged = sum(v for k, v in oc.items() if 'FORWARDED' in k)
    if not r['deadline_hit'] and not r['violations']:
        if blocked < 5 or fwd < 20 or local < 4:
            raise HarnessError('vacuity guard: blocked=%d forwarded=%d answered-locally=%d: %r' % (blocked, fwd, local, oc))
        if not any(k.startswith('mf:TRACE:positive:forwarded') for k in oc) or not any(k.startswith('mf:OPTIONS:positive:forwarded') for k in oc):
            raise HarnessError('vacuity guard: no TRACE/OPTIONS with a positive Max-Forwards was forwarded: %r' % oc)
        if any(k.startswith('via:near-miss:refused') or k.startswith('via:foreign:refused') for k in oc):
            raise HarnessError('vacuity guard: requests whose Via does not name this Squid were refused: %r' % oc)
    vio = []
    seen = set()
    for k, what, c in r['violations']:
        if k in seen:
            continue
        seen.add(k)
        vio.append(Violation(k, what, {'case': c}))
    obs = ['squid problem during %s: %s' % (k, what[:300]) for k, what, c in r['crashes']]
    vio += [Violation('crash:' + k, 'squid crashed/asserted during case %r: %s' % (c, what), {'case': c}) for k, what, c in r['crashes']]
    def pick(**kw):
        for c in cases:
            if all(c.get(k) == v for k, v in kw.items()):
                return c
    picked = [c for c in (pick(kind='via', form='no-comment', len=3, pos=1, syntax='comma-sp'), pick(kind='via', form='upper', len=2, pos=1, syntax='fields'),
                          pick(kind='via', form='near:suffix-label', len=1), pick(kind='via', form='none', len=3),
                          pick(kind='mf', method='TRACE', mf='0'), pick(kind='mf', method='TRACE', mf='2'),
                          pick(kind='mf', method='OPTIONS', mf=str(2 ** 63)), pick(kind='mf', method='OPTIONS', mf='00')) if c]

    def describe(c, rr):
        o, cl = (rr['transcript'].split(b'\nC:', 1) + [b''])[:2]
        hdrs = [l.decode('latin1') for l in o.split(b'\r\n') if l.lower().startswith((b'via:', b'max-forwards:'))]
        sent = [l.decode('latin1') for l in rr.get('sent', b'').split(b'\r\n') if l.lower().startswith((b'via:', b'max-forwards:'))]
        return {'client_sent': sent, 'origin_saw': hdrs if len(o) > 2 else 'nothing', 'client_got': repr(cl[:24])}
    samples = written_out_samples(ctx, make_world(ctx, 0), run_case, picked, describe) or r['samples']
    cov = {'evaluations': r['evaluations'], 'distinct_nontrivial': blocked + fwd + local + flagged, 'rule': RULE, 'samples': samples,
           'outcome_classes': oc, 'exhaustive': not r['deadline_hit'] and r['evaluations'] == len(cases), 'kicks': r['kicks'],
           'determinism_replays': r['replays'], 'cases_total': len(cases)}
    return Result(LEVEL, cov, vio, ASSUME, obs)


def replay(ctx, data):
    ls.build_squid(ctx)
    w = make_world(ctx, 0)
    w.start()
    try:
        r = run_case(w, data['case'])
        print(r['transcript'].decode('latin1')[:4000])
        print('outcome:', r['outcome'])
    finally:
        w.stop()
    v = [Violation(r['key'], r['violation'], data)] if r['violation'] else []
    return Result(LEVEL, {}, v, ASSUME)
