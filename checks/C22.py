"""C22 Request-line acceptance matches the HTTP grammar — E1, grammar-generated lines x all single-octet mutations vs a reference recogniser."""
from vverif import seq
from vverif.core import Result, HarnessError

LEVEL = 'exploration'
RULE = ('(1) every request line generated from {prefix: none, CRLF[, LF]} x {method: GET, A, all 15 tchar specials, 33 x M[, 32 x M, get, '
        'CONNECT]} x {target: /, http://h/p?q, *[, h:1, /%41/x, /a?b=c&d]} x {version: 1.1, 2.0, 12.1, 0.9, none[, 1.0, 1.10]} x '
        '{terminator: CRLF, LF[, CRCRLF]} ([..] = thorough only) with EVERY single-octet substitution (all 256 values at every position), '
        'every insertion of SP/HTAB/VT/FF/CR/LF/NUL at every position and every single deletion; (2) every string of <= 4 (quick) / 5 '
        '(thorough) tokens over 22 tokens (methods, delimiters, CR, LF, CRLF, targets, HTTP/1.1, HTTP/0.9, HTTP/12.1, "HTTP/", "1", ".", '
        '"%", 0x80, NUL, "<"); (3) targets of 65534..65537 bytes; each input is parsed once by Http1::RequestParser with '
        'relaxed_header_parser off and on and compared (accept / not accept, method, target, version) with a reference recogniser of the '
        'RFC 9112 request-line (+ RFC 1945 simple-request) grammar resp. the documented relaxed tolerances. non-trivial = (input, mode) '
        'pairs that were accepted, or rejected although the line starts with a method character and is complete; inputs are distinct '
        'within one base line (a mutant of one base line may coincide with a mutant of another)')
ASSUME = ['the request-target is judged on the character level (RFC 3986 characters; relaxed: + delimiters, RFC 2396 unwise, >= 0x80): '
          'RequestParser decides nothing else; targets outside the four RFC 9112 forms are counted (accepted_target_outside_...) but left '
          'to the URL-parsing stage',
          'HTTP/0.9 simple requests ("GET" SP target CRLF without version field) belong to the accepted language in both modes '
          '(documented in RequestParser.cc and tests/testHttp1Parser.cc)',
          'a version field with multi-digit numbers is reported by Squid as accepted with version 0.0, which its caller answers with '
          '505; this is counted as a rejection',
          'a complete malformed line that Squid neither accepts nor rejects (strict mode, input starting with LF) satisfies the '
          'property as stated (not accepted); it is counted in complete_invalid_line_left_undecided_by_squid',
          'in relaxed mode the target is compared modulo trailing delimiter octets and the method case-insensitively '
          '(Squid documents that it corrects the case of registered methods)']


def _build(ctx):
    return seq.build(ctx, 'tests/testHttp1Parser', ['C22_reqline.cc'])


def run(ctx):
    exe = _build(ctx)
    m = seq.run(ctx, exe)
    oc = m['outcomes']
    nontriv = [k for k in oc if ':accept:' in k or k.endswith('reject:malformed-line') or ':reject:uri-too-long' in k]
    cov = seq.coverage_from(m, RULE, nontrivial_classes=nontriv, min_classes=6)
    c = m['counters']
    cov['evaluations'] = c.get('inputs_x_modes', 0)
    cov['cases'] = m['evaluations']
    if not m['deadline_hit']:
        def n(*names):
            return sum(oc.get(x, 0) for x in names)
        sa = n('strict:accept:request-line', 'strict:accept:simple-request')
        ra = n('relaxed:accept:request-line', 'relaxed:accept:simple-request')
        guards = {'strict accepts': (sa, 1000), 'relaxed-only accepts': (ra - sa, 1000),
                  'strict simple-request accepts': (n('strict:accept:simple-request'), 50),
                  'strict malformed-line rejects': (n('strict:reject:malformed-line'), 1000),
                  'relaxed malformed-line rejects': (n('relaxed:reject:malformed-line'), 1000),
                  'URI-limit rejects with 414': (n('strict:reject:uri-too-long-414', 'relaxed:reject:uri-too-long-414'), 4)}
        for what, (have, need) in guards.items():
            if have < need:
                raise HarnessError('vacuity guard: %s = %d (< %d): %r' % (what, have, need, oc))
    for k in ('parser_calls', 'accepted_target_outside_the_four_rfc9112_forms', 'complete_invalid_line_left_undecided_by_squid',
              'multi_digit_version_reported_as_0.0'):
        cov[k] = c.get(k, 0)
    return Result(LEVEL, cov, seq.violations_from(m), ASSUME)


def replay(ctx, data):
    exe = _build(ctx)
    m = seq.replay_case(ctx, exe, data['case'])
    m.setdefault('deadline_hit', False)
    return Result(LEVEL, {}, seq.violations_from(m), ASSUME)
