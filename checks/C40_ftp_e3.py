"""C40 (wire half) FTP address replies and listings through the gateway — E3, bounded input product.

The real (ASan) squid binary runs in lock-step between a driver-played HTTP client and a driver-played FTP
server (control connection + passive data listener).  Families:
  pasv   227 replies: every single-component mutation of (127,0,0,1,p1,p2) into an out-of-range / non-numeric value
         whose wrapped reading would still be the server's real data port
  epsv   229 replies: port and delimiter variants incl. port+65536, port+2^32 (wrap to the real data port)
  list   directory listings: seed lines of every supported format with every single token edit, and a set of seed /
         hostile lines between two marker lines delivered in two segments cut at every byte position
  ctrl   hostile control-connection replies (multi-line, very long, bare LF, NUL, no text) at every protocol state
Oracles: (address) Squid opens a data connection to the stub's data port iff the reply is valid by a strict reference
(every component in range, 1 <= port <= 65535); (listing / control text) no sanitizer report, no assertion, no exit,
and the client gets one complete, well-formed HTTP response; the two marker lines of a segmented listing appear exactly
once each.
"""
import re

from vverif import httpref
from vverif import lockstep as ls
from vverif import lsx
from vverif.core import Result, Violation, HarnessError

LEVEL = 'exploration'
PROP = 'C40'


# ------------------------------------------------------------------ the FTP server stub

class FtpStub:
    def __init__(self, ctrl_port, data_port):
        self.ctrl_l = ls.Listener(ctrl_port)
        self.data_l = ls.Listener(data_port)
        self.ctrl_port, self.data_port = ctrl_port, data_port
        self.reset({})

    def reset(self, script):
        """script: state -> reply bytes override ('welcome','USER','PASS','TYPE','CWD','EPSV','PASV','LIST','done'),
        'listing': list of byte segments sent on the data connection (one per round)."""
        for c in getattr(self, 'ctrls', []):
            c.close()
        for c in getattr(self, 'datas', []):
            c.close()
        self.script = script
        self.ctrls = []
        self.datas = []
        self.bufs = {}
        self.cmds = []
        self.data_connects = 0
        self.list_pending = None      # ctrl conn waiting for the transfer
        self.segments = None
        self.sent_segments = 0

    def close(self):
        self.reset({})
        self.ctrl_l.close()
        self.data_l.close()

    def _reply(self, c, state, default):
        r = self.script.get(state, default)
        if r is not None:
            c.send(r)

    def step(self):
        progressed = False
        for c in self.ctrl_l.accept_all():
            self.ctrls.append(c)
            self.bufs[id(c)] = b''
            self._reply(c, 'welcome', b'220 vverif FTP ready\r\n')
            progressed = True
        for c in self.data_l.accept_all():
            self.datas.append(c)
            self.data_connects += 1
            progressed = True
        for c in self.ctrls:
            if c.closed:
                continue
            if c.pump():
                progressed = True
                self.bufs[id(c)] += c.take()
                while b'\r\n' in self.bufs[id(c)]:
                    line, self.bufs[id(c)] = self.bufs[id(c)].split(b'\r\n', 1)
                    self._command(c, line)
            if c.eof and not c.closed:
                c.close()
                progressed = True
        # feed the listing: one segment per round once the data connection exists and LIST was accepted
        if self.list_pending is not None and self.datas:
            d = self.datas[-1]
            if self.sent_segments < len(self.segments):
                if not d.closed:
                    d.send(self.segments[self.sent_segments])
                self.sent_segments += 1
                progressed = True
            else:
                d.close()
                c = self.list_pending
                self.list_pending = None
                if not c.closed:
                    self._reply(c, 'done', b'226 Transfer complete\r\n')
                progressed = True
        return progressed

    def _command(self, c, line):
        self.cmds.append(line)
        verb = line.split(b' ', 1)[0].upper()
        if verb == b'USER':
            self._reply(c, 'USER', b'331 password please\r\n')
        elif verb == b'PASS':
            self._reply(c, 'PASS', b'230 logged in\r\n')
        elif verb == b'TYPE':
            self._reply(c, 'TYPE', b'200 type set\r\n')
        elif verb == b'CWD':
            self._reply(c, 'CWD', b'250 directory changed\r\n')
        elif verb in (b'MDTM', b'SIZE'):
            c.send(b'550 not a plain file\r\n')
        elif verb == b'EPSV':
            self._reply(c, 'EPSV', b'229 Entering Extended Passive Mode (|||%d|)\r\n' % self.data_port)
        elif verb == b'PASV':
            self._reply(c, 'PASV', b'500 PASV not understood\r\n')
        elif verb in (b'EPRT', b'PORT'):
            c.send(b'500 active mode not supported\r\n')
        elif verb in (b'LIST', b'NLST'):
            r = self.script.get('LIST', b'150 here comes the listing\r\n')
            c.send(r)
            if r[:1] == b'1':
                self.list_pending = c
                self.segments = list(self.script.get('listing', [b'-rw-r--r-- 1 ftp ftp 1 Jan 15 1999 only.txt\r\n']))
                self.sent_segments = 0
        elif verb == b'QUIT':
            c.send(b'221 bye\r\n')
            c.close()
        else:
            c.send(b'500 unknown command\r\n')


class FWorld(lsx.RetryWorld):
    def __init__(self, ctx, name, port_base, sanity):
        super().__init__(ctx, name, port_base, conf='ftp_sanitycheck %s\nftp_passive on\nftp_epsv_all off\ncache deny all\n'
                         'read_timeout 30 seconds\nconnect_timeout 10 seconds\n' % ('on' if sanity else 'off'))
        self.ftp = FtpStub(port_base + 2, port_base + 3)

    def _origin_step(self, responder, ex):
        p = super()._origin_step(responder, ex)
        q = self.ftp.step()
        return p or q

    def stop(self):
        try:
            super().stop()
        finally:
            self.ftp.close()


def make_world_for(sanity):
    def make_world(ctx, shard):
        return FWorld(ctx, 'f%d%s' % (shard, 's' if sanity else 'n'), ls.port_base_for_check(PROP, shard), sanity)
    return make_world


# ------------------------------------------------------------------ case space

SEEDS = [
    ('unix-year', ['-rw-r--r--', '1', 'ftp', 'ftp', '1234', 'Jan', '15', '1999', 'file.txt']),
    ('unix-time', ['-rw-r--r--', '1', 'ftp', 'ftp', '1234', 'Dec', '12', '10:30', 'file.txt']),
    ('unix-dir', ['drwxr-xr-x', '2', 'ftp', 'ftp', '4096', 'Feb', '29', '2000', 'pub']),
    ('unix-symlink', ['lrwxrwxrwx', '1', 'ftp', 'ftp', '7', 'Mar', '11', '2001', 'latest', '->', 'v1.2']),
    ('unix-name-with-spaces', ['-rw-r--r--', '1', 'ftp', 'ftp', '0', 'Apr', '10', '09:05', 'my', 'file', 'name']),
    ('unix-nogroup', ['-rw-r--r--', '1', 'ftp', '1234', 'May', '25', '1999', 'file.txt']),
    ('dos-file', ['04-05-70', '09:33PM', '1234', 'FILE.TXT']),
    ('dos-dir', ['04-05-70', '09:33PM', '<DIR>', 'PUB']),
    ('dos-name-with-spaces', ['12-31-99', '11:59AM', '99', 'MY', 'FILE.TXT']),
    ('total', ['total', '1234']),
    ('eplf', ['+i8388621.29609,m824255902,/,\tdev']),
]
TOKS = ['-rw-r--r--', 'drwxr-xr-x', 'lrwxrwxrwx', '1', 'ftp', '1234', 'Jan', 'dec', '5', '12', '1999', '10:30', 'file.txt', '->', 'target',
        '04-05-70', '09:33PM', '<DIR>', 'total', '+', '99999999999999999999', ':', 'A' * 130, '<b>&"x']
HOSTILE = [
    ('long-1030', b'-rw-r--r-- 1 ftp ftp 1 Jan 15 1999 ' + b'L' * 1030),
    ('long-4100', b'-rw-r--r-- 1 ftp ftp 1 Jan 15 1999 ' + b'M' * 4100),
    ('long-9000', b'N' * 9000),
    ('nul-inside', b'-rw-r--r-- 1 ftp ftp 1 Jan 15 1999 nu\x00l.txt'),
    ('markup', b'-rw-r--r-- 1 ftp ftp 1 Jan 15 1999 <script>x</script>&amp;".txt'),
    ('spaces-only', b'     '),
    ('highbit', b'-rw-r--r-- 1 ftp ftp 1 Jan 15 1999 \xff\xfe\x80name'),
    ('dotdot', b'drwxr-xr-x 2 ftp ftp 4096 Feb 29 2000 ..'),
    ('arrow-only', b'lrwxrwxrwx 1 ftp ftp 7 Mar 11 2001 -> '),
    ('percent', b'-rw-r--r-- 1 ftp ftp 1 Jan 15 1999 %s%n%08x.txt'),
]
MARK_A = b'-rw-r--r-- 1 ftp ftp 11 Jan 15 1999 vmk-first-entry.txt'
MARK_B = b'-rw-r--r-- 1 ftp ftp 12 Jan 15 1999 vmk-last-entry.txt'


def token_edits(toks):
    out = []
    n = len(toks)
    for i in range(n):
        for t in TOKS:
            if t != toks[i]:
                out.append(('rep%d=%s' % (i, t[:12]), toks[:i] + [t] + toks[i + 1:], None))
        out.append(('del%d' % i, toks[:i] + toks[i + 1:], None))
    for i in range(n + 1):
        for t in TOKS:
            out.append(('ins%d=%s' % (i, t[:12]), toks[:i] + [t] + toks[i:], None))
    for i in range(1, n):
        for sep in ('  ', '\t', '   '):
            out.append(('sep%d=%r' % (i, sep), toks, (i, sep)))
    return out


def join(toks, sepedit):
    s = ''
    for i, t in enumerate(toks):
        if i:
            s += sepedit[1] if (sepedit and sepedit[0] == i) else ' '
        s += t
    return s


def all_cases(ctx):
    T = not ctx.quick
    cases = []

    def add(fam, **kw):
        c = {'fam': fam, 'n': len(cases)}
        c.update(kw)
        cases.append(c)
    # ---- pasv: single-component mutations (thorough: pairs as well)
    muts = ['+256', '+512', '+65536', '+4294967296', '-1', '-256', 'x', '', '999', '1e2']
    add('pasv', mut=[], sanity=1)
    add('pasv', mut=[], sanity=0)
    for sanity in (1, 0):
        for pos in range(6):
            for m in muts:
                add('pasv', mut=[[pos, m]], sanity=sanity)
        if T:
            for p1 in range(6):
                for p2 in range(p1 + 1, 6):
                    for m1 in ('+256', '-1', '+4294967296'):
                        for m2 in ('+256', '-256', 'x'):
                            add('pasv', mut=[[p1, m1], [p2, m2]], sanity=sanity)
    # ---- epsv
    ports = ['P', 'P+65536', 'P+131072', 'P+4294967296', '0', '65536', '-1', 'x', '', '1023', '65535x', '0P']
    delims = ['||||', '!!!!', '|!||', '||!|', '|||!', '|||', '    ', '|||$']
    for sanity in (1, 0):
        for p in ports:
            for d in (delims if (T or p in ('P', 'P+65536')) else delims[:2]):
                add('epsv', port=p, delim=d, sanity=sanity)
    # ---- list: token edits, one listing per edited line (between the two marker lines)
    for name, toks in SEEDS:
        add('list', seed=name, edit='none', line=join(toks, None), cut=None, eol='\r\n')
        for label, t2, sepedit in token_edits(toks):
            if not T and label.startswith('ins') and not label.endswith(('=->', '=<DIR>', '=total', '=+', '=<b>&"x')):
                continue      # quick: insertions of the format-switching tokens only
            add('list', seed=name, edit=label, line=join(t2, sepedit), cut=None, eol='\r\n')
    # ---- list-split: seed and hostile lines, two segments cut at every byte position
    split_lines = [(n, join(t, None).encode('latin1')) for n, t in SEEDS] + HOSTILE
    if not T:
        keep = ('unix-year', 'unix-symlink', 'dos-file', 'eplf', 'total', 'long-1030', 'long-4100', 'nul-inside', 'markup', 'dotdot')
        split_lines = [x for x in split_lines if x[0] in keep]
    for name, raw in split_lines:
        for eol in (b'\r\n', b'\n') if T else (b'\r\n',):
            full = MARK_A + eol + raw + eol + MARK_B + eol
            if len(full) > 400:
                pts = sorted(set(list(range(1, 90)) + list(range(len(full) - 90, len(full)))
                                 + [len(MARK_A) + len(eol) + k for k in (1023, 1024, 1025, 4095, 4096, 4097) if len(MARK_A) + len(eol) + k < len(full)]))
            else:
                pts = range(1, len(full))
            for cut in pts:
                add('list-split', seed=name, cut=cut, eol=eol.decode('latin1'))
    # ---- ctrl: hostile control replies at every state
    texts = [('plain', b'%d failure text\r\n'), ('multi', b'%d-first line\r\n second <b>line</b>\r\n%d last\r\n'),
             ('multi-nocode', b'%d-first\r\nno code here\r\n%d \r\n'), ('codeonly', b'%d\r\n'), ('barelf', b'%d text\n'),
             ('long-1k', b'%d ' + b'x' * 1000 + b'\r\n'), ('long-8k', b'%d ' + b'y' * 8200 + b'\r\n'),
             ('long-70k', b'%d ' + b'z' * 70000 + b'\r\n'), ('nul', b'%d te\x00xt\r\n'), ('highbit', b'%d \xff\xfe\r\n'),
             ('percent', b'%d %%s%%n%%x\r\n'), ('nodigits', b'hello there\r\n'), ('short-code', b'55 x\r\n'), ('unterminated', b'%d no end of line'),
             ('many-lines', b'%d-start\r\n' + b''.join(b' line %d\r\n' % i for i in range(300)) + b'%d end\r\n')]
    states = [('welcome', 421), ('USER', 530), ('PASS', 530), ('TYPE', 500), ('CWD', 550), ('EPSV', 500), ('LIST', 550), ('done', 451)]
    for st, code in states:
        for tname, tmpl in texts:
            add('ctrl', state=st, text=tname, code=code)
            if T:
                add('ctrl', state=st, text=tname, code=code if code < 500 else 200 + (code % 100))   # a success-class code with hostile text
    CTRL['texts'] = dict(texts)
    return cases


CTRL = {}


def describe(c):
    f = c['fam']
    if f == 'pasv':
        return 'pasv mut=%s sanity=%d' % (c['mut'], c['sanity'])
    if f == 'epsv':
        return 'epsv port=%s delim=%r sanity=%d' % (c['port'], c['delim'], c['sanity'])
    if f == 'list':
        return 'list %s %s line=%r' % (c['seed'], c['edit'], c['line'][:80])
    if f == 'list-split':
        return 'list-split %s cut=%d eol=%r' % (c['seed'], c['cut'], c['eol'])
    return 'ctrl %s %s code=%d' % (c['state'], c['text'], c['code'])


def key_of(c):
    f = c['fam']
    if f == 'pasv':
        return 'ftp-e3:pasv:%s' % ('+'.join('c%d%s' % (p, m) for p, m in c['mut']) or 'valid')
    if f == 'epsv':
        if '+' in c['port']:
            return 'ftp-e3:epsv:port-above-65535'          # one input class: the announced port exceeds 16 bits
        return 'ftp-e3:epsv:port=%s:delim=%s' % (c['port'], c['delim'].replace(' ', '_'))
    if f == 'list':
        return 'ftp-e3:list:%s' % c['seed']
    if f == 'list-split':
        return 'ftp-e3:list-split:%s' % c['seed']
    return 'ftp-e3:ctrl:%s:%s' % (c['state'], c['text'])


# ------------------------------------------------------------------ reference for address replies

def pasv_reply(data_port, mut):
    comps = [127, 0, 0, 1, data_port >> 8, data_port & 255]
    txt = [str(v) for v in comps]
    valid = True
    for pos, m in mut:
        base = comps[pos]
        if m and m[0] in '+-' and m[1:].isdigit():
            v = base + int(m)
            txt[pos] = str(v)
            if not 0 <= v <= 255:
                # the gateway locates the numbers by skipping to the first digit of the reply text, so a sign in
                # front of the FIRST component belongs to the free text: not judged
                valid = None if (pos == 0 and v < 0 and -v <= 255 and valid is not False) else False
            elif valid:
                valid = None          # in range but another value: somebody else's port/address
        else:
            txt[pos] = m
            if not (m.isdigit() and 0 <= int(m) <= 255):
                valid = False
            elif int(m) != base:
                valid = None          # a different but well-formed value: not the stub's port/address
    return ('227 Entering Passive Mode (%s).\r\n' % ','.join(txt)).encode('latin1'), valid


def epsv_reply(data_port, port, delim, sanity):
    p = port.replace('P', str(data_port)) if 'P+' not in port else str(data_port + int(port.split('+')[1]))
    d = delim
    if d.endswith('$'):               # the reply ends right after the port: no closing delimiter, no ")"
        d = d[:-1]
        txt = '229 Entering Extended Passive Mode (%s%s\r\n' % (d[:3], p)
    else:
        txt = '229 Entering Extended Passive Mode (%s%s%s)\r\n' % (d[:3], p, d[3:])
    m = re.match(r'^(.)\1\1([0-9]+)\1$', d[:3] + p + d[3:])
    valid = bool(m) and p.isdigit() and 1 <= int(p) <= 65535 and p == str(int(p))
    if valid and int(p) != data_port:
        valid = None                  # well-formed, but somebody else's port (1023: also "unsafe" with sanitycheck)
    if port == '0P' and m:
        valid = None                  # leading zero: a lenient spelling, not judged
    return txt.encode('latin1'), valid


# ------------------------------------------------------------------ one case

def run_case(w, c):
    f = c['fam']
    script = {}
    expect_connect = None
    if f == 'pasv':
        script['EPSV'] = b'500 EPSV not understood\r\n'
        script['PASV'], valid = pasv_reply(w.ftp.data_port, c['mut'])
        expect_connect = valid
    elif f == 'epsv':
        script['EPSV'], valid = epsv_reply(w.ftp.data_port, c['port'], c['delim'], c['sanity'])
        expect_connect = valid
    elif f == 'list':
        eol = c['eol'].encode('latin1')
        script['listing'] = [MARK_A + eol + c['line'].encode('latin1') + eol + MARK_B + eol]
    elif f == 'list-split':
        eol = c['eol'].encode('latin1')
        raw = dict([(n, join(t, None).encode('latin1')) for n, t in SEEDS] + HOSTILE)[c['seed']]
        full = MARK_A + eol + raw + eol + MARK_B + eol
        script['listing'] = [full[:c['cut']], full[c['cut']:]]
    else:
        tmpl = CTRL['texts'][c['text']]
        script[c['state']] = tmpl.replace(b'%d', b'%d' % c['code']).replace(b'%%', b'%')
    w.ftp.reset(script)
    url = 'ftp://127.0.0.1:%d/dir%d/' % (w.ftp.ctrl_port, c['n'])
    req = ('GET %s HTTP/1.1\r\nHost: 127.0.0.1:%d\r\n\r\n' % (url, w.ftp.ctrl_port)).encode('latin1')
    ex = w.fetch(req, None, max_steps=80, keep_client=True)
    cl = ex.client
    waited = 0
    m = httpref.parse_response(cl.inbuf, 'GET', eof=cl.eof)
    while not cl.eof and not (m.complete and not m.error) and waited < 120:
        w.sq.advance(5000)
        w._origin_step(None, ex)
        waited += 5
        cl.pump()
        m = httpref.parse_response(cl.inbuf, 'GET', eof=cl.eof)
    raw = cl.inbuf
    eof = cl.eof
    cl.close()
    w.sq.settle(1)
    w.ftp.step()
    connects = w.ftp.data_connects
    cmds = [x.split(b' ')[0].decode('latin1') for x in w.ftp.cmds]
    w.ftp.reset({})
    w.sq.settle(1)
    violation = None
    status = m.status if (m.head_complete and not m.error) else 0
    if not raw:
        violation = 'the client received no response (eof=%s, waited %d virtual s)' % (eof, waited)
    elif m.error or not m.complete:
        violation = 'the client-side bytes are not one complete well-formed HTTP response (%s; complete=%s; eof=%s): %r' % (
            m.error, m.complete, eof, raw[:120])
    outcome = '%s:status-%d' % (f, status)
    if not violation and f in ('pasv', 'epsv'):
        if expect_connect is False and connects:
            violation = ('the %s reply %r is not valid (a component is out of range / not a number) but Squid opened a data connection to '
                         'port %d (the port it names, or wraps to)' % (f.upper(), script[f.upper()].strip(), w.ftp.data_port))
        elif expect_connect is True and not connects:
            violation = 'the valid %s reply %r was not used: no data connection arrived (status %d)' % (f.upper(), script[f.upper()].strip(), status)
        outcome = '%s:%s:%s' % (f, {True: 'valid', False: 'invalid', None: 'unjudged'}[expect_connect], 'connected' if connects else 'no-connect')
    if not violation and f in ('list', 'list-split'):
        # not part of the property (which is about memory safety): how the two marker lines around the line under test
        # were rendered is recorded as an outcome class only
        if status != 200:
            outcome = '%s:status-%d' % (f, status)
        else:
            ks = []
            for mk in (b'vmk-first-entry.txt', b'vmk-last-entry.txt'):
                ks.append(len(re.findall(rb'<td class="filename"><a href="[^"]*">' + re.escape(mk) + rb'</a>', m.body)))
            outcome = '%s:status-200:markers-%s' % (f, 'ok' if ks == [1, 1] else 'x'.join(map(str, ks)))
    transcript = 'CASE %s\ncmds=%s connects=%d\nC:%r' % (describe(c), cmds, connects, raw[:400] + b' ... ' + raw[-1800:] if len(raw) > 2200 else raw)
    if violation:
        violation = '%s: %s' % (describe(c), violation)
    return {'outcome': outcome, 'violation': violation, 'transcript': transcript}


ASSUME = ['the real squid binary (ASan build of the current tree) runs under the lock-step/virtual-time shim; the HTTP client and the FTP server '
          '(control + passive data listener on 127.0.0.1) are played by the driver',
          'replies that are merely lenient spellings of a valid value (leading zeros, another well-formed port) are not judged; only replies '
          'with a component out of range / non-numeric / with mismatched EPSV delimiters must not lead to a data connection',
          'a sanitizer report, assertion or exit of Squid during any case is reported as a violation of that case (the engine checks after each case)']
RULE = ('families: 227 replies with every single-component mutation (thorough: pairs) x ftp_sanitycheck on/off; 229 replies over 12 port '
        'spellings x 7 delimiter layouts x sanitycheck; listings = 11 seed lines x every single token edit; 21 seed/hostile lines between two '
        'marker lines cut into two segments at every byte position; 15 hostile control replies at each of 8 protocol states; non-trivial = '
        'cases in which the FTP dialogue reached the mutated element (all of them: the stub saw the corresponding command)')


def run(ctx):
    ls.build_squid(ctx)
    cases = all_cases(ctx)
    tot = {'evaluations': 0, 'outcomes': {}, 'violations': [], 'samples': [], 'deadline_hit': False, 'crashes': [], 'kicks': 0, 'replays': 0}
    for sanity in (1, 0):
        part = [c for c in cases if c.get('sanity', 1) == sanity]
        # instance starts dominate on a loaded machine: the quick tier uses fewer, longer shards
        nsh = (8 if sanity else 2) if ctx.quick else (None if sanity else 4)
        r = ls.run_cases(ctx, part, run_case, make_world_for(sanity), key_of=key_of, determinism_n=6, nshards=nsh)
        for k in ('evaluations', 'kicks', 'replays'):
            tot[k] += r[k]
        for k, v in r['outcomes'].items():
            tot['outcomes'][k] = tot['outcomes'].get(k, 0) + v
        tot['violations'] += r['violations']
        tot['crashes'] += r['crashes']
        tot['samples'] += r['samples'][:4]
        tot['deadline_hit'] = tot['deadline_hit'] or r['deadline_hit']
    oc = tot['outcomes']
    if not tot['violations'] and not tot['deadline_hit']:
        for need, nmin in (('pasv:valid:connected', 2), ('pasv:invalid:no-connect', 50), ('epsv:valid:connected', 2), ('epsv:invalid:no-connect', 10),
                           ('list:status-200:markers-ok', 500), ('list-split:status-200:markers-ok', 400)):
            if oc.get(need, 0) < nmin:
                raise HarnessError('vacuity guard: outcome %s seen %d times (< %d): %r' % (need, oc.get(need, 0), nmin, oc))
    seen = {}
    vio = []
    for k, what, c in tot['violations']:
        seen[k] = seen.get(k, 0) + 1
        if seen[k] == 1:
            vio.append(Violation(k, what, {'case': c}))
    for v in vio:
        if seen[v.key] > 1:
            v.what += ' (+%d more cases with this key)' % (seen[v.key] - 1)
    vio += [Violation(k + ':crash', 'squid crashed/asserted during case %s: %s' % (k, what), {'case': c}) for k, what, c in tot['crashes']]
    samples = [{'case': describe(s['case']), 'outcome': s['outcome']} for s in tot['samples'][:8]]
    cov = {'evaluations': tot['evaluations'], 'distinct_nontrivial': tot['evaluations'] - oc.get('squid-crashed', 0), 'rule': RULE,
           'samples': samples, 'outcome_classes': oc, 'exhaustive': not tot['deadline_hit'] and tot['evaluations'] == len(cases),
           'kicks': tot['kicks'], 'determinism_replays': tot['replays'], 'cases_total': len(cases)}
    return Result(LEVEL, cov, vio, ASSUME)


def replay(ctx, data):
    ls.build_squid(ctx)
    all_cases(ctx)
    c = data['case']
    w = make_world_for(c.get('sanity', 1))(ctx, 0)
    w.start()
    try:
        r = run_case(w, c)
        print(r['transcript'])
        print('outcome:', r['outcome'])
        hp = w.sq.health_problems()
    finally:
        w.stop()
    v = [Violation(key_of(c), r['violation'], data)] if r['violation'] else []
    if hp:
        v.append(Violation(key_of(c) + ':crash', '; '.join(hp)[:2000], data))
    return Result(LEVEL, {}, v, ASSUME)
