"""C15 Range responses contain exactly the requested bytes — E3, bounded input product.

Object size x list of byte-range-specs (all ordered lists up to a length over a small alphabet) x
state {cached (hit), uncached (range_offset_limit none: Squid cuts the ranges out of the origin's 200), [thorough] Range forwarded, origin answers 200 / 206 / 416}.
The client response is parsed by an independent single-part / multipart/byteranges parser and compared
with the origin's object (position-dependent body pattern) and an RFC 9110 section 14 reference
evaluation of the Range header.
"""
import itertools
import re

from vverif import lockstep as ls
from vverif import lsx
from vverif import httpref
from vverif.core import Result, Violation, HarnessError

LEVEL = 'exploration'

ALPHA_Q = ['0-0', '0-4', '2-', '-3', '4-100000', '99999-', '5-2', '-0', 'a-b']
ALPHA_T = ALPHA_Q + ['1-1', '9-9', '0-', '-100000']
SIZES_Q = [1, 10, 100, 5000]
SIZES_T = [1, 2, 10, 100, 5000]
ALPHA_4 = ['0-0', '2-', '-3', '4-100000', '1-1', '99999-']
BIG = 70000          # thorough only: larger than Squid's 64 KB read buffers, lists of length <= 2


# ------------------------------------------------------------------ reference model (RFC 9110 section 14.1.1/14.1.2)

def ref_parse(value):
    """Range header value -> list of ('int', first, last|None) / ('suffix', n), or None if the field is not a
    valid bytes ranges-specifier (then RFC 9110 14.2 says: ignore it)."""
    m = re.match(r'^([A-Za-z]+)=(.*)$', value)
    if not m or m.group(1).lower() != 'bytes':
        return None
    out = []
    for item in m.group(2).split(','):
        item = item.strip(' \t')
        if item == '':
            continue        # empty list elements are permitted by the #rule for recipients
        mi = re.match(r'^([0-9]+)-([0-9]*)$', item)
        ms = re.match(r'^-([0-9]+)$', item)
        if mi:
            first = int(mi.group(1))
            last = int(mi.group(2)) if mi.group(2) != '' else None
            if last is not None and last < first:
                return None
            out.append(('int', first, last))
        elif ms:
            out.append(('suffix', int(ms.group(1))))
        else:
            return None
    return out or None


def ref_satisfiable(specs, size):
    """Byte intervals [a, b] (inclusive) selected by the satisfiable specs on a representation of `size` bytes."""
    out = []
    for s in specs:
        if s[0] == 'int':
            first, last = s[1], s[2]
            if first < size:
                out.append((first, size - 1 if last is None else min(last, size - 1)))
        else:
            n = s[1]
            if n > 0 and size > 0:
                out.append((max(0, size - n), size - 1))
    return out


def interval_set(intervals):
    """Normalised union of closed integer intervals (works for large objects without a bitmap)."""
    out = []
    for a, b in sorted(intervals):
        if out and a <= out[-1][1] + 1:
            out[-1][1] = max(out[-1][1], b)
        else:
            out.append([a, b])
    return out


def subset(small, big):
    big = interval_set(big)
    for a, b in interval_set(small):
        if not any(x <= a and b <= y for x, y in big):
            return False
    return True


# ------------------------------------------------------------------ response parsers (independent of Squid)

CR_RE = re.compile(r'^bytes ([0-9]+)-([0-9]+)/([0-9]+|\*)$')


def parse_content_range(v):
    m = CR_RE.match(v or '')
    if not m:
        return None
    return int(m.group(1)), int(m.group(2)), (None if m.group(3) == '*' else int(m.group(3)))


def parse_multipart(ctype, body):
    """-> (parts [(content_range_value, bytes)], error).  Strict RFC 2046 multipart with the part length taken
    from its own Content-Range (bodies are binary, so delimiters are not searched for inside part data)."""
    m = re.match(r'^multipart/byteranges\s*;\s*boundary=(?:"([^"]+)"|([^\s;"]+))\s*$', ctype, re.I)
    if not m:
        return None, 'Content-Type %r is not multipart/byteranges with a boundary' % ctype
    delim = b'--' + (m.group(1) or m.group(2)).encode('latin1')
    pos = 0
    if body.startswith(b'\r\n'):
        pos = 2
    if body[pos:pos + len(delim)] != delim:
        return None, 'body does not start with the delimiter: %r' % body[:60]
    pos += len(delim)
    parts = []
    while True:
        if body[pos:pos + 2] == b'--':
            rest = body[pos + 2:]
            if rest not in (b'', b'\r\n'):
                return None, 'bytes after the close delimiter: %r' % rest[:40]
            return parts, None
        if body[pos:pos + 2] != b'\r\n':
            return None, 'delimiter not followed by CRLF at %d: %r' % (pos, body[pos:pos + 20])
        pos += 2
        e = body.find(b'\r\n\r\n', pos)
        if e < 0:
            return None, 'part header section not terminated at %d' % pos
        cr = None
        for ln in body[pos:e].split(b'\r\n'):
            if b':' not in ln:
                return None, 'bad part header line %r' % ln[:60]
            k, v = ln.split(b':', 1)
            if k.strip().lower() == b'content-range':
                if cr is not None:
                    return None, 'two Content-Range fields in one part'
                cr = v.strip(b' \t').decode('latin1')
        if cr is None:
            return None, 'part without Content-Range at %d' % pos
        pcr = parse_content_range(cr)
        if pcr is None:
            return None, 'unparsable part Content-Range %r' % cr
        pos = e + 4
        n = pcr[1] - pcr[0] + 1
        if n <= 0 or pos + n > len(body):
            return None, 'part %r does not fit into the body (need %d bytes at %d of %d)' % (cr, n, pos, len(body))
        data = body[pos:pos + n]
        pos += n
        if body[pos:pos + 2 + len(delim)] != b'\r\n' + delim:
            return None, 'part %r is not followed by CRLF + delimiter: %r' % (cr, body[pos:pos + 30])
        pos += 2 + len(delim)
        parts.append((cr, data))


# ------------------------------------------------------------------ cases

def spec_lists(alpha, maxlen):
    for k in range(1, maxlen + 1):
        for t in itertools.product(alpha, repeat=k):
            yield list(t)


def all_cases(quick):
    cases = []
    n = [1000]

    def add(size, specs, state, sep=','):
        n[0] += 1
        cases.append({'n': n[0], 'size': size, 'specs': specs, 'state': state, 'sep': sep})
    if quick:
        for size in SIZES_Q:
            for state in ('cached', 'uncached'):
                for sl in spec_lists(ALPHA_Q, 3):
                    add(size, sl, state)
    else:
        for size in SIZES_T:
            for state in ('cached', 'uncached'):
                for sl in spec_lists(ALPHA_T, 3):
                    add(size, sl, state)
        for state in ('cached', 'uncached'):
            for sl in spec_lists(ALPHA_T, 2):
                add(BIG, sl, state)
        # lists of exactly 4 specs over the satisfiable half of the alphabet
        for size in (10, 100):
            for state in ('cached', 'uncached'):
                for t in itertools.product(ALPHA_4, repeat=4):
                    add(size, list(t), state)
        # default range_offset_limit: the Range header is forwarded on a miss; the origin either ignores it (200)
        # or honours it itself (206 for one satisfiable spec, 416 when nothing is satisfiable) and Squid relays that
        for size in SIZES_T:
            for sl in spec_lists(ALPHA_T, 2):
                add(size, sl, 'uncached-fwd')
                add(size, sl, 'origin206')
        # list / unit syntax variants
        for size in (10, 5000):
            for state in ('cached', 'uncached'):
                for sl in spec_lists(ALPHA_Q, 2):
                    if len(sl) == 2:
                        add(size, sl, state, ', ')
                        add(size, sl, state, ' ,')
                for sl in spec_lists(ALPHA_Q, 1):
                    add(size, sl, state, 'unit-case')
    return cases


def make_world(ctx, shard):
    return lsx.RetryWorld(ctx, 'w%d' % shard, ls.port_base_for_check(ctx.pid, shard), memory_cache=True,
                    conf='maximum_object_size_in_memory 512 KB\nacl unlimited urlpath_regex ^/L\nrange_offset_limit none unlimited\n')


def range_value(case):
    if case['sep'] == 'unit-case':
        return 'Bytes=' + ','.join(case['specs'])
    return 'bytes=' + case['sep'].join(case['specs'])


def evaluate(case, status, resp, obj):
    """The oracle.  Returns (outcome, violation-or-None)."""
    size = len(obj)
    specs = ref_parse(range_value(case))
    sat = ref_satisfiable(specs, size) if specs is not None else []
    cls = 'invalid' if specs is None else ('unsat' if not sat else 'sat')
    if resp is None or resp.error or not resp.complete:
        return cls + ':broken', 'response is not a complete well-formed message (%s)' % (resp.error if resp is not None else 'none')
    if status == 200:
        if resp.body != obj:
            return cls + ':200-bad', '200 response body is not the complete representation (%d bytes, expected %d; first difference at %s)' % (
                len(resp.body), size, first_diff(resp.body, obj))
        if resp.has('content-range'):
            return cls + ':200-bad', '200 response carries Content-Range %r' % resp.get('content-range')
        return cls + ':200', None
    if status == 416:
        if sat:
            return cls + ':416', '416 although %r selects bytes %r of the %d-byte representation' % (range_value(case), sat, size)
        return cls + ':416', None
    if status != 206:
        return cls + ':status-%d' % status, 'status %d is neither 206, 200 nor 416' % status
    # 206
    ctype = resp.get('content-type', '')
    if ctype.lower().startswith('multipart/byteranges'):
        if resp.has('content-range'):
            return cls + ':206-bad', 'multipart 206 also carries a top-level Content-Range'
        parts, err = parse_multipart(ctype, resp.body)
        if err:
            return cls + ':206-bad', 'multipart/byteranges body does not parse: ' + err
        kind = 'multi%d' % len(parts)
        if not parts:
            return cls + ':206-bad', 'multipart/byteranges body without parts'
    else:
        parts = [(resp.get('content-range'), resp.body)]
        kind = 'single'
    got = []
    for cr, data in parts:
        pcr = parse_content_range(cr)
        if pcr is None:
            return cls + ':206-bad', 'missing or unparsable Content-Range %r' % cr
        a, b, total = pcr
        if not (0 <= a <= b < size):
            return cls + ':206-bad', 'Content-Range %r is not inside the %d-byte representation' % (cr, size)
        if total is not None and total != size:
            return cls + ':206-bad', 'Content-Range %r states complete length %s, the representation has %d bytes' % (cr, total, size)
        if len(data) != b - a + 1:
            return cls + ':206-bad', 'part %r carries %d bytes' % (cr, len(data))
        if data != obj[a:b + 1]:
            return cls + ':206-bad', 'bytes of part %r differ from that slice of the representation (first difference at part offset %s)' % (
                cr, first_diff(data, obj[a:b + 1]))
        got.append((a, b))
    if not sat:
        return cls + ':206-' + kind, '206 although no requested range is satisfiable (%s)' % cls
    if not subset(sat, got):
        return cls + ':206-' + kind, 'parts %r do not cover the satisfiable requested ranges %r' % (got, sat)
    return cls + ':206-' + kind, None


def first_diff(x, y):
    for i in range(min(len(x), len(y))):
        if x[i] != y[i]:
            return i
    return min(len(x), len(y)) if len(x) != len(y) else None


def run_case(w, case):
    n = case['n']
    size = case['size']
    # 'uncached': range_offset_limit none for this path, so Squid fetches the whole object and cuts the ranges itself;
    # 'uncached-fwd' / 'origin206': default range_offset_limit (0), Squid forwards the Range header on a miss
    path = ('/L%d' if case['state'] == 'uncached' else '/r%d') % n
    obj = httpref.body_pattern(n, size, salt=7)
    rv = range_value(case)
    tr = []

    def responder(m):
        rng = m.get('range')
        h_common = 'Date: %s\r\nCache-Control: max-age=3600\r\nContent-Type: application/octet-stream\r\nETag: "e%d"\r\n' % (ls.http_date(w.sq.now_us), n)
        if case['state'] == 'origin206' and rng is not None:
            specs = ref_parse(rng)
            sat = ref_satisfiable(specs, size) if specs is not None else []
            if specs is not None and len(specs) == 1 and sat:
                a, b = sat[0]
                h = 'HTTP/1.1 206 Partial Content\r\n' + h_common + 'Content-Range: bytes %d-%d/%d\r\nContent-Length: %d\r\n\r\n' % (a, b, size, b - a + 1)
                return h.encode('latin1') + obj[a:b + 1]
            if specs is not None and not sat:
                h = 'HTTP/1.1 416 Range Not Satisfiable\r\n' + h_common + 'Content-Range: bytes */%d\r\nContent-Length: 0\r\n\r\n' % size
                return h.encode('latin1')
        h = 'HTTP/1.1 200 OK\r\n' + h_common + 'Content-Length: %d\r\n\r\n' % size
        return h.encode('latin1') + obj

    def result(outcome, violation=None):
        w.close_origin_conns()
        return {'outcome': outcome, 'violation': violation, 'transcript': '\n'.join(tr)}

    if case['state'] == 'cached':
        req = 'GET %s HTTP/1.1\r\nHost: %s\r\n\r\n' % (w.url(path), w.hostport())
        ex = w.fetch(req.encode('latin1'), responder, max_steps=80)
        r0 = ex.response
        if r0 is None or r0.error or not r0.complete or r0.status != 200 or r0.body != obj or len(ex.origin_requests) != 1:
            tr.append('prime failed: %r' % r0)
            return result('prime-failed')
        tr.append('prime 200 %d bytes' % len(r0.body))
    req = 'GET %s HTTP/1.1\r\nHost: %s\r\nRange: %s\r\n\r\n' % (w.url(path), w.hostport(), rv)
    ex = w.fetch(req.encode('latin1'), responder, max_steps=80)
    resp = ex.response
    status = resp.status if resp is not None and not resp.error else 0
    fwd_range = [m.get('range') for m in ex.origin_requests]
    tr.append('Range: %s on %d bytes [%s] -> status %s, origin requests %d (Range forwarded: %r)' % (rv, size, case['state'], status, len(ex.origin_requests), fwd_range))
    if resp is not None and resp.head_complete:
        tr.append('  ' + ' | '.join('%s: %s' % (k, v) for k, v in resp.headers if k.lower() in ('content-range', 'content-type', 'content-length')))
        tr.append('  body %d bytes sha %s' % (len(resp.body), __import__('hashlib').sha1(resp.body).hexdigest()[:12]))
    if case['state'] == 'cached' and ex.origin_requests:
        return result('cached-but-origin-contacted')
    if case['state'] != 'cached' and not ex.origin_requests:
        return result('uncached-but-origin-not-contacted', 'no origin contact for a URL never requested before')
    outcome, violation = evaluate(case, status, resp, obj)
    if violation:
        violation = 'Range: %s on a %d-byte %s object: %s' % (rv, size, case['state'], violation)
    return result(case['state'] + ':' + outcome, violation)


def key_of(case):
    return '%s:%d:%s' % (case['state'], case['size'], range_value(case))


def vkey(what, case):
    """Stable identity: state, the failing obligation, and the shape of the spec list (sizes abstracted)."""
    m = re.search(r'object: (.*)$', what)
    ob = m.group(1) if m else what
    if ob.startswith('bytes of part'):
        ob = 'part-bytes-differ'
    elif ob.startswith('parts '):
        ob = 'parts-do-not-cover'
    elif ob.startswith('200 response body'):
        ob = '200-body-incomplete'
    elif ob.startswith('Content-Range'):
        ob = 'content-range-wrong'
    elif ob.startswith('multipart'):
        ob = 'multipart-malformed'
    elif ob.startswith('response is not'):
        ob = 'broken-framing'
    elif ob.startswith('206 although'):
        ob = '206-nothing-satisfiable'
    elif ob.startswith('416'):
        ob = '416-but-satisfiable'
    else:
        ob = re.sub(r'[^A-Za-z0-9]+', '-', ob)[:40]
    return '%s:%s:%s' % (case['state'], ob, range_value(case))


ASSUME = ['the real squid binary (ASan build of the current tree, memory cache only) runs under the lock-step/virtual-time shim; client and origin are played by the driver',
          'object bytes are position dependent (period 251, different phase per case), so any shift, loss or mix in a part is visible',
          'a Range field with any syntactically invalid spec (or last-pos < first-pos) counts as naming no satisfiable range; 200 with the complete representation is always acceptable',
          'If-Range, non-bytes units, more than 3 specs, and objects above 70 000 bytes are outside the bound']
RULE = ('object size x every ordered list (with repetition) of byte-range-specs up to the tier\'s length over the alphabet x state {cached hit, uncached with origin 200'
        ' [thorough: origin 206/416, list separator and unit-case variants, 70 000-byte object]}; non-trivial = cases answered with a 206 (single or multipart) whose parts '
        'were compared byte for byte, plus cases with a valid but unsatisfiable or invalid header that were answered (200/416)')


def run(ctx):
    ls.build_squid(ctx)
    cases = all_cases(ctx.quick)
    r = ls.run_cases(ctx, cases, run_case, make_world, key_of=key_of)
    oc = r['outcomes']
    n206s = sum(v for k, v in oc.items() if ':206-single' in k)
    n206m = sum(v for k, v in oc.items() if ':206-multi' in k)
    n200 = sum(v for k, v in oc.items() if k.endswith(':200'))
    hit206 = sum(v for k, v in oc.items() if k.startswith('cached:') and ':206-' in k)
    miss206 = sum(v for k, v in oc.items() if k.startswith('uncached:') and ':206-' in k)
    answered = sum(v for k, v in oc.items() if re.search(r':(sat|unsat|invalid):', k))
    nontrivial = n206s + n206m + sum(v for k, v in oc.items() if re.search(r':(unsat|invalid):(200|416)$', k))
    if not r['violations'] and not r['deadline_hit']:
        if answered < len(cases) * 9 // 10:
            raise HarnessError('vacuity guard: only %d of %d cases reached the oracle: %r' % (answered, len(cases), oc))
        if n206s < 20 or n206m < 20 or n200 < 20 or hit206 < 20 or miss206 < 20:
            raise HarnessError('vacuity guard: 206-single=%d 206-multipart=%d 200=%d 206-on-hit=%d 206-on-miss=%d (each must be >= 20): %r' % (
                n206s, n206m, n200, hit206, miss206, oc))
    vio = [Violation(vkey(what, c), what, {'case': c}) for k, what, c in r['violations']]
    obs = ['squid problem during %s: %s' % (k, what[:300]) for k, what, c in r['crashes']]
    vio += [Violation('crash:' + k, 'squid crashed/asserted during case %s: %s' % (k, what), {'case': c}) for k, what, c in r['crashes']]
    cov = {'evaluations': r['evaluations'], 'distinct_nontrivial': nontrivial, 'rule': RULE, 'samples': r['samples'],
           'outcome_classes': oc, 'exhaustive': not r['deadline_hit'] and r['evaluations'] == len(cases), 'kicks': r['kicks'],
           'determinism_replays': r['replays'], 'cases_total': len(cases),
           'responses_206_single': n206s, 'responses_206_multipart': n206m, 'responses_200': n200}
    return Result(LEVEL, cov, vio, ASSUME, obs)


def replay(ctx, data):
    ls.build_squid(ctx)
    w = make_world(ctx, 0)
    w.start()
    try:
        r = run_case(w, data['case'])
        print(r['transcript'])
        print('outcome:', r['outcome'])
    finally:
        w.stop()
    v = [Violation(vkey(r['violation'], data['case']), r['violation'], data)] if r['violation'] else []
    return Result(LEVEL, {}, v, ASSUME)
