// C52, part 3 of 3 (three-argument NaturalSum/SetToNaturalSumOrMax): see C52_math.cc
#define C52_PART 3
#include "C52_math.cc"
