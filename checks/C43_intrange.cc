// C43 — integer-range ACL data (port, localport, http_status, ...: ACLIntRange) vs. a set model (E1).
// Real code: ACLIntRange::parse()/match() (src/acl/IntRange.cc), Range<> (src/base/Range.h), xatos()
// (src/Parsing.cc), driven through ConfigParser::SetCfgLine() like an "acl NAME port v1 v2 ..." line.
#include "squid.h"
#include "acl/IntRange.h"
#include "ConfigParser.h"
#include "mem/forward.h"

#include "vharness.h"

namespace {

struct Val { std::string text; int lo, hi; };

std::vector<Val> pool;
std::vector<int> probes;
uint64_t nMatchCalls = 0, nHits = 0, nMisses = 0;

void checkList(const std::vector<int> &idx)
{
    std::string line;
    for (int i : idx) { if (!line.empty()) line += ' '; line += pool[i].text; }
    ACLIntRange acl;
    char *cfg = xstrdup(line.c_str());
    ConfigParser::SetCfgLine(cfg);
    acl.parse();
    ConfigParser::SetCfgLine(nullptr);
    xfree(cfg);
    if (acl.empty() != idx.empty()) V::fail("empty() disagrees with the configured list");

    bool anyHit = false, anyMiss = false;
    for (int n : probes) {
        bool want = false;
        for (int i : idx) want = want || (pool[i].lo <= n && n <= pool[i].hi);
        ++nMatchCalls;
        const bool got = acl.match(n);
        if (got != want) {
            V::fail("number " + std::to_string(n) + (got ? " matched" : " did not match") + " but the union of the listed ranges " + (want ? "contains it" : "does not contain it"));
            return;
        }
        (got ? anyHit : anyMiss) = true;
        ++(got ? nHits : nMisses);
    }
    bool overlap = false, adjacent = false;
    for (size_t a = 0; a < idx.size(); ++a)
        for (size_t b = a + 1; b < idx.size(); ++b) {
            const Val &x = pool[idx[a]], &y = pool[idx[b]];
            if (x.lo <= y.hi && y.lo <= x.hi) overlap = true;
            else if (x.hi + 1 == y.lo || y.hi + 1 == x.lo) adjacent = true;
        }
    if (idx.size() < 2) V::outcome("single-or-empty");
    else if (!(anyHit && anyMiss)) V::outcome("multi:all-same-answer");
    else V::outcome(overlap ? "multi:overlapping" : (adjacent ? "multi:adjacent" : "multi:disjoint"));
}

void body(V::Ctx &ctx)
{
    Mem::Init();
    // squid.conf default "configuration_includes_quoted_values off" (default_all() sets both before parsing starts)
    ConfigParser::RecognizeQuotedValues = false;
    ConfigParser::StrictMode = false;
    const int top = ctx.quick() ? 11 : 15;      // ranges over 0..top
    for (int a = 0; a <= top; ++a) pool.push_back({std::to_string(a), a, a});
    for (int a = 0; a <= top; ++a)
        for (int b = a + 1; b <= top; ++b) pool.push_back({std::to_string(a) + "-" + std::to_string(b), a, b});
    pool.push_back({"5-5", 5, 5});
    pool.push_back({"65535", 65535, 65535});
    pool.push_back({"65534-65535", 65534, 65535});
    pool.push_back({"0-65535", 0, 65535});
    pool.push_back({"15-65534", 15, 65534});
    for (int n = -1; n <= top + 2; ++n) probes.push_back(n);
    for (int n : {255, 256, 32767, 32768, 65533, 65534, 65535, 65536, 65537, 131071}) probes.push_back(n);
    if (ctx.shard == 0) {
        V::setCount("value_pool", pool.size());
        V::setCount("probe_numbers", probes.size());
    }
    const int maxLen = ctx.quick() ? 2 : 3;
    std::vector<int> idx;
    for (int len = 0; len <= maxLen; ++len) {
        idx.assign(len, 0);
        for (;;) {
            std::string desc = "[";
            for (int i = 0; i < len; ++i) { if (i) desc += ' '; desc += pool[idx[i]].text; }
            desc += "]";
            if (V::begin_case(desc)) { checkList(idx); V::end_case(); }
            int k = len - 1;
            while (k >= 0 && ++idx[k] == (int)pool.size()) { idx[k] = 0; --k; }
            if (k < 0) break;
        }
    }
    // quick tier: lists of three over a reduced pool (a third range bridging / covering two earlier ones)
    if (ctx.quick()) {
        std::vector<int> small;
        for (size_t i = 0; i < pool.size(); ++i) {
            const Val &v = pool[i];
            if (v.hi > 15 ? v.text != "0-65535" : (v.lo % 3 == 0 && (v.hi - v.lo) % 2 == 0)) small.push_back(i);
        }
        if (ctx.shard == 0) V::setCount("value_pool_small", small.size());
        std::vector<int> si(3, 0);
        for (;;) {
            std::vector<int> l = {small[si[0]], small[si[1]], small[si[2]]};
            const std::string desc = "[" + pool[l[0]].text + " " + pool[l[1]].text + " " + pool[l[2]].text + "]";
            if (V::begin_case(desc)) { checkList(l); V::end_case(); }
            int k = 2;
            while (k >= 0 && ++si[k] == (int)small.size()) { si[k] = 0; --k; }
            if (k < 0) break;
        }
    }
    V::count("match_calls", nMatchCalls);
    V::count("hits", nHits);
    V::count("misses", nMisses);
}

} // namespace

VHARNESS_MAIN(body)
