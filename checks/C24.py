"""C24 Chunked decoding is exact and rejects malformed framing — E1, exhaustive valid encodings + token strings
against a reference RFC 9112 chunked decoder, every 2-piece split, small MemBuf capacities."""
from vverif import seq
from vverif.core import Result, HarnessError

LEVEL = 'exploration'
KNOWN_CLASS = 'bws-between-chunk-ext-and-crlf:acceptance-depends-on-segmentation'  # see known_findings.d/C24.json
RULE = ('(a) every valid chunked encoding of bodies of 0..N bytes (N=4 quick, 6 thorough; two fillers, one of them '
        'framing look-alike bytes): all compositions into chunks x 3 size spellings x 13 extension forms applied to '
        'every chunk or to exactly one chunk/last-chunk x 4 trailers; (a2) chunk sizes 10..257 in 5 spellings; '
        '(b) every string of <= L1 tokens (3 quick, 4 thorough) over a 24-token hostile alphabet (hex digits, 0x/0X, '
        'non-hex, ; = " \\ SP HTAB CR LF CRLF VT NUL, 2^63-1, 2^63, 2^64 numerals) and every longer string up to L2 tokens '
        '(4 quick, 5 thorough) whose proper prefixes are still need-more for the reference; (c) every single-byte deletion and every replacement/insertion of 18 edit tokens at every position of the valid encodings of bodies <= 2 (quick) / 3 (thorough) bytes with 4 extension forms x 2 trailers. Each input runs with '
        'relaxed_header_parser off/on, whole under up to 12 (MemBuf max_capacity, drain policy) configurations, at '
        'every 2-piece split point and byte by byte (short valid encodings: every segmentation); every observation '
        '(after the first piece too, i.e. every prefix) is judged against the reference verdict for the bytes fed so '
        'far and every final complete parser+caller state must equal the one-piece state. '
        'non-trivial = inputs the reference decodes, leaves pending, or rejects for a reason other than a non-hex first byte')
ASSUME = ['tests/testHttp1Parser link set: real TeChunkedParser, Http1 Tokenizer, Parser::Tokenizer, MemBuf, SBuf, '
          'mime_header; memory pools and debug output are the unit-test stubs',
          'no custom ChunkExtensionValueParser is installed (the HTTP callers; ICAP installs one for last-chunk)',
          'trailer sections that are not strictly field-line CRLF sequences (bare LF, junk lines) are outside the '
          'statement: only the decoded body is checked there',
          'syntax Squid tolerates on purpose (BWS before CRLF, VT/FF/CR as BWS when relaxed) may be rejected or must '
          'decode exactly as the reference does',
          'trailers >= 64 KB and bodies > 268 bytes are outside the bound']


def _build(ctx):
    return seq.build(ctx, 'tests/testHttp1Parser', ['C24_chunked.cc'])


def run(ctx):
    exe = _build(ctx)
    m = seq.run(ctx, exe)
    oc = m['outcomes']
    cnt = m['counters']
    # vacuity guards apply to complete runs without violations (a violating input stops its own remaining sub-runs)
    other = [f for f in m['failures'] if f['key'] != KNOWN_CLASS]
    if not m['deadline_hit'] and not other and not m['crashes']:
        if oc.get('valid:decoded', 0) == 0:
            raise HarnessError('vacuity guard: no valid encoding was decoded')
        # every verdict class of the reference must have been reached by a malformed/truncated input (token strings or edits)
        need = ['done', 'need-more', 'error:0x-prefix', 'error:non-hex-size', 'error:size-overflow', 'error:missing-crlf-after-size',
                'error:missing-crlf-after-data', 'error:bad-ext-name', 'error:bad-ext-value', 'error:bad-quoted-string', 'error:bad-quoted-pair',
                'trailer-unspecified', 'need-more:tolerated']
        missing = [k for k in need if oc.get('tok:' + k, 0) + oc.get('edit:' + k, 0) == 0]
        if missing:
            raise HarnessError('vacuity guard: outcome classes never reached: %r (have %r)' % (missing, oc))
        for c, least in (('space_stalls', 1000), ('real_done', 100), ('real_need_more', 100), ('real_error', 100),
                         ('tolerated_accepted', 1), ('all_segmentation_runs', 1000)):
            if cnt.get(c, 0) < least:
                raise HarnessError('vacuity guard: counter %s = %d < %d' % (c, cnt.get(c, 0), least))
    nontriv = [k for k in oc if k != 'tok:error:non-hex-first-byte']
    cov = seq.coverage_from(m, RULE, nontrivial_classes=nontriv, min_classes=1 if m['deadline_hit'] else 6)
    cov['parse_calls'] = cnt.get('parse_calls', 0)
    cov['parser_runs'] = cnt.get('parser_runs', 0)
    return Result(LEVEL, cov, seq.violations_from(m), ASSUME)


def replay(ctx, data):
    exe = _build(ctx)
    m = seq.replay_case(ctx, exe, data['case'])
    m.setdefault('deadline_hit', False)
    return Result(LEVEL, {}, seq.violations_from(m), ASSUME)
