// C52, part 2 of 3 (two-argument NaturalSum/SetToNaturalSumOrMax): see C52_math.cc
#define C52_PART 2
#include "C52_math.cc"
