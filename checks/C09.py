"""C09 Adversarial HTTP peers cannot cause memory errors or crashes — E3, systematic k-deviation mutation space.

The real ASan squid binary runs under the lock-step shim; the driver plays the client and the origin.  A seed
corpus of well-formed HTTP/1 request streams (sent by the client) and response streams (sent by the origin in
answer to a well-formed request) is tokenised; the case space is every 1-deviation mutant: at every token
position x {delete, duplicate, replace by each hostile atom}; thorough adds every 2-deviation mutant whose two
positions both lie in the start line / framing fields (a reduced atom list is used for pairs).

Oracle (property statement): no sanitizer report, no assertion / FATAL in cache.log, no exit, no hang; the
connection that carried the mutant ends with an HTTP response or a close (the virtual clock is advanced past every
configured timeout); a forwarded GET on a second connection is served afterwards.
"""
import hashlib
import os
import re
import socket
import time

from vverif import lockstep as ls
from vverif import httpref
from vverif.core import Result, Violation, HarnessError

LEVEL = 'exploration'
HDR_LIMIT = 16 * 1024          # request_header_max_size / reply_header_max_size of the instance
MAX_VIOLATIONS_PER_SHARD = 12
CANON_BASE = 20000

# ------------------------------------------------------------------ hostile atoms

ATOMS = [
    ('NUL', b'\0'), ('x80', b'\x80'), ('xFF', b'\xff'), ('CR', b'\r'), ('LF', b'\n'), ('CRLFCRLF', b'\r\n\r\n'),
    ('SP', b' '), ('HTAB', b'\t'), ('colon', b':'), ('comma', b','), ('semi', b';'), ('eq', b'='), ('dquote', b'"'),
    ('pct', b'%'), ('-1', b'-1'), ('0', b'0'), ('2^31', b'2147483648'), ('2^63', b'9223372036854775808'),
    ('2^64', b'18446744073709551616'), ('20nines', b'9' * 20), ('limit+1', b'A' * (HDR_LIMIT + 1)), ('chunked', b'chunked'),
    ('HTTP/1.1', b'HTTP/1.1'), ('HTTP/9.9', b'HTTP/9.9'), ('0x', b'0x'), ('VT', b'\x0b'),
]
ATOM = dict(ATOMS)
OPS1 = ['del', 'dup'] + [a for a, _ in ATOMS]          # 'del' is "replace by the empty atom": 28 operations per position
OPS2 = ['del', 'dup', 'NUL', 'CR', 'LF', 'CRLFCRLF', 'SP', 'colon', 'comma', 'semi', '-1', '0', '2^31', '2^63', '2^64', '20nines', 'chunked', 'HTTP/1.1', 'HTTP/9.9', '0x']

REQLINE_RE = re.compile(rb'([A-Z]+) (\S+) HTTP/1\.[01]\r\n')
TOKEN_RE = re.compile(rb"\r\n|HTTP/\d\.\d|\d+(?:\.\d+)*|[A-Za-z][A-Za-z0-9_.\-]*|[\x00-\xff]", re.S)


def tokenize(b):
    return TOKEN_RE.findall(b)


def apply_mut(tokens, mut):
    """mut: tuple of (pos, op), positions strictly increasing"""
    out = list(tokens)
    for pos, op in mut:
        if pos < 0:
            continue        # a flag, not a token mutation: (-1, 'eof') = the origin closes right after sending the stream
        t = tokens[pos]
        if op == 'del':
            out[pos] = b''
        elif op == 'dup':
            out[pos] = t + t
        else:
            out[pos] = ATOM[op]
    return b''.join(out)


def mut_name(mut):
    return '+'.join('%d:%s' % (p, o) for p, o in mut) or 'seed'


# ------------------------------------------------------------------ seed corpus

def U(P, path):
    return b'http://127.0.0.1:%d%s' % (P, path)


def H(P):
    return b'127.0.0.1:%d' % P


def request_seeds(P, uid=b'u000000'):
    """P = origin port.  Each seed: name, stream (bytes the client sends), method of the first request."""
    S = []
    hp = H(P)

    def add(name, stream):
        S.append({'name': 'req:' + name, 'dir': 'req', 'stream': stream})
    g = lambda path, extra=b'', method=b'GET', ver=b'HTTP/1.1': method + b' ' + U(P, path) + b' ' + ver + b'\r\nHost: ' + hp + b'\r\n' + extra + b'\r\n'
    add('get', g(b'/' + uid))
    add('get-origin-form', b'GET /' + uid + b' HTTP/1.1\r\nHost: ' + hp + b'\r\n\r\n')
    add('head', g(b'/' + uid, method=b'HEAD'))
    add('post-cl', g(b'/' + uid, b'Content-Type: application/x-www-form-urlencoded\r\nContent-Length: 11\r\n', b'POST') + b'a=1&b=%20zz')
    add('post-chunked', g(b'/' + uid, b'Transfer-Encoding: chunked\r\n', b'POST') + b'5\r\nhello\r\n6\r\n world\r\n0\r\n\r\n')
    add('post-chunk-ext', g(b'/' + uid, b'Transfer-Encoding: chunked\r\n', b'POST') + b'5;name=val;q="a b"\r\nhello\r\n0;last\r\n\r\n')
    add('post-trailers', g(b'/' + uid, b'Transfer-Encoding: chunked\r\nTrailer: X-Sum\r\n', b'POST') + b'a\r\n0123456789\r\n0\r\nX-Sum: 45\r\n\r\n')
    add('put-expect', g(b'/' + uid, b'Expect: 100-continue\r\nContent-Length: 4\r\n', b'PUT') + b'data')
    add('connect', b'CONNECT ' + hp + b' HTTP/1.1\r\nHost: ' + hp + b'\r\n\r\n' + b'\x16\x03\x01tunnel-bytes')
    add('options-star', b'OPTIONS * HTTP/1.1\r\nHost: ' + hp + b'\r\nMax-Forwards: 3\r\n\r\n')
    add('options-maxfwd0', g(b'/' + uid, b'Max-Forwards: 0\r\n', b'OPTIONS'))
    add('trace-maxfwd0', g(b'/' + uid, b'Max-Forwards: 0\r\n', b'TRACE'))
    add('range', g(b'/' + uid, b'Range: bytes=0-4,10-14,-3\r\nIf-Range: "v1"\r\n'))
    add('conditional', g(b'/' + uid, b'If-None-Match: "v1", W/"v2"\r\nIf-Modified-Since: Fri, 15 Jan 2027 07:00:00 GMT\r\n'))
    add('cache-control', g(b'/' + uid, b'Cache-Control: no-cache, max-age=0, max-stale=5, min-fresh=1\r\nPragma: no-cache\r\n'))
    add('pipeline-2get', g(b'/' + uid) + g(b'/' + uid + b'b'))
    add('pipeline-post-get', g(b'/' + uid, b'Content-Length: 3\r\n', b'POST') + b'xyz' + g(b'/' + uid + b'b'))
    add('http10-keepalive', g(b'/' + uid, b'Connection: keep-alive\r\n', ver=b'HTTP/1.0'))
    add('huge-header', g(b'/' + uid, b'X-Big: ' + b'a' * 3000 + b'\r\n'))
    add('many-headers', g(b'/' + uid, b''.join(b'X-H%d: v%d\r\n' % (i, i) for i in range(24))))
    add('connection-close-listed', g(b'/' + uid, b'Connection: close, X-Hop\r\nX-Hop: 1\r\nKeep-Alive: timeout=5, max=10\r\n'))
    add('credentials', g(b'/' + uid, b'Authorization: Basic dXNlcjpwdw==\r\nProxy-Authorization: Basic cDpx\r\nCookie: a=1; b="x y"\r\n'))
    add('accept', g(b'/' + uid, b'Accept: text/html;q=0.9, */*;q=0.1\r\nAccept-Encoding: gzip;q=1.0, identity; q=0.5\r\nAccept-Language: en-GB,en;q=0.8\r\n'))
    add('uri-parts', b'GET http://user:pw@127.0.0.1:%d/p%%41th/%s;p=1?x=1&y=%%20z#frag HTTP/1.1\r\nHost: %s\r\n\r\n' % (P, uid, hp))
    add('ipv6-host', b'GET http://[::1]:%d/%s HTTP/1.1\r\nHost: [::1]:%d\r\n\r\n' % (P, uid, P))
    add('mgr-info', b'GET http://squid.verif:%d/squid-internal-mgr/menu HTTP/1.1\r\nHost: squid.verif:%d\r\n\r\n' % (P - 1, P - 1))
    add('upgrade', g(b'/' + uid, b'Connection: Upgrade\r\nUpgrade: websocket, h2c\r\nSec-WebSocket-Key: dGhlIHNhbXBsZSBub25jZQ==\r\n'))
    mp = b'--b1\r\nContent-Disposition: x\r\n\r\nv\r\n--b1--\r\n'
    add('multipart-body', g(b'/' + uid, b'Content-Type: multipart/form-data; boundary="b1"\r\nContent-Length: %d\r\n' % len(mp), b'POST') + mp)
    add('unknown-method', g(b'/' + uid, method=b'FROB'))
    add('forwarding-lists', g(b'/' + uid, b'X-Forwarded-For: 10.0.0.1, unknown, [::1]\r\nVia: 1.0 a, 1.1 b (c)\r\nForwarded: for=10.0.0.1;proto=http\r\n'))
    add('host-mismatch', b'GET ' + U(P, b'/' + uid) + b' HTTP/1.1\r\nHost: other.test:81\r\nUser-Agent: v/1.0 (x; y)\r\n\r\n')
    add('purge', g(b'/' + uid, method=b'PURGE'))
    # sent to the accelerator (reverse proxy) port: the URL is rebuilt from origin-form target + Host / defaultsite
    add('accel-get-vhost', b'GET /' + uid + b'?q=1 HTTP/1.1\r\nHost: ' + hp + b'\r\nAccept: */*\r\n\r\n')
    add('accel-http10-no-host', b'GET /' + uid + b' HTTP/1.0\r\nUser-Agent: v\r\n\r\n')
    add('accel-post-chunked', b'POST /' + uid + b' HTTP/1.1\r\nHost: ' + hp + b'\r\nTransfer-Encoding: chunked\r\n\r\n3\r\nabc\r\n0\r\n\r\n')
    for sd in S[-3:]:
        sd['accel'] = True
    return S


def response_seeds(P, uid=b'u000000'):
    """Each seed: name, req (the well-formed request the client sends), stream (bytes the origin answers with),
    close (origin closes after sending)."""
    S = []
    hp = H(P)
    date = b'Date: Fri, 15 Jan 2027 08:00:00 GMT\r\n'

    def add(name, stream, req_extra=b'', method=b'GET', close=False, req_body=b'', connect=False):
        if connect:
            req = b'CONNECT ' + hp + b' HTTP/1.1\r\nHost: ' + hp + b'\r\n\r\n'
        else:
            req = method + b' ' + U(P, b'/' + uid) + b' HTTP/1.1\r\nHost: ' + hp + b'\r\n' + req_extra + b'\r\n' + req_body
        S.append({'name': 'resp:' + name, 'dir': 'resp', 'stream': stream, 'req': req, 'close': close,
                  'method': 'CONNECT' if connect else method.decode()})
    add('200-cl', b'HTTP/1.1 200 OK\r\n' + date + b'Content-Type: text/plain\r\nContent-Length: 11\r\n\r\nhello world')
    add('200-chunked', b'HTTP/1.1 200 OK\r\n' + date + b'Transfer-Encoding: chunked\r\n\r\n5\r\nhello\r\n6\r\n world\r\n0\r\n\r\n')
    add('200-chunk-ext-trailers', b'HTTP/1.1 200 OK\r\n' + date + b'Transfer-Encoding: chunked\r\nTrailer: X-Sum\r\n\r\n5;a=b;c="d e"\r\nhello\r\n0;x\r\nX-Sum: 5\r\n\r\n')
    add('200-close-delimited', b'HTTP/1.1 200 OK\r\n' + date + b'Connection: close\r\n\r\nbody until close', close=True)
    add('http10-keepalive', b'HTTP/1.0 200 OK\r\n' + date + b'Connection: keep-alive\r\nContent-Length: 3\r\n\r\nabc')
    add('head-200', b'HTTP/1.1 200 OK\r\n' + date + b'Content-Length: 1234\r\nETag: "h1"\r\n\r\n', method=b'HEAD')
    add('204', b'HTTP/1.1 204 No Content\r\n' + date + b'\r\n')
    add('304', b'HTTP/1.1 304 Not Modified\r\n' + date + b'ETag: "v1"\r\nCache-Control: max-age=60\r\n\r\n', req_extra=b'If-None-Match: "v1"\r\n')
    add('100-then-200', b'HTTP/1.1 100 Continue\r\n\r\nHTTP/1.1 200 OK\r\n' + date + b'Content-Length: 2\r\n\r\nok',
        req_extra=b'Expect: 100-continue\r\nContent-Length: 4\r\n', method=b'PUT', req_body=b'data')
    add('103-then-200', b'HTTP/1.1 103 Early Hints\r\nLink: </s.css>; rel=preload\r\n\r\nHTTP/1.1 200 OK\r\n' + date + b'Content-Length: 2\r\n\r\nok')
    add('206-single', b'HTTP/1.1 206 Partial Content\r\n' + date + b'Content-Range: bytes 0-4/11\r\nContent-Length: 5\r\n\r\nhello', req_extra=b'Range: bytes=0-4\r\n')
    mb = b'--SEP\r\nContent-Range: bytes 0-1/11\r\n\r\nhe\r\n--SEP\r\nContent-Range: bytes 9-10/11\r\n\r\nld\r\n--SEP--\r\n'
    add('206-multipart', b'HTTP/1.1 206 Partial Content\r\n' + date + b'Content-Type: multipart/byteranges; boundary=SEP\r\nContent-Length: %d\r\n\r\n' % len(mb) + mb,
        req_extra=b'Range: bytes=0-1,9-10\r\n')
    add('200-vary-cacheable', b'HTTP/1.1 200 OK\r\n' + date + b'Vary: Accept-Encoding, User-Agent\r\nCache-Control: max-age=300\r\nContent-Length: 4\r\n\r\nvary',
        req_extra=b'Accept-Encoding: gzip\r\nUser-Agent: v\r\n')
    add('200-validators', b'HTTP/1.1 200 OK\r\n' + date + b'ETag: W/"v1"\r\nLast-Modified: Fri, 15 Jan 2027 07:00:00 GMT\r\nExpires: Fri, 15 Jan 2027 09:00:00 GMT\r\nAge: 10\r\n'
        b'Cache-Control: public, max-age=3600\r\nContent-Length: 2\r\n\r\nok')
    add('301', b'HTTP/1.1 301 Moved Permanently\r\n' + date + b'Location: http://127.0.0.1:%d/new?x=1\r\nContent-Length: 0\r\n\r\n' % P)
    add('401', b'HTTP/1.1 401 Unauthorized\r\n' + date + b'WWW-Authenticate: Basic realm="a, b", Digest realm="d", nonce="n=="\r\nWWW-Authenticate: Negotiate\r\nContent-Length: 4\r\n\r\nauth')
    add('407-from-origin', b'HTTP/1.1 407 Proxy Authentication Required\r\n' + date + b'Proxy-Authenticate: Basic realm="p"\r\nContent-Length: 0\r\n\r\n')
    add('503-retry-after', b'HTTP/1.1 503 Service Unavailable\r\n' + date + b'Retry-After: 120\r\nContent-Length: 4\r\n\r\nbusy')
    add('200-huge-header', b'HTTP/1.1 200 OK\r\n' + date + b'X-Big: ' + b'b' * 3000 + b'\r\nContent-Length: 1\r\n\r\nx')
    add('200-set-cookies', b'HTTP/1.1 200 OK\r\n' + date + b''.join(b'Set-Cookie: c%d=v%d; Path=/; Max-Age=%d\r\n' % (i, i, i) for i in range(8)) + b'Content-Length: 1\r\n\r\nx')
    add('200-connection-close-cl', b'HTTP/1.1 200 OK\r\n' + date + b'Connection: close\r\nContent-Length: 5\r\n\r\nbytes', close=True)
    gz = b'\x1f\x8b\x08\x00\x00\x00\x00\x00\x00\x03\xcb\xc8\x04\x00\xac\x2a\x93\xd8\x02\x00\x00\x00'
    add('200-gzip', b'HTTP/1.1 200 OK\r\n' + date + b'Content-Encoding: gzip\r\nContent-Length: %d\r\n\r\n' % len(gz) + gz)
    add('connect-200', b'HTTP/1.1 200 Connection established\r\n\r\nserver-hello', connect=True)
    add('101-upgrade', b'HTTP/1.1 101 Switching Protocols\r\nConnection: Upgrade\r\nUpgrade: websocket\r\n\r\n\x81\x02hi', req_extra=b'Connection: Upgrade\r\nUpgrade: websocket\r\n')
    add('200-cl0', b'HTTP/1.1 200 OK\r\n' + date + b'Content-Length: 0\r\n\r\n')
    add('200-cache-control-args', b'HTTP/1.1 200 OK\r\n' + date + b'Cache-Control: s-maxage=10, must-revalidate, private="set-cookie", no-cache="x-a, x-b", stale-if-error=5\r\nContent-Length: 1\r\n\r\nx')
    add('200-quoted-params', b'HTTP/1.1 200 OK\r\n' + date + b'Content-Type: text/html; charset="utf-8"\r\nContent-Disposition: attachment; filename="a\\"b.txt"\r\nLink: <http://x.test/>; rel="next"\r\nContent-Length: 1\r\n\r\nx')
    add('200-lists', b'HTTP/1.1 200 OK\r\n' + date + b'Via: 1.1 up (x), 1.0 up2\r\nWarning: 110 up "stale"\r\nX-Cache: MISS from a, HIT from b\r\nCache-Status: up; hit; ttl=5\r\nContent-Length: 1\r\n\r\nx')
    add('416', b'HTTP/1.1 416 Range Not Satisfiable\r\n' + date + b'Content-Range: bytes */11\r\nContent-Length: 0\r\n\r\n', req_extra=b'Range: bytes=50-60\r\n')
    add('200-chunked-empty', b'HTTP/1.1 200 OK\r\n' + date + b'Transfer-Encoding: chunked\r\n\r\n0\r\n\r\n')
    add('302-set-cookie', b'HTTP/1.1 302 Found\r\n' + date + b'Location: /l\r\nSet-Cookie: s=1\r\nContent-Length: 0\r\n\r\n')
    add('post-201', b'HTTP/1.1 201 Created\r\n' + date + b'Location: /n\r\nContent-Length: 2\r\n\r\nid', req_extra=b'Content-Length: 3\r\n', method=b'POST', req_body=b'abc')
    return S


FRAMING_FIELDS = (b'content-length', b'transfer-encoding', b'connection', b'expect', b'host', b'trailer', b'content-range', b'range', b'upgrade')


def token_lines(tokens):
    lines, cur = [], []
    for k, t in enumerate(tokens):
        cur.append(k)
        if t == b'\r\n':
            lines.append(cur)
            cur = []
    if cur:
        lines.append(cur)
    return lines


def classify_lines(tokens):
    """-> list of (kind, [token indexes]) with kind in start / field / blank / chunk-size / body"""
    out = []
    state = 'start'
    chunked = False
    for ln in token_lines(tokens):
        text = b''.join(tokens[k] for k in ln)
        if state == 'start':
            out.append(('start', ln))
            state = 'head'
            chunked = False
        elif state == 'head':
            if text == b'\r\n':
                out.append(('blank', ln))
                state = 'chunks' if chunked else 'body'
            else:
                out.append(('field', ln))
                if text.split(b':', 1)[0].strip().lower() == b'transfer-encoding':
                    chunked = True
        elif state == 'chunks':
            if re.match(rb'^[0-9a-fA-F]+[;\r]', text):
                out.append(('chunk-size', ln))
                if re.match(rb'^0+[;\r]', text):
                    state = 'trailer'
            else:
                out.append(('body', ln))
        elif state == 'trailer':
            if text == b'\r\n':
                out.append(('blank', ln))
                state = 'start'
            else:
                out.append(('field', ln))
        else:
            if text.startswith(b'HTTP/') or REQLINE_RE.match(text):
                out.append(('start', ln))
                state = 'head'
                chunked = False
            else:
                out.append(('body', ln))
    return out


def framing_positions(tokens):
    """token positions of every start line, of the values of framing fields, of the blank lines ending a head and of chunk-size lines"""
    pos = []
    for kind, ln in classify_lines(tokens):
        if kind in ('start', 'chunk-size'):
            pos += [k for k in ln if tokens[k] != b' ']
        elif kind == 'blank':
            pos += ln
        elif kind == 'field':
            text = b''.join(tokens[k] for k in ln)
            if text.split(b':', 1)[0].strip().lower() in FRAMING_FIELDS:
                colon = [k for k in ln if tokens[k] == b':'][:1]
                pos += [k for k in ln if colon and k > colon[0] and tokens[k] != b' ']
    return sorted(set(pos))


def head_positions(tokens, fp=None):
    """positions of every message head (start line, fields, blank line, trailers) and of chunk-size lines"""
    out = []
    for kind, ln in classify_lines(tokens):
        if kind != 'body':
            out += ln
    return out


def enumerate_cases(seeds, tier):
    """Generator of (seed_index, mut) in a fixed order.  quick: every 1-deviation mutant at every start-line / framing position (all
    tokens of every start line incl. the request target, values of the framing fields, the blank line ending a head, chunk-size lines);
    thorough: every 1-deviation mutant at every token position + every 2-deviation mutant over the selected start-line/framing tokens
    (pair_positions) x OPS2.  Mutants equal to the seed or to an earlier mutant of the same seed are skipped."""
    for si, s in enumerate(seeds):
        toks = tokenize(s['stream'])
        fp = framing_positions(toks)
        yield (si, ())
        positions = fp if tier == 'quick' else list(range(len(toks)))
        seen = {hashlib.sha1(s['stream']).digest()}
        for p in positions:
            for op in OPS1:
                m = ((p, op),)
                h = hashlib.sha1(apply_mut(toks, m)).digest()
                if h in seen:
                    continue
                seen.add(h)
                yield (si, m)
        if s['dir'] == 'resp' and not s['close'] and s['method'] != 'CONNECT':
            # the same response mutants followed by a premature close of the origin connection
            yield (si, ((-1, 'eof'),))
            seen = {hashlib.sha1(s['stream']).digest()}
            for p in positions:
                for op in OPS1:
                    m = ((p, op),)
                    h = hashlib.sha1(apply_mut(toks, m)).digest()
                    if h in seen:
                        continue
                    seen.add(h)
                    yield (si, m + ((-1, 'eof'),))
        if tier == 'thorough':
            fp2 = pair_positions(toks, fp)
            seen = {hashlib.sha1(apply_mut(toks, ((p, op),))).digest() for p in positions for op in OPS1} | {hashlib.sha1(s['stream']).digest()}
            for a in range(len(fp2)):
                for b in range(a + 1, len(fp2)):
                    for o1 in OPS2:
                        for o2 in OPS2:
                            m = ((fp2[a], o1), (fp2[b], o2))
                            h = hashlib.sha1(apply_mut(toks, m)).digest()
                            if h in seen:
                                continue
                            seen.add(h)
                            yield (si, m)


PAIR_MAX = 12


def pair_positions(toks, fp):
    """the tokens used for pairs of deviations, by priority: first and last word of every start line (method / HTTP-version / status code),
    values of Content-Length / Transfer-Encoding / Connection / Expect / Trailer / Range fields, chunk sizes, then the remaining start-line
    words; at most PAIR_MAX per seed.  Delimiters are covered by k=1."""
    word = lambda p: re.match(rb'^(HTTP/\d\.\d|\d+(\.\d+)*|[A-Za-z].*)$', toks[p]) is not None
    lines = token_lines(toks)
    prio, rest = [], []
    state = 'start'
    chunked = False
    for ln in lines:
        text = b''.join(toks[k] for k in ln)
        words = [k for k in ln if k in fp and word(k)]
        if state == 'start':
            if words:
                prio += [words[0], words[-1]] + ([words[1]] if text.startswith(b'HTTP/') and len(words) > 1 else [])
                rest += words
            state = 'head'
            chunked = False
        elif state == 'head':
            if text == b'\r\n':
                state = 'chunks' if chunked else 'body'
            elif words:
                name = text.split(b':', 1)[0].strip().lower()
                if name != b'host':
                    prio += words
                if name == b'transfer-encoding':
                    chunked = True
        elif state == 'chunks':
            prio += words[:1]
        elif state == 'body' and words and (text.startswith(b'HTTP/') or REQLINE_RE.match(text)):
            prio += [words[0], words[-1]] + ([words[1]] if text.startswith(b'HTTP/') and len(words) > 1 else [])
            state = 'head'
            chunked = False
    out = []
    for p in prio + rest:
        if p not in out:
            out.append(p)
    return sorted(out[:PAIR_MAX])


# ------------------------------------------------------------------ crash signatures (= finding keys)

def crash_signature(problems):
    text = '\n'.join(problems)
    m = re.search(r'assertion failed: ([\w./+-]+):\d+: "(.*?)"', text)
    if m:
        return 'assert:%s:%s' % (os.path.basename(m.group(1)), m.group(2)[:80])
    m = re.search(r'ERROR: AddressSanitizer: ([\w-]+)', text)
    if m:
        kind = m.group(1)
        frame = '?'
        generic = None
        for fm in re.finditer(r'#\d+ 0x[0-9a-f]+ in (\S+) ([^\s:]+)', text.split('allocated by')[0].split('freed by')[0]):
            fn, path = fm.group(1), fm.group(2)
            if 'sanitizer' in path or not ('/tree/' in path or path.startswith(('src/', 'lib/', '../src/', '../lib/'))):
                continue
            # generic containers / allocators name nothing: prefer the first frame outside them
            if re.search(r'/(sbuf|base|mem|compat)/|SquidString|MemBuf|/String\.', path):
                generic = generic or fn.split('(')[0]
                continue
            frame = fn.split('(')[0]
            break
        if frame == '?' and generic:
            frame = generic
        return 'asan:%s:%s' % (kind, frame)
    m = re.search(r'runtime error: (.{0,80})', text)
    if m:
        return 'ubsan:' + m.group(1)
    m = re.search(r'FATAL: (.{0,80})', text)
    if m:
        return 'fatal:' + re.sub(r'\d+', 'N', m.group(1)).strip()
    m = re.search(r'dying from an unhandled exception: (.{0,80})', text)
    if m:
        return 'exception:' + m.group(1).strip()
    m = re.search(r'squid exited with status (-?\d+)', text)
    if m:
        return 'exit:' + m.group(1)
    m = re.search(r'^(hang|stuck|HTTP probe)', text)
    if m:
        return m.group(1).replace(' ', '-')
    return 'problem:' + re.sub(r'\d+', 'N', text[:60])


# ------------------------------------------------------------------ the world

class SquidDied(Exception):
    pass


class Hang(Exception):
    pass


class Failed(Exception):
    """the case broke the property without killing Squid (stuck connection, probe not served, assertion logged)"""


STATUS_RE = re.compile(rb'HTTP/\d\.\d (\d\d\d)')


class HWorld:
    def __init__(self, ctx, shard):
        self.ctx = ctx
        self.base = ls.port_base_for_check(ctx.pid, shard)
        self.origin_port = self.base + 1
        conf = '\n'.join([
            'request_header_max_size %d bytes' % HDR_LIMIT, 'reply_header_max_size %d bytes' % HDR_LIMIT,
            'cache_mem 8 MB', 'maximum_object_size_in_memory 64 KB',
            'request_timeout 10 seconds', 'request_start_timeout 10 seconds', 'read_timeout 20 seconds', 'write_timeout 20 seconds',
            'client_idle_pconn_timeout 15 seconds', 'server_idle_pconn_timeout 10 seconds', 'connect_timeout 5 seconds',
            'forward_timeout 30 seconds', 'client_lifetime 100 seconds', 'pconn_lifetime 100 seconds', 'half_closed_clients off',
            'acl purge method PURGE', 'http_access allow purge', 'http_upgrade_request_protocols websocket allow all',
            'acl CONNECT method CONNECT',
            'http_port 127.0.0.1:%d accel vhost allow-direct defaultsite=127.0.0.1:%d' % (self.base + 2, self.origin_port),
        ])
        self.sq = ls.Squid(ctx, 'h%d' % shard, self.base, conf=conf, memory_cache=True)
        self.origin = None
        self.oconns = []
        self.script = None          # None: answer every request head with a canned 200; else dict(stream, close) for the next non-probe connection
        self.origin_heads = 0
        self.nprobe = 0
        self.log_off = 0

    def start(self):
        try:
            self.origin = ls.Listener(self.origin_port)
            self.sq.start()
        except BaseException:
            self.stop()
            raise
        return self

    def stop(self):
        try:
            self.sq.cleanup()
        finally:
            for oc in self.oconns:
                oc['c'].close()
            self.oconns = []
            if self.origin is not None:
                self.origin.close()
                self.origin = None

    def kick(self, rounds=2):
        try:
            self.sq.settle(rounds)
        except HarnessError as e:
            if 'watchdog' in str(e):
                # a dying Squid can take longer than the watchdog to write its sanitizer report on a loaded machine
                try:
                    self.sq.proc.wait(timeout=90)
                except Exception:
                    raise Hang(str(e)[:300])
                raise SquidDied()
            raise
        if not self.sq.alive() or not self.sq.live_slots():
            # the control socket closes a moment before the process can be reaped (ASan is still writing its report)
            try:
                self.sq.proc.wait(timeout=90)
            except Exception:
                pass
            raise SquidDied()

    def advance(self, ms):
        self.sq.now_us += int(ms * 1000)
        self.kick(2)

    # ---- the origin
    def canned(self, tag):
        body = b'origin-body-' + tag
        return b'HTTP/1.1 200 OK\r\nDate: %s\r\nContent-Length: %d\r\nCache-Control: no-store\r\n\r\n%s' % (
            ls.http_date(self.sq.now_us).encode(), len(body), body)

    def origin_step(self):
        progressed = False
        for c in self.origin.accept_all():
            oc = {'c': c, 'mode': None, 'buf': b'', 'answered': 0}
            self.oconns.append(oc)
            progressed = True
            if self.script is not None and self.script.get('on_accept'):
                # tunnel: the server speaks first
                sc, self.script = self.script, None
                self.origin_heads += 1
                oc['mode'] = 'raw'
                oc['answered'] = 1
                c.send(sc['stream'])
        for oc in self.oconns:
            c = oc['c']
            if c.closed:
                continue
            if c.pump():
                progressed = True
                oc['buf'] += c.inbuf
                c.inbuf = b''
                if oc['mode'] is None:
                    if b'\r\n\r\n' in oc['buf'] and re.match(rb'^[A-Z]+ \S+ HTTP/1\.[01]\r\n', oc['buf']):
                        probe = re.match(rb'^GET /health-', oc['buf']) is not None
                        oc['mode'] = 'canned' if (probe or self.script is None) else 'script'
                    elif len(oc['buf']) > 0 and not re.match(rb'^[A-Z]{1,12}( |$)', oc['buf'][:13]):
                        oc['mode'] = 'raw'
                if oc['mode'] == 'canned':
                    while b'\r\n\r\n' in oc['buf']:
                        head, oc['buf'] = oc['buf'].split(b'\r\n\r\n', 1)
                        m = REQLINE_RE.search(head + b'\r\n')      # skips body bytes of the previous request
                        if not m:
                            continue
                        self.origin_heads += 1
                        c.send(self.canned(b'probe' if m.group(2).startswith(b'/health-') else b'case'))
                        oc['answered'] += 1
                elif oc['mode'] == 'script' and not oc['answered']:
                    self.origin_heads += 1
                    oc['answered'] = 1
                    sc, self.script = self.script, None
                    c.send(sc['stream'])
                    if sc['close']:
                        c.close()
                    else:
                        oc['mode'] = 'canned'      # a later request on this (persistent) connection, e.g. the probe, gets a normal answer
                        oc['buf'] = b''
                elif oc['mode'] == 'raw' and not oc['answered']:
                    oc['answered'] = 1
                    self.origin_heads += 1
                    c.send(b'RAW-ORIGIN-REPLY')
                    c.close()
            if c.eof and not c.closed:
                c.close()
                progressed = True
        self.oconns = [oc for oc in self.oconns if not oc['c'].closed]
        return progressed

    def close_origin_conns(self):
        for oc in self.oconns:
            oc['c'].close()
        self.oconns = []

    # ---- oracles
    def log_problems(self):
        probs = ['sanitizer: ' + r[:2500] for r in self.sq.asan_reports()]
        try:
            with open(os.path.join(self.sq.dir, 'cache.log'), 'rb') as f:
                f.seek(self.log_off)
                new = f.read().decode('latin1')
        except OSError:
            new = ''
        self.log_off += len(new)
        for m in re.finditer(r'^.*(assertion failed|FATAL:|dying from an unhandled exception|Received Segment Violation).*$', new, re.M):
            probs.append('cache.log: ' + m.group(0)[:300])
        return probs

    def death_problems(self):
        probs = self.log_problems()
        for m in re.finditer(r'^.*(assertion failed|FATAL:|runtime error:).*$', self.sq.stdout(), re.M):
            probs.append('stdout: ' + m.group(0)[:300])
        if not self.sq.alive():
            probs.append('squid exited with status %s' % self.sq.proc.returncode)
        return probs

    def probe(self):
        """a forwarded GET on a fresh connection must be served; returns a problem string or None"""
        self.nprobe += 1
        c = self.sq.client()
        try:
            c.send(b'GET http://127.0.0.1:%d/health-%d HTTP/1.1\r\nHost: 127.0.0.1:%d\r\n\r\n' % (self.origin_port, self.nprobe, self.origin_port))
            idle = 0
            for _ in range(30):
                self.kick(2)
                p = self.origin_step()
                if c.pump():
                    p = True
                m = httpref.parse_response(c.inbuf, 'GET', eof=c.eof)
                if m.complete and not m.error:
                    if m.status == 200 and m.body == b'origin-body-probe':
                        return None
                    return 'HTTP probe not served: status %d body %r' % (m.status, m.body[:60])
                if c.eof:
                    return 'HTTP probe not served: closed after %r' % c.inbuf[:80]
                if not p:
                    idle += 1
                    if idle >= 2:
                        return 'HTTP probe not served: no response (%r)' % c.inbuf[:80]
                else:
                    idle = 0
            return 'HTTP probe not served: no response after 30 steps'
        finally:
            c.close()

    # ---- one case
    def run_stream(self, seed, stream, eof=False):
        """Play one (possibly mutated) stream.  Returns (outcome class, transcript).  Raises SquidDied / Hang / Failed."""
        if seed.get('accel'):
            sk = socket.socket(socket.AF_INET, socket.SOCK_STREAM)
            sk.connect(('127.0.0.1', self.base + 2))
            c = ls.Conn(sk)
        else:
            c = self.sq.client()
        heads0 = self.origin_heads
        try:
            if seed['dir'] == 'req':
                self.script = None
                tosend = stream
            else:
                self.script = {'stream': stream, 'close': seed['close'] or eof, 'on_accept': seed['method'] == 'CONNECT'}
                tosend = seed['req']
            sent = 0
            waited = 0
            while True:
                idle = 0
                for _ in range(60):
                    if sent < len(tosend) and not c.reset:
                        sent += c.send(tosend[sent:])
                    self.kick(2)
                    p = self.origin_step()
                    if c.pump():
                        p = True
                    if not p and (sent >= len(tosend) or c.reset or c.eof):
                        idle += 1
                        if idle >= 1:
                            break
                    elif not p:
                        idle += 1
                        if idle >= 3:
                            break        # Squid does not read any further
                    else:
                        idle = 0
                got_status = STATUS_RE.match(c.inbuf)
                if c.eof or got_status:
                    break
                if waited >= 12:
                    raise Failed('stuck: connection carrying the mutant got neither a response nor a close within %d virtual seconds '
                                 '(client has %r)' % (waited * 15, c.inbuf[:60]))
                waited += 1
                self.advance(15000)
            self.script = None
            st = STATUS_RE.match(c.inbuf)
            fwd = self.origin_heads > heads0
            if st:
                cls = 'status-%s' % st.group(1).decode()
            elif c.inbuf:
                cls = 'non-http-bytes-then-close' if c.eof else 'non-http-bytes'
            else:
                cls = 'closed-without-response'
            outcome = '%s:%s%s%s' % (seed['dir'], cls, ':forwarded' if fwd else '', ':after-timeout' if waited else '')
            # compared between two instances (determinism obligation).  Left out: whether virtual time had to pass and the size of
            # Squid's own error pages - a mutated host can make Squid connect to a non-loopback address, and when/how the real kernel
            # fails that connect (ENETUNREACH at once, EHOSTUNREACH after real seconds, nothing) is outside the shim's control
            relayed = fwd and st is not None and st.group(1)[:1] != b'5'
            transcript = (outcome.replace(':after-timeout', ''), c.inbuf[:40].split(b'\r\n')[0], len(c.inbuf) if relayed else -1, c.eof if relayed else None)
        finally:
            c.close()
        # the liveness probe runs while the origin-side connections of the case may still be open
        pr = self.probe()
        self.close_origin_conns()
        self.kick(1)
        probs = self.log_problems()
        if pr:
            probs.append(pr)
        if probs:
            raise Failed(' | '.join(probs))
        return outcome, transcript


# ------------------------------------------------------------------ the sharded run

def build_seeds(origin_port, n=0):
    uid = b'u%06d' % n
    return request_seeds(origin_port, uid) + response_seeds(origin_port, uid)


def run_shard(ctx, shard, nshards, tier, t_end, replay_cases=None):
    base = ls.port_base_for_check(ctx.pid, shard)
    seeds0 = build_seeds(base + 1)
    canon = build_seeds(CANON_BASE + 1)
    canon_toks = [tokenize(s['stream']) for s in canon]
    if replay_cases is None:
        mine, total = [], 0
        for i, (si, m) in enumerate(enumerate_cases(seeds0, tier)):
            total += 1
            if i % nshards == shard:
                mine.append((si, m, i))
    else:
        mine = replay_cases
        total = len(mine)
    res = {'total_cases': total, 'evaluations': 0, 'outcomes': {}, 'violations': [], 'deadline_hit': False, 'kicks': 0, 'starts': 0,
           'samples': {}, 'distinct_keys': set(), 'nontrivial_keys': set(), 'determinism_cases': 0, 'seed_outcomes': {}, 'req_cases': 0, 'resp_cases': 0}
    st = {'w': None}

    def fresh():
        if st['w'] is not None:
            res['kicks'] += st['w'].sq.kicks
            st['w'].stop()
        for attempt in (1, 2, 3, 4):
            st['w'] = HWorld(ctx, shard)
            try:
                st['w'].start()
                break
            except HarnessError as e:
                # start-up has a 60 s real-time limit, which an overloaded machine can exceed: wait and try again
                st['w'] = None
                if attempt == 4 or not ('not ready' in str(e) or 'watchdog' in str(e)):
                    raise
                time.sleep(15)
        res['starts'] += 1
        return st['w']

    def seed_for(si, n):
        # the same seed with the case number in its URL(s), so that no case is answered from the cache
        sd = dict(seeds0[si])
        uid = b'u%06d' % n
        sd['stream'] = sd['stream'].replace(b'u000000', uid)
        if 'req' in sd:
            sd['req'] = sd['req'].replace(b'u000000', uid)
        return sd

    def run_one(w, case):
        si, mut, n = case
        seed = seed_for(si, n)
        stream = apply_mut(tokenize(seed['stream']), mut)
        return w.run_stream(seed, stream, eof=(-1, 'eof') in mut)

    def describe(case):
        si, mut, n = case
        seed = seed_for(si, n)
        toks = tokenize(seed['stream'])
        stream = apply_mut(toks, mut)
        return {'seed': seed['name'], 'mutation': [{'token_index': p, 'token': repr(toks[p])[:60] if p >= 0 else 'origin closes after the stream', 'op': o} for p, o in mut],
                'stream': repr(stream[:300]) + ('...(%d bytes)' % len(stream) if len(stream) > 300 else '')}

    def attempt(case):
        w = fresh()
        try:
            run_one(w, case)
            return None
        except SquidDied:
            return w.death_problems()
        except Hang as e:
            return ['hang: ' + str(e)]
        except Failed as e:
            return [str(e)]

    def report(case, probs):
        first = crash_signature(probs)
        p1 = attempt(case)
        p2 = attempt(case) if p1 else None
        if not p2:
            raise HarnessError('failure not reproducible on a fresh instance: %s, first seen as %s: %s' % (describe(case), first, ' | '.join(probs)[:1500]))
        si, mut, n = case
        seed = seeds0[si]
        sig = crash_signature(p2)
        key = '%s:%s' % (seed['dir'], sig)
        if sig in ('stuck', 'hang', 'HTTP-probe'):
            key += ':' + seed['name'] + ':' + '+'.join(o for _, o in mut)
        d = describe(case)
        what = 'Squid failed on %s mutant %s of seed %s (%s): %s' % ('request' if seed['dir'] == 'req' else 'response', mut_name(mut), seed['name'], d['stream'][:400], ' | '.join(p2)[:1800])
        dkey = hashlib.sha1(canon[si]['name'].encode() + (b'\1' if (-1, 'eof') in mut else b'\0') + apply_mut(canon_toks[si], mut)).digest()[:10]
        res['evaluations'] += 1
        res['distinct_keys'].add(dkey)
        res['nontrivial_keys'].add(dkey)        # a stream that makes Squid fail was certainly processed
        res['outcomes']['squid-failed'] = res['outcomes'].get('squid-failed', 0) + 1
        res['violations'].append((key, what, {'tier': tier, 'case': [si, [list(x) for x in mut], n], 'describe': d}))
        fresh()

    try:
        w = fresh()
        first = mine[:14] if replay_cases is None else []
        tr1 = []
        try:
            for case in first:
                tr1.append(run_one(w, case))
            if first:
                w = fresh()
                for k, case in enumerate(first):
                    r = run_one(w, case)
                    if r[1] != tr1[k][1]:       # the normalised transcript (see run_stream), not the outcome class with its ':after-timeout' marker
                        raise HarnessError('nondeterminism: case %s gave different transcripts on two instances:\n%r\n%r' % (describe(case), tr1[k], r))
                res['determinism_cases'] = len(first)
                w = fresh()
        except (SquidDied, Hang, Failed):
            # Squid failed on one of the first cases: the main loop below meets the same case again and reports it properly
            w = fresh()
        for case in mine:
            if time.time() > t_end or len(res['violations']) >= MAX_VIOLATIONS_PER_SHARD:
                res['deadline_hit'] = True
                break
            si, mut, n = case
            try:
                cls, tr = run_one(w, case)
            except SquidDied:
                report(case, w.death_problems())
                w = st['w']
                continue
            except Hang as e:
                report(case, ['hang: ' + str(e)])
                w = st['w']
                continue
            except Failed as e:
                report(case, [str(e)])
                w = st['w']
                continue
            res['evaluations'] += 1
            res['req_cases' if seeds0[si]['dir'] == 'req' else 'resp_cases'] += 1
            res['outcomes'][cls] = res['outcomes'].get(cls, 0) + 1
            dkey = hashlib.sha1(canon[si]['name'].encode() + (b'\1' if (-1, 'eof') in mut else b'\0') + apply_mut(canon_toks[si], mut)).digest()[:10]
            res['distinct_keys'].add(dkey)
            if ':status-' in cls:
                res['nontrivial_keys'].add(dkey)
            if mut == ():
                res['seed_outcomes'][seeds0[si]['name']] = cls
            elif cls not in res['samples']:
                d = describe(case)
                d['outcome'] = cls
                res['samples'][cls] = d
    finally:
        if st['w'] is not None:
            res['kicks'] += st['w'].sq.kicks
            st['w'].stop()
            st['w'] = None
    return res


ASSUME = ['the real squid binary (ASan build of the current tree, halt_on_error) runs under the lock-step/virtual-time shim; client and origin are played by the driver',
          'the space is the stated k-deviation neighbourhood of the seed corpus (systematic, not a fuzzer): bugs needing >= 3 simultaneous anomalies (thorough: >= 2 outside start line / framing fields) or long random payloads are outside it',
          'request_header_max_size / reply_header_max_size are set to %d bytes so that the "limit+1" atom stays cheap; all timeouts are set to <= 100 virtual seconds' % HDR_LIMIT,
          'one instance per shard is reused (memory cache on, unique URL per case); a failure is re-run twice on fresh instances before it is reported']
RULE = ('distinct mutated streams: every token position (tokens = CRLF | HTTP-version | digit run | word | single byte) of every seed x {delete, duplicate, 26 hostile atoms} '
        '(quick: start-line / framing-field / blank-line / chunk-size tokens only; thorough: all positions, plus all pairs over <= 12 start-line/framing word tokens per seed x 20 ops each); '
        'non-trivial = Squid answered the mutated connection with an HTTP response (it parsed the stream and either relayed it or produced its own error reply), '
        'as opposed to closing it silently')


def run(ctx):
    ls.build_squid(ctx)
    nshards = ctx.ncpu
    # global tier deadline; if the build step alone ate most of it (first build of a changed tree: mutant / fix verification), still allow a minimal run
    t_end = max(ctx.t0 + ctx.deadline_s - (25 if ctx.quick else 60), time.time() + (110 if ctx.quick else 600))
    parts = ls.run_sharded(ctx, lambda shard, items: run_shard(ctx, shard, nshards, ctx.tier, t_end), list(range(nshards)), nshards)
    tot = {'evaluations': 0, 'kicks': 0, 'starts': 0, 'determinism_cases': 0, 'req_cases': 0, 'resp_cases': 0}
    dk, nk = set(), set()
    oc, vio, samples, seed_outcomes = {}, [], {}, {}
    deadline = False
    total_cases = 0
    for p in parts:
        if p is None:
            continue
        total_cases = p['total_cases']
        for k in tot:
            tot[k] += p[k]
        dk |= p['distinct_keys']
        nk |= p['nontrivial_keys']
        for k, v in p['outcomes'].items():
            oc[k] = oc.get(k, 0) + v
        vio += p['violations']
        for k, v in p['samples'].items():
            samples.setdefault(k, v)
        seed_outcomes.update(p['seed_outcomes'])
        deadline = deadline or p['deadline_hit']
    nseeds = len(build_seeds(CANON_BASE + 1))
    if not vio and not deadline:
        # vacuity guards: the unmutated seeds are well-formed, i.e. relayed to the origin (or answered by Squid itself where that is the point)
        fwd = [k for k, v in seed_outcomes.items() if ':forwarded' in v]
        if len(seed_outcomes) != nseeds or len(fwd) < nseeds - 8:
            raise HarnessError('vacuity guard: only %d of %d seeds were relayed: %r' % (len(fwd), nseeds, seed_outcomes))
        silent = sum(v for k, v in oc.items() if 'closed-without-response' in k)
        errs = sum(v for k, v in oc.items() if re.search(r'status-[45]\d\d(?!.*forwarded)', k))
        if len(nk) < 500 or errs < 100 or silent < 5:
            raise HarnessError('vacuity guard: answered=%d squid-errors=%d silent-closes=%d' % (len(nk), errs, silent))
    violations = []
    seen = set()
    for k, what, rp in vio:
        violations.append(Violation(k, what, rp))
    cov = {'evaluations': tot['evaluations'], 'distinct_nontrivial': len(nk), 'distinct_cases': len(dk), 'rule': RULE,
           'samples': [samples[k] for k in sorted(samples)[::max(1, len(samples) // 8)]][:8], 'outcome_classes': oc,
           'exhaustive': (not deadline) and tot['evaluations'] == total_cases, 'cases_total': total_cases,
           'request_stream_cases': tot['req_cases'], 'response_stream_cases': tot['resp_cases'], 'seeds': nseeds, 'seed_outcomes': seed_outcomes,
           'kicks': tot['kicks'], 'instance_starts': tot['starts'], 'determinism_replays': tot['determinism_cases'],
           'bound': 'k=1 at start-line/framing positions' if ctx.quick else 'k=1 at every token position; k=2 over start-line/framing word tokens'}
    if deadline:
        cov['completed'] = 'stopped by deadline / violation cap after %d of %d cases' % (tot['evaluations'], total_cases)
    return Result(LEVEL, cov, violations, ASSUME)


def replay(ctx, data):
    ls.build_squid(ctx)
    si, mut, n = data['case']
    case = (si, tuple((p, o) for p, o in mut), n)
    print('# %s' % data.get('describe'))
    r = run_shard(ctx, 0, 1, data.get('tier', 'quick'), time.time() + 600, replay_cases=[case])
    v = [Violation(k, what, rp) for k, what, rp in r['violations']]
    return Result(LEVEL, {}, v, ASSUME)
