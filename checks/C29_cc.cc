// C29 — Cache-Control parse / pack vs a reference directive parser (E1).
// Real code: HttpHdrCc::parse / HttpHdrCc::packInto (src/HttpHdrCc.cc) with the real StrList.cc,
// HttpHeaderTools.cc (httpHeaderParseInt) and HttpHeader.cc (httpHeaderParseQuotedString) of the
// testHttpReply link set, all rebuilt from the current tree with ASan.
#include "squid.h"
#include "HttpHdrCc.h"
#include "base/Packable.h"
#include "SquidConfig.h"
#include "SquidString.h"

#include "vharness.h"

class SquidConfig Config;   // the unit test of this link set defines it in its own (replaced) object

#include <climits>
#include <cstdarg>

namespace {

// ---------------------------------------------------------------- reference model
enum Kind { K_FLAG, K_NUM, K_LIST };
struct Known { const char *name; HttpHdrCcType id; Kind kind; };
const Known known[] = {
    {"public", HttpHdrCcType::CC_PUBLIC, K_FLAG},
    {"private", HttpHdrCcType::CC_PRIVATE, K_LIST},
    {"no-cache", HttpHdrCcType::CC_NO_CACHE, K_LIST},
    {"no-store", HttpHdrCcType::CC_NO_STORE, K_FLAG},
    {"no-transform", HttpHdrCcType::CC_NO_TRANSFORM, K_FLAG},
    {"must-revalidate", HttpHdrCcType::CC_MUST_REVALIDATE, K_FLAG},
    {"proxy-revalidate", HttpHdrCcType::CC_PROXY_REVALIDATE, K_FLAG},
    {"max-age", HttpHdrCcType::CC_MAX_AGE, K_NUM},
    {"s-maxage", HttpHdrCcType::CC_S_MAXAGE, K_NUM},
    {"max-stale", HttpHdrCcType::CC_MAX_STALE, K_NUM},
    {"min-fresh", HttpHdrCcType::CC_MIN_FRESH, K_NUM},
    {"only-if-cached", HttpHdrCcType::CC_ONLY_IF_CACHED, K_FLAG},
    {"stale-if-error", HttpHdrCcType::CC_STALE_IF_ERROR, K_NUM},
    {"immutable", HttpHdrCcType::CC_IMMUTABLE, K_FLAG},
};
const int NKNOWN = sizeof known / sizeof *known;

bool isOws(char c) { return c == ' ' || c == '\t'; }
bool isTchar(unsigned char c) { return isalnum(c) || (c && strchr("!#$%&'*+-.^_`|~", c)); }
bool isToken(const std::string &s)
{
    if (s.empty()) return false;
    for (unsigned char c : s) if (!isTchar(c)) return false;
    return true;
}

// split a field value at commas outside quoted-strings; false if a quoted-string is not terminated
bool refSplit(const std::string &h, std::vector<std::string> &out)
{
    std::string cur;
    bool inq = false;
    for (size_t i = 0; i < h.size(); ++i) {
        const char c = h[i];
        if (inq) {
            cur += c;
            if (c == '\\') { if (i + 1 >= h.size()) return false; cur += h[++i]; }
            else if (c == '"') inq = false;
        } else if (c == ',') { out.push_back(cur); cur.clear(); }
        else { cur += c; if (c == '"') inq = true; }
    }
    if (inq) return false;
    out.push_back(cur);
    for (auto &e : out) {
        size_t b = 0, t = e.size();
        while (b < t && isOws(e[b])) ++b;
        while (t > b && isOws(e[t - 1])) --t;
        e = e.substr(b, t - b);
    }
    return true;
}

// quoted-string (RFC 9110 5.6.4) covering the whole of s; unescaped content in `out`
bool refQuoted(const std::string &s, std::string &out)
{
    if (s.size() < 2 || s[0] != '"') return false;
    size_t i = 1;
    for (; i < s.size(); ++i) {
        const unsigned char c = s[i];
        if (c == '"') break;
        if (c == '\\') {
            if (++i >= s.size()) return false;
            const unsigned char d = s[i];
            if (!(d == '\t' || d == ' ' || (d >= 0x21 && d != 0x7f))) return false;
            out += (char)d;
        } else if (c == '\t' || c == ' ' || c == 0x21 || (c >= 0x23 && c <= 0x5b) || (c >= 0x5d && c != 0x7f)) out += (char)c;
        else return false;
    }
    return i == s.size() - 1;
}

enum OccCls { O_VALID, O_INVALID, O_GREY, O_TRAIL };
struct Occ { OccCls cls; long long num = -1; std::string list; bool quotedPair = false; };

struct Expect {
    std::vector<Occ> occ[NKNOWN];
    bool malformedHeader = false;
    int nUnknown = 0;
};

const int32_t ANY = HttpHdrCc::MAX_STALE_ANY;

Occ classifyNum(bool hasArg, const std::string &arg, bool isMaxStale)
{
    Occ o;
    if (!hasArg) {
        if (isMaxStale) { o.cls = O_VALID; o.num = ANY; } else o.cls = O_INVALID;
        return o;
    }
    size_t p = 0;
    bool lenient = false;
    while (p < arg.size() && isOws(arg[p])) { ++p; lenient = true; }
    if (p < arg.size() && arg[p] == '+') { ++p; lenient = true; }
    bool dq = false;
    if (p == 0 && arg.size() >= 2 && arg[0] == '"' && arg.back() == '"') { dq = true; ++p; }
    const size_t ds = p;
    unsigned long long v = 0;
    bool big = false;
    while (p < arg.size() && isdigit((unsigned char)arg[p])) {
        v = v * 10 + (arg[p] - '0');
        if (v > (1ULL << 40)) { big = true; v = 1ULL << 40; }
        ++p;
    }
    if (p == ds) { o.cls = O_INVALID; return o; }       // no digits: "", "x", "-1", "\"\""
    const bool fits = !big && v <= (unsigned long long)INT_MAX;
    o.num = fits ? (long long)v : -1;
    size_t e = arg.size() - (dq ? 1 : 0);
    size_t q = p;
    while (q < e && isOws(arg[q])) ++q;
    if (q < e) {                                          // digits followed by something else: "5x", "5 x", "5-"
        o.cls = fits ? O_TRAIL : O_INVALID;
        return o;
    }
    if (q > p) lenient = true;
    if (!fits) { o.cls = O_INVALID; return o; }
    o.cls = (dq || lenient) ? O_GREY : O_VALID;
    return o;
}

Expect refParse(const std::string &h)
{
    Expect x;
    std::vector<std::string> elems;
    if (!refSplit(h, elems)) { x.malformedHeader = true; return x; }
    for (const std::string &e : elems) {
        if (e.empty()) continue;
        const size_t eq = e.find('=');
        std::string name = e.substr(0, eq);
        const bool hasArg = eq != std::string::npos;
        const std::string arg = hasArg ? e.substr(eq + 1) : "";
        // a name that is not a token but would be a known name without its white space: nobody can say
        // which directive was meant
        std::string stripped;
        for (char c : name) if (!isOws(c)) stripped += c;
        const bool nameOk = isToken(name);
        int k = -1;
        for (int i = 0; i < NKNOWN; ++i) if (!strcasecmp(stripped.c_str(), known[i].name)) k = i;
        if (k < 0) { ++x.nUnknown; continue; }
        Occ o;
        if (!nameOk) o.cls = O_GREY;
        else if (known[k].kind == K_FLAG) o.cls = hasArg ? O_GREY : O_VALID;
        else if (known[k].kind == K_NUM) o = classifyNum(hasArg, arg, known[k].id == HttpHdrCcType::CC_MAX_STALE);
        else {
            std::string l;
            if (!hasArg) o.cls = O_VALID;
            else if (refQuoted(arg, l)) { o.cls = O_VALID; o.list = l; o.quotedPair = arg.find('\\') != std::string::npos; }
            else o.cls = O_GREY;
        }
        x.occ[k].push_back(o);
    }
    return x;
}

// ---------------------------------------------------------------- real code
struct StrPacker : public Packable {
    std::string out;
    void append(const char *buf, int size) override { out.append(buf, size); }
    void vappendf(const char *fmt, va_list ap) override {
        va_list ap2; va_copy(ap2, ap);
        const int n = vsnprintf(nullptr, 0, fmt, ap2);
        va_end(ap2);
        std::string b(n + 1, '\0');
        vsnprintf(&b[0], n + 1, fmt, ap);
        out.append(b.data(), n);
    }
};

std::string S(const String &s) { return s.size() ? std::string(s.rawBuf(), s.size()) : std::string(); }

int32_t numField(const HttpHdrCc &cc, HttpHdrCcType id)
{
    switch (id) {
    case HttpHdrCcType::CC_MAX_AGE: return cc.max_age;
    case HttpHdrCcType::CC_S_MAXAGE: return cc.s_maxage;
    case HttpHdrCcType::CC_MAX_STALE: return cc.max_stale;
    case HttpHdrCcType::CC_MIN_FRESH: return cc.min_fresh;
    case HttpHdrCcType::CC_STALE_IF_ERROR: return cc.stale_if_error;
    default: return -2;
    }
}

bool numAccessor(const HttpHdrCc &cc, HttpHdrCcType id, int32_t &v)
{
    switch (id) {
    case HttpHdrCcType::CC_MAX_AGE: return cc.hasMaxAge(&v);
    case HttpHdrCcType::CC_S_MAXAGE: return cc.hasSMaxAge(&v);
    case HttpHdrCcType::CC_MAX_STALE: return cc.hasMaxStale(&v);
    case HttpHdrCcType::CC_MIN_FRESH: return cc.hasMinFresh(&v);
    case HttpHdrCcType::CC_STALE_IF_ERROR: return cc.hasStaleIfError(&v);
    default: return false;
    }
}

bool flagAccessor(const HttpHdrCc &cc, HttpHdrCcType id)
{
    switch (id) {
    case HttpHdrCcType::CC_PUBLIC: return cc.hasPublic();
    case HttpHdrCcType::CC_NO_STORE: return cc.hasNoStore();
    case HttpHdrCcType::CC_NO_TRANSFORM: return cc.hasNoTransform();
    case HttpHdrCcType::CC_MUST_REVALIDATE: return cc.hasMustRevalidate();
    case HttpHdrCcType::CC_PROXY_REVALIDATE: return cc.hasProxyRevalidate();
    case HttpHdrCcType::CC_ONLY_IF_CACHED: return cc.hasOnlyIfCached();
    case HttpHdrCcType::CC_IMMUTABLE: return cc.hasImmutable();
    default: return false;
    }
}

std::set<std::string> keysEmitted;
void failOnce(const std::string &key, const std::string &msg)
{
    if (keysEmitted.insert(key).second) V::failKey(key, msg);
    V::count("failures_with_key:" + key);
}

// class of a header: counted per header in counters; the case's outcome is the highest-ranked class among its headers
std::string caseClass;
int caseRank = -1;
void setClass(const std::string &c, int rank)
{
    V::count("headers:" + c);
    if (rank > caseRank) { caseRank = rank; caseClass = c; }
}
void endCase()
{
    V::outcome(caseClass.empty() ? "none" : caseClass);
    caseClass.clear();
    caseRank = -1;
    V::end_case();
}

uint64_t nHeaders = 0, nFixpoints = 0, nDirectivesChecked = 0, nNumValid = 0, nNumInvalid = 0, nListValid = 0,
         nGreySkipped = 0, nDupValid = 0;

std::string dump(const HttpHdrCc &cc)
{
    char b[160];
    snprintf(b, sizeof b, "mask=0x%x max-age=%d s-maxage=%d max-stale=%d stale-if-error=%d min-fresh=%d", cc.mask, cc.max_age,
             cc.s_maxage, cc.max_stale, cc.stale_if_error, cc.min_fresh);
    return std::string(b) + " private=[" + V::esc(S(cc.private_)) + "] no-cache=[" + V::esc(S(cc.no_cache)) + "] other=[" + V::esc(S(cc.other)) + "]";
}

void checkHeader(const std::string &h)
{
    ++nHeaders;
    const Expect x = refParse(h);
    HttpHdrCc cc;
    const String hs(h.c_str());
    const bool ok = cc.parse(hs);
    const std::string ctx = "Cache-Control: " + V::esc(h) + " -> " + dump(cc) + ": ";

    bool anyRequired = false;
    if (x.malformedHeader) setClass("unterminated-quoted-string", 1);
    else {
        bool anyKnown = false, anyGrey = false, anyInvalid = false;
        for (int k = 0; k < NKNOWN; ++k) {
            const Known &d = known[k];
            const std::vector<Occ> &occ = x.occ[k];
            bool grey = false, trail = false;
            std::vector<const Occ *> valid;
            for (const Occ &o : occ) {
                if (o.cls == O_GREY) grey = true;
                else if (o.cls == O_VALID) valid.push_back(&o);
                else if (o.cls == O_TRAIL) trail = true;
                if (o.cls == O_INVALID || o.cls == O_TRAIL) anyInvalid = true;
            }
            if (!occ.empty()) anyKnown = true;
            const bool present = cc.isSet(d.id);
            ++nDirectivesChecked;
            // accessor and mask agree; numeric values never negative
            if (d.kind == K_NUM) {
                int32_t v = -7;
                const bool has = numAccessor(cc, d.id, v);
                if (has != present) V::fail(ctx + d.name + ": accessor and mask disagree");
                if (present && (v < 0 || v != numField(cc, d.id))) V::fail(ctx + d.name + " is set with the negative/inconsistent value " + std::to_string(v));
                if (!present && numField(cc, d.id) != -1) V::fail(ctx + d.name + " is not set but its value is " + std::to_string(numField(cc, d.id)) + ", not -1 (unknown)");
            } else if (d.kind == K_FLAG) {
                if (flagAccessor(cc, d.id) != present) V::fail(ctx + d.name + ": accessor and mask disagree");
            }
            if (grey) { anyGrey = true; ++nGreySkipped; continue; }
            if (!valid.empty()) {
                anyRequired = true;
                if (valid.size() > 1) ++nDupValid;
                if (!present) { V::fail(ctx + "the directive " + d.name + " is present and valid but was not recognised"); continue; }
                if (d.kind == K_NUM) {
                    ++nNumValid;
                    const int32_t got = numField(cc, d.id);
                    bool match = false;
                    for (const Occ *o : valid) if (o->num == got) match = true;
                    if (!match) {
                        bool trailMatch = false;
                        for (const Occ &o : occ) if (o.cls == O_TRAIL && o.num == got) trailMatch = true;
                        bool anyInvalidOcc = false;
                        for (const Occ &o : occ) if (o.cls == O_INVALID || o.cls == O_TRAIL) anyInvalidOcc = true;
                        if (trailMatch) failOnce("numeric-arg:trailing-garbage-accepted", ctx + d.name + " took its value from an argument with trailing garbage");
                        else if (d.id == HttpHdrCcType::CC_MAX_STALE && got == ANY && anyInvalidOcc)
                            failOnce("max-stale:invalid-value-means-any", ctx + "a max-stale occurrence with an invalid value was not treated as absent but as max-stale without a value (and shadows the valid occurrence)");
                        else V::fail(ctx + d.name + " has value " + std::to_string(got) + ", none of the valid values written in the header");
                    }
                } else if (d.kind == K_LIST) {
                    ++nListValid;
                    const std::string got = S(d.id == HttpHdrCcType::CC_PRIVATE ? cc.private_ : cc.no_cache);
                    bool match = false, qp = false;
                    std::string joined;
                    for (const Occ *o : valid) {
                        if (o->list == got) match = true;
                        if (o->quotedPair) qp = true;
                        if (!o->list.empty()) { if (!joined.empty()) joined += ","; joined += o->list; }
                    }
                    if (!match && joined != got) {
                        if (qp) failOnce("quoted-string:quoted-pair-mishandled", ctx + d.name + " field list is [" + V::esc(got) + "]: a quoted-pair (backslash + octet) inside the quoted-string was not unescaped to that octet");
                        else V::fail(ctx + d.name + " field list is [" + V::esc(got) + "], not what the header says");
                    }
                }
            } else {
                // no valid occurrence: must be absent
                if (!occ.empty()) ++nNumInvalid;
                if (present) {
                    const int32_t got = d.kind == K_NUM ? numField(cc, d.id) : 0;
                    bool trailMatch = false;
                    for (const Occ &o : occ) if (o.cls == O_TRAIL && o.num == got) trailMatch = true;
                    if (occ.empty()) V::fail(ctx + d.name + " is set although the header does not contain it");
                    else if (d.kind == K_NUM && trail && trailMatch)
                        failOnce("numeric-arg:trailing-garbage-accepted", ctx + d.name + "=<digits><garbage> is an invalid numeric value but was accepted as " + std::to_string(got));
                    else if (d.id == HttpHdrCcType::CC_MAX_STALE && got == ANY)
                        failOnce("max-stale:invalid-value-means-any", ctx + "max-stale with an invalid (negative, non-numeric or too large) value was not treated as absent but as max-stale without a value (accept any staleness)");
                    else V::fail(ctx + d.name + " has only invalid values in the header but is set" + (d.kind == K_NUM ? " to " + std::to_string(got) : std::string()));
                }
            }
        }
        if (anyRequired && !ok) V::fail(ctx + "parse() returned false although valid known directives are present");
        if (anyInvalid) setClass(anyRequired ? "valid+invalid-values" : "only-invalid-values", 5);
        else if (anyRequired) setClass("valid-known-directives", 4);
        else if (anyGrey) setClass("lenient-syntax-only", 3);
        else setClass(anyKnown ? "known-none-required" : "unknown-only-or-empty", 0);
    }

    // pack -> parse fixpoint (only meaningful when parse() said the header has directives)
    if (!ok) return;
    ++nFixpoints;
    StrPacker pk;
    cc.packInto(&pk);
    HttpHdrCc cc2;
    const String ps(pk.out.c_str());
    const bool ok2 = cc2.parse(ps);
    const bool same = ok2 && cc2.mask == cc.mask && cc2.max_age == cc.max_age && cc2.s_maxage == cc.s_maxage && cc2.max_stale == cc.max_stale &&
                      cc2.stale_if_error == cc.stale_if_error && cc2.min_fresh == cc.min_fresh && S(cc2.private_) == S(cc.private_) &&
                      S(cc2.no_cache) == S(cc.no_cache) && S(cc2.other) == S(cc.other);
    if (!same) {
        const std::string msg = ctx + "packed as \"" + V::esc(pk.out) + "\" which parses as " + dump(cc2);
        const std::string lists = S(cc.private_) + S(cc.no_cache);
        if (lists.find('"') != std::string::npos || lists.find('\\') != std::string::npos)
            failOnce("pack:list-value-not-escaped", msg + " (packInto writes private=/no-cache= field lists between quotes without escaping the \" and \\ they contain)");
        else V::fail(msg);
    }
    // a second round must be stable too
    StrPacker pk2;
    cc2.packInto(&pk2);
    if (same && pk2.out != pk.out) V::fail(ctx + "second pack \"" + V::esc(pk2.out) + "\" differs from the first \"" + V::esc(pk.out) + "\"");
}

void enumStrings(const std::string &alpha, int maxLen, const std::function<void(const std::string &)> &f)
{
    std::vector<int> idx;
    for (int len = 0; len <= maxLen; ++len) {
        idx.assign(len, 0);
        for (;;) {
            std::string s;
            for (int i : idx) s += alpha[i];
            f(s);
            int k = len - 1;
            while (k >= 0 && ++idx[k] == (int)alpha.size()) { idx[k] = 0; --k; }
            if (k < 0) break;
        }
    }
}

void body(V::Ctx &ctx)
{
    // (a) lists of directive spellings
    std::vector<std::string> sp = {
        "public", "PUBLIC", "no-store", "must-revalidate", "only-if-cached", "immutable",
        "max-age=5", "max-age=-1", "max-age=99999999999", "max-age=\"5\"", "max-age=", "max-age=5x", "max-age", "Max-Age=0",
        "max-age=2147483647", "max-age=2147483648",
        "s-maxage=1", "max-stale", "max-stale=3", "max-stale=x", "min-fresh=2", "stale-if-error=1",
        "no-cache", "no-cache=\"a,b\"", "private", "private=\"x\"", "private=\"a\\\"b\"", "private=x", "no-cache=\"a",
        "ext", "ext=1", "ext=\"a,b\"", "",
    };
    if (!ctx.quick()) {
        const char *more[] = {"no-transform", "proxy-revalidate", "max-age = 5", "max-age=+5", "s-maxage=-0", "min-fresh=x", "stale-if-error=4294967297",
                              "max-stale=-1", "max-stale=99999999999", "no-cache=\"\"", "private=\"a\\\\\"", "No-Cache=\"Set-Cookie\"", "public=1"};
        for (const char *m : more) sp.push_back(m);
    }
    const char *seps[] = {",", ", ", " ,"};
    const int L = ctx.quick() ? 3 : 4;
    std::vector<int> idx;
    for (int len = 1; len <= L; ++len) {
        idx.assign(len, 0);
        for (;;) {
            std::string d;
            for (size_t i = 0; i < idx.size(); ++i) { if (i) d += ","; d += sp[idx[i]]; }
            if (V::begin_case("l:" + V::esc(d))) {
                for (const char *sep : seps) {
                    std::string h;
                    for (size_t i = 0; i < idx.size(); ++i) { if (i) h += sep; h += sp[idx[i]]; }
                    checkHeader(h);
                    if (len == 1 || (len == L && !ctx.quick())) break;    // separators are varied up to L-1 in the thorough tier
                }
                endCase();
            }
            int k = len - 1;
            while (k >= 0 && ++idx[k] == (int)sp.size()) { idx[k] = 0; --k; }
            if (k < 0) break;
        }
    }

    // (b) every string up to N over a numeric-argument alphabet as the argument of each numeric directive
    const char *numDirs[] = {"max-age", "s-maxage", "max-stale", "min-fresh", "stale-if-error"};
    enumStrings("0129-+x \"", ctx.quick() ? 4 : 6, [&](const std::string &s) {
        if (!V::begin_case("n:" + V::esc(s))) return;
        for (const char *d : numDirs) {
            checkHeader(std::string(d) + "=" + s);
            checkHeader("no-store, " + std::string(d) + "=" + s + ", public");
        }
        endCase();
    });
    // numerals around the int limits
    const char *vals[] = {"2147483646", "2147483647", "2147483648", "4294967295", "4294967296", "4294967297", "9999999999", "99999999999",
                          "9223372036854775807", "9223372036854775808", "18446744073709551616", "18446744073709551621", "00000000005", "0"
                         };
    const char *pre[] = {"", "0", "+", "-", " ", "\""};
    const char *suf[] = {"", "x", " ", "0", "\"", ".5"};
    for (const char *v : vals) for (const char *p : pre) for (const char *s : suf) {
                const std::string a = std::string(p) + v + s;
                if (!V::begin_case("N:" + V::esc(a))) continue;
                for (const char *d : numDirs) { checkHeader(std::string(d) + "=" + a); checkHeader(std::string(d) + "=" + a + ",max-age=1"); }
                endCase();
            }

    // (c) every string up to N over a quoted-string alphabet as the argument of private / no-cache
    enumStrings("a,\"\\ =", ctx.quick() ? 5 : 7, [&](const std::string &s) {
        if (!V::begin_case("q:" + V::esc(s))) return;
        checkHeader("private=" + s);
        checkHeader("no-cache=" + s);
        checkHeader("max-age=1, no-cache=" + s + ", no-store");
        endCase();
    });

    V::count("headers_parsed", nHeaders);
    V::count("pack_parse_fixpoints", nFixpoints);
    V::count("directive_verdicts", nDirectivesChecked);
    V::count("valid_numeric_checked", nNumValid);
    V::count("invalid_value_checked", nNumInvalid);
    V::count("valid_list_checked", nListValid);
    V::count("lenient_syntax_skipped", nGreySkipped);
    V::count("duplicate_valid_directives", nDupValid);
}

} // namespace

VHARNESS_MAIN(body)
