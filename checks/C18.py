"""C18 Collapsed forwarding: one upstream fetch, identical copies — E3, schedule exploration.

The real squid binary (ASan, lock-step shim, `collapsed_forwarding on`, memory cache) with the driver playing
k clients that ask for ONE fresh URL and the origin.  The origin answers the first fetch of the URL step by
step (head, body pieces, final piece | abort | head that forbids caching); the explorer runs EVERY
interleaving of the remaining client arrivals (and, in some cases, of the first client's disconnect) with
those origin steps.  Later fetches of the same URL (Squid re-forwarding after an abort / an unshareable
response) are answered at once with a new version.

Oracle (C18 statement):
  * cacheable, completely delivered response: the origin sees at most one request for the URL from the
    clients that arrived while the fetch was in progress, and every client ends up with the complete response
    of that fetch, byte-identical (period-251 body pattern seeded by the fetch number, marker headers);
  * any ending: a client-side response with complete framing is either a Squid-generated error (status >= 400)
    or exactly the complete response the origin completely produced for one fetch — never a short / mixed body
    with complete framing.  A visibly cut transfer (short of Content-Length, no last-chunk, connection closed) is
    tolerated.
"""
import os
import re
import time

from vverif import lockstep as ls
from vverif import lsexplore as ex
from vverif import httpref
from vverif.core import Result, Violation, HarnessError

LEVEL = 'model_checking'
CONF = ('collapsed_forwarding on\ncache_mem 64 MB\nmaximum_object_size_in_memory 8 MB\n'
        'retry_on_error off\n')
NPIECES = 3


# ------------------------------------------------------------------------------------------------ the bounded space

def endings(tier):
    """Each ending: dict(kind, framing, ...).  framing = how the ORIGIN frames fetch 1."""
    E = []
    for fr in ('cl', 'chunked', 'eof'):
        E.append({'kind': 'ok', 'framing': fr})
    for fr in ('cl', 'chunked'):
        for at in (0, 1, 2, 3):                    # abort instead of origin step `at` (0 = instead of the head)
            E.append({'kind': 'abort', 'framing': fr, 'at': at, 'how': 'fin'})
    E.append({'kind': 'abort', 'framing': 'cl', 'at': 2, 'how': 'rst'})
    E.append({'kind': 'abort', 'framing': 'eof', 'at': 2, 'how': 'rst'})
    for cc in ('no-store', 'private'):
        E.append({'kind': 'uncacheable', 'framing': 'cl', 'cc': cc})
    E.append({'kind': 'uncacheable', 'framing': 'chunked', 'cc': 'no-store'})
    if tier != 'quick':
        E.append({'kind': 'abort', 'framing': 'chunked', 'at': 2, 'how': 'rst'})
        E.append({'kind': 'abort', 'framing': 'cl', 'at': 1, 'how': 'rst'})
        E.append({'kind': 'uncacheable', 'framing': 'eof', 'cc': 'no-store'})
        E.append({'kind': 'uncacheable', 'framing': 'cl', 'cc': 'max-age=0'})
        E.append({'kind': 'uncacheable', 'framing': 'cl', 'cc': 'vary-star'})
        E.append({'kind': 'uncacheable', 'framing': 'cl', 'cc': 'status-500'})
    return E


def cases_for(tier):
    """leave: 0 = every client stays; n = client n disconnects at some point of the schedule (an extra actor).
    batch: number of clients whose requests reach Squid in the first burst (before Squid runs at all)."""
    out = []
    quick = tier == 'quick'
    for e in endings(tier):
        for size in ((9000, 70000) if quick else (3, 9000, 70000, 300000)):
            for pieces in ((3,) if quick else (3, 4)):
                for k in ((2, 3, 4) if quick else (2, 3, 4, 5)):
                    for batch in (1, 2, 3):
                        for leave in (0, 1, 2):
                            if batch > k or (batch == 3 and leave):
                                continue
                            if k >= 4 and (leave or size not in (9000, 70000)):
                                continue
                            if k == 5 and (size != 9000 or pieces != 3 or batch > 1):
                                continue
                            if pieces == 4 and (size not in (9000, 300000) or k > 3):
                                continue
                            if quick and size == 70000 and k > 2:
                                continue
                            c = dict(e)
                            c.update({'k': k, 'size': size, 'batch': batch, 'leave': leave, 'pieces': pieces})
                            out.append(c)
    return out


def case_name(c):
    s = '%s/%s' % (c['kind'], c['framing'])
    if c['kind'] == 'abort':
        s += '/at%d-%s' % (c['at'], c['how'])
    if c['kind'] == 'uncacheable':
        s += '/' + c['cc']
    return '%s/k%d/b%d/%dx%d%s' % (s, c['k'], c['batch'], c['size'], c.get('pieces', NPIECES), '/leave%d' % c['leave'] if c['leave'] else '')


# ------------------------------------------------------------------------------------------------ one execution

class Fetch:
    def __init__(self, conn, msg, version):
        self.c = conn
        self.msg = msg
        self.v = version
        self.stage = 0            # origin steps of the script done (fetch 1 only)
        self.complete = False     # the origin sent the whole response
        self.aborted = False      # the origin aborted it
        self.dropped = False      # Squid closed the connection before the response was complete


class Client:
    def __init__(self, idx):
        self.idx = idx
        self.c = None
        self.arrived = None       # number of origin steps done when it arrived
        self.arrived_idle = False   # no fetch of the URL was in progress when it arrived
        self.left = False


class Run:
    def __init__(self, w, case, uid):
        self.w, self.sq, self.case = w, w.sq, case
        self.path = '/c18/%s' % uid
        self.salt = sum(uid.encode()) % 97
        self.clients = [Client(i) for i in range(case['k'])]
        self.narrived = 0
        self.unsettled = 0        # requests sent since Squid last ran
        self.oconns = []
        self.fetches = []
        self.foreign = []
        self.tr = []
        self.facts = set()
        self.bad = None
        self.script = self.make_script()

    # ---- what the origin sends
    def body(self, v):
        return httpref.body_pattern(v, self.case['size'], self.salt)

    def head(self, v, first):
        c = self.case
        status = '200 OK'
        cc = 'max-age=86400'
        extra = []
        if c['kind'] == 'uncacheable':
            if c['cc'] == 'vary-star':
                extra.append('Vary: *')
            elif c['cc'] == 'status-500':
                status = '500 Internal Server Error'
                cc = None
            else:
                cc = c['cc']
        h = ['HTTP/1.1 ' + status, 'X-Verif-First: f%d' % v, 'Date: ' + ls.http_date(self.sq.now_us),
             'Content-Type: application/octet-stream']
        if cc:
            h.append('Cache-Control: ' + cc)
        h += extra
        h.append('Last-Modified: ' + ls.http_date(self.sq.now_us - 10 * 86400 * 1_000_000))
        h.append('ETag: "f%d"' % v)
        fr = c['framing'] if first else 'cl'
        if fr == 'cl':
            h.append('Content-Length: %d' % c['size'])
        elif fr == 'chunked':
            h.append('Transfer-Encoding: chunked')
        else:
            h.append('Connection: close')
        h.append('X-Verif-Last: f%d' % v)
        return ('\r\n'.join(h) + '\r\n\r\n').encode('latin1')

    def make_script(self):
        """Origin steps of fetch 1: list of ('send', bytes) / ('close',) / ('rst',); names for the transcript."""
        c = self.case
        size = c['size']
        b = self.body(1)
        npieces = c.get('pieces', NPIECES)
        cuts = [size * i // npieces for i in range(npieces + 1)]
        pieces = [b[cuts[i]:cuts[i + 1]] for i in range(npieces)]
        if c['framing'] == 'chunked':
            wire = [httpref.chunk_encode(p, [len(p)])[:-5] if p else b'' for p in pieces]      # strip the last-chunk
            wire[-1] += b'0\r\n\r\n'
        else:
            wire = pieces
        steps = [('head', 'send', None)]
        for i, p in enumerate(wire):
            steps.append(('piece%d' % (i + 1), 'send', p))
        if c['framing'] == 'eof':
            steps.append(('fin', 'close', None))
        if c['kind'] == 'abort':
            steps = steps[:c['at']] + [('abort', 'rst' if c['how'] == 'rst' else 'close', None)]
        return steps

    # ---- plumbing
    def request_bytes(self):
        return ('GET %s HTTP/1.1\r\nHost: %s\r\nAccept: */*\r\n\r\n' % (self.w.url(self.path), self.w.hostport())).encode()

    def origin_poll(self):
        for c in self.w.origin.accept_all():
            oc = ls.OriginConn(c, len(self.oconns))
            self.oconns.append(oc)
        for oc in self.oconns:
            if oc.c.closed:
                continue
            if oc.c.pump():
                oc.raw += oc.c.inbuf
                oc.c.inbuf = b''
                while True:
                    m = httpref.parse_request(oc.raw[oc.parsed_upto:])
                    if m.error:
                        self.bad = ('origin-request-malformed', 'origin received a malformed request: %s: %r' % (m.error, oc.raw[oc.parsed_upto:oc.parsed_upto + 200]))
                        break
                    if not m.complete or m.consumed <= 0:
                        break
                    oc.parsed_upto += m.consumed
                    self.note_request(oc, m)
            if oc.c.eof and not oc.c.closed:
                oc.c.close()
                for f in self.fetches:
                    if f.c is oc.c and not f.complete and not f.aborted:
                        f.dropped = True

    def in_progress(self):
        return any(not (f.complete or f.aborted or f.dropped) for f in self.fetches)

    def note_request(self, oc, m):
        if not m.target.decode('latin1').endswith(self.path) or m.method != b'GET':
            self.foreign.append(m.start)
            oc.c.send(b'HTTP/1.1 404 Not Found\r\nContent-Length: 0\r\n\r\n')
            return
        f = Fetch(oc.c, m, len(self.fetches) + 1)
        self.fetches.append(f)
        if m.get('if-none-match') or m.get('if-modified-since'):
            self.facts.add('conditional-refetch')
        if f.v > 1:
            # later fetches are answered at once and completely (same cacheability as the scripted one)
            data = self.head(f.v, False) + self.body(f.v)
            self.send_all(f.c, data)
            f.complete = True

    def send_all(self, conn, data):
        off = 0
        for _ in range(2000):
            if conn.closed or conn.reset:
                return False
            off += conn.send(data[off:])
            conn.sent = b''
            if off >= len(data):
                return True
            self.sq.settle(1)
        raise HarnessError('origin could not deliver %d bytes to squid (stuck at %d)' % (len(data), off))

    def settle(self):
        for _ in range(8):
            self.sq.settle(1)
            self.unsettled = 0
            before = (len(self.fetches), sum(len(c.c.inbuf) for c in self.clients if c.c is not None), [c.c.eof for c in self.clients if c.c is not None])
            self.origin_poll()
            for c in self.clients:
                if c.c is not None and not c.c.closed:
                    c.c.pump()
            after = (len(self.fetches), sum(len(c.c.inbuf) for c in self.clients if c.c is not None), [c.c.eof for c in self.clients if c.c is not None])
            if before == after:
                break

    # ---- actors
    def origin_done(self):
        return bool(self.fetches) and self.fetches[0].stage >= len(self.script)

    def enabled(self, last):
        en = []
        if self.narrived < self.case['k']:
            en.append(('C', 'arrive%d' % (self.narrived + 1)))
        if self.fetches and self.fetches[0].stage < len(self.script):
            en.append(('O', self.script[self.fetches[0].stage][0]))
        lv = self.case['leave']
        if lv and self.narrived >= lv and not self.clients[lv - 1].left:
            en.append(('L', 'leave%d' % lv))
        for i, (a, _) in enumerate(en):
            if a == last:
                en.insert(0, en.pop(i))
                break
        return en

    def arrive(self, n):
        for _ in range(n):
            cl = self.clients[self.narrived]
            cl.arrived = self.fetches[0].stage if self.fetches else -1
            # in a burst only the first request can find the URL idle: Squid handles the others after it
            cl.arrived_idle = not self.in_progress() and not self.unsettled
            self.unsettled += 1
            cl.c = self.sq.client()
            cl.c.send(self.request_bytes())
            self.narrived += 1

    def do(self, actor, name):
        if actor == 'C':
            first = self.narrived == 0
            self.arrive(self.case['batch'] if first else 1)
        elif actor == 'L':
            cl = self.clients[self.case['leave'] - 1]
            cl.left = True
            cl.c.pump()
            cl.c.close()
        else:
            f = self.fetches[0]
            _, what, data = self.script[f.stage]
            f.stage += 1
            if what == 'send':
                if name == 'head':
                    data = self.head(1, True)
                self.send_all(f.c, data)
            elif what == 'close':
                f.c.close()
            else:
                f.c.rst()
            if f.stage == len(self.script):
                if self.case['kind'] == 'abort':
                    f.aborted = True
                else:
                    f.complete = True

    # ---- oracle
    def judge_client(self, cl, final):
        """(tag, violation or None) for one client."""
        c = cl.c
        if cl.left:
            return 'left', None
        m = httpref.parse_response(c.inbuf, 'GET', eof=c.eof)
        if not m.head_complete and not m.error:
            if c.eof:
                return 'closed-without-response', None
            return 'no-response', None
        if m.error:
            return 'malformed', ('malformed', 'client %d received a malformed response: %s: %r' % (cl.idx + 1, m.error, c.inbuf[:200]))
        first = m.get('x-verif-first')
        mv = re.match(r'^f(\d+)$', first or '')
        if mv is None:
            if m.status >= 400:
                return 'error-%d%s' % (m.status, '' if m.complete else ':incomplete'), None
            return 'unmarked-%d' % m.status, ('unmarked', 'client %d received a %d response that carries no marker of any origin response: %r' % (cl.idx + 1, m.status, c.inbuf[:300]))
        v = int(mv.group(1))
        if v > len(self.fetches):
            return 'unknown-version', ('unknown-version', 'client %d received marker f%d but the origin saw only %d fetches' % (cl.idx + 1, v, len(self.fetches)))
        f = self.fetches[v - 1]
        want = self.body(v)
        if m.get('x-verif-last') != first or m.get('etag') != '"f%d"' % v:
            return 'header-mix', ('header-mix', 'client %d: header fields of different origin responses mixed: %r %r %r' % (cl.idx + 1, first, m.get('x-verif-last'), m.get('etag')))
        presented_complete = m.complete and (m.framing != 'close' or c.eof)
        if not presented_complete:
            if not want.startswith(m.body):
                self.facts.add('cut-transfer-with-foreign-bytes')
            if c.eof:
                return 'v%d:cut-visibly' % v, None
            return 'v%d:pending' % v, None
        # complete framing
        if m.framing == 'close':
            self.facts.add('close-delimited-to-client')
        if m.body == want:
            if not f.complete:
                return 'v%d:complete-before-origin' % v, ('complete-before-origin', 'client %d has a complete copy of fetch %d, which the origin never finished sending' % (cl.idx + 1, v))
            if m.declared_length is not None and m.declared_length != len(want):
                return 'v%d:bad-length' % v, ('bad-length', 'client %d: Content-Length %d for a %d-byte body' % (cl.idx + 1, m.declared_length, len(want)))
            return 'v%d:complete' % v, None
        if want.startswith(m.body):
            what = 'a TRUNCATED body presented as complete: %d of %d bytes of fetch %d, framing %s%s' % (
                len(m.body), len(want), v, m.framing, ', connection then closed' if c.eof else '')
            return 'v%d:SHORT-AS-COMPLETE' % v, ('short-as-complete:%s' % m.framing, 'client %d received %s' % (cl.idx + 1, what))
        d = next((i for i in range(min(len(want), len(m.body))) if want[i] != m.body[i]), min(len(want), len(m.body)))
        return 'v%d:WRONG-BODY' % v, ('wrong-body', 'client %d received, with complete framing, %d bytes that differ from fetch %d (%d bytes) from offset %d on' % (
            cl.idx + 1, len(m.body), v, len(want), d))

    def check(self, final):
        if self.bad:
            return self.bad
        tags = []
        for cl in self.clients:
            if cl.c is None:
                tags.append('-')
                continue
            tag, v = self.judge_client(cl, final)
            tags.append(tag)
            if v:
                return v
        self.tags = tags
        if not final:
            return None
        c = self.case
        kind = c['kind']
        in_window = [cl for cl in self.clients if not cl.arrived_idle]
        idle = [cl for cl in self.clients if cl.arrived_idle]
        if kind == 'ok':
            if len(self.fetches) > len(idle):
                return ('extra-origin-request', '%d clients arrived while a fetch of the cacheable URL was in progress and %d when none was, but the origin received %d requests for it' % (
                    len(in_window), len(idle), len(self.fetches)))
            for cl in self.clients:
                tag = tags[cl.idx]
                if cl.left:
                    continue
                if not re.match(r'^v\d+:complete$', tag):
                    return ('not-delivered:%s' % re.sub(r'\d+', '', tag), 'client %d (arrived after origin step %d) did not end up with the complete response although the origin delivered '
                            'a cacheable response completely: %s' % (cl.idx + 1, cl.arrived, tag))
        else:
            for cl in self.clients:
                if tags[cl.idx].endswith(':pending') or tags[cl.idx] == 'no-response':
                    self.facts.add('client-left-hanging')
        return None

    def snap(self, label):
        self.tr.append('%s | clients %s | fetches %s' % (label, ' '.join(
            '-' if cl.c is None else ('L' if cl.left else '%d%s' % (len(cl.c.inbuf), 'e' if cl.c.eof else '')) for cl in self.clients),
            ' '.join('f%d:%d%s' % (f.v, f.stage, 'c' if f.complete else ('a' if f.aborted else '')) for f in self.fetches)))


def execute(w, case, choices, uid):
    run = Run(w, case, uid)
    ch = ex.Chooser(choices)
    states, nact, v = [], 0, None
    try:
        last, idle = None, 0
        while v is None:
            en = run.enabled(last)
            if not en:
                break
            if len(en) == 1 and en[0][0] == 'L' and not run.fetches:
                break
            states.append(ex.h64(case_name(case), '\n'.join(run.tr)))
            a, name = en[ch.choose(len(en), '/'.join(s for _, s in en))]
            run.do(a, name)
            last = a
            nact += 1
            run.settle()
            run.snap(name)
            v = run.check(False)
        if v is None:
            for _ in range(3):
                run.settle()
            if case['kind'] != 'ok' or any(t.endswith('pending') or t == 'no-response' for t in getattr(run, 'tags', [])):
                # give Squid virtual time to give up on / clean up after the broken fetch (no oracle depends on it)
                run.check(False)
                if any(t.endswith('pending') or t == 'no-response' for t in run.tags):
                    for _ in range(4):
                        run.sq.advance(1000, rounds=1)
                        run.settle()
            run.snap('end')
            v = run.check(True)
    finally:
        for cl in run.clients:
            if cl.c is not None:
                cl.c.close()
        for oc in run.oconns:
            oc.c.close()
        w.sq.settle(2)
        for c in w.origin.accept_all():
            c.close()
    tags = getattr(run, 'tags', [])
    collapsed = sum(1 for cl in run.clients if cl.c is not None and not cl.arrived_idle)
    if collapsed >= 1 and len(run.fetches) == 1:
        run.facts.add('collapsed')
    if len(run.fetches) > 1:
        run.facts.add('refetched')
    for t in tags:
        run.facts.add('tag:' + re.sub(r'\d+', '', t, count=1) if t.startswith('v') else 'tag:' + t)
    return {'violation': v, 'transcript': run.tr, 'states': states, 'transitions': nact, 'chooser': ch,
            'facts': sorted(run.facts), 'fetches': len(run.fetches), 'tags': tags, 'foreign': run.foreign}


# ------------------------------------------------------------------------------------------------ run

def make_world(ctx, shard):
    return ls.World(ctx, 'w%d' % shard, ls.port_base_for_check(ctx.pid, shard), conf=CONF, memory_cache=True)


ASSUME = ['the real squid binary (ASan build of the current tree, -N, collapsed_forwarding on, memory cache) runs under the lock-step/virtual-time shim; clients and origin are played by the driver',
          'each environment action (client arrival(s), client disconnect, one origin step) is followed by running Squid to quiescence; interleavings are at that granularity',
          'fresh URL per execution on a reused instance (health-checked after every execution); violations are replayed twice on a fresh instance before being reported',
          'clients speak HTTP/1.1, so Squid can always frame a body of unknown length with chunked coding; a response with close-delimited framing counts as complete once Squid closed the connection',
          'virtual time stands still during the schedule (no timeout fires)',
          'thorough tier, SMP part: checks/C19.py\'s SMP lock-step world (2 workers, shared memory cache + rock, collapsed_forwarding on) and executor are reused; '
          'kid steps are explored with <= 2 (4000-byte object) / <= 1 (30000, 90000) deviations from the default schedule']


def _wrap(one, case, ch):
    r = one(case, ch.prefix)
    ch.points = r['chooser'].points
    return r


def _taken(ch):
    return [p[1].split('/')[p[2]] for p in ch.points]


def build(ctx):
    t = time.time()
    ls.build_squid(ctx)
    waited = time.time() - t
    if waited > 20:                 # a long wait in the build lock / a rebuild is not the check's time
        ctx.deadline_s += waited - 20
    return waited


# ------------------------------------------------------------------------------------------------ SMP part (thorough)

def smp_cases():
    """Collapsing ACROSS workers (Transients + CollapsedForwarding notifications): C19's SMP lock-step machinery with
    collapsed_forwarding on and C18's oracle.  A (worker 1) starts the fetch; B (worker 2) arrives after the origin has
    received it and before the origin finishes; C (worker 2) arrives after the end."""
    out = []
    for sz, fr, bound in (('slot+1', 'cl', 2), ('slot+1', 'chunked', 2), ('1page', 'cl', 1), ('1page', 'chunked', 1), ('3pages', 'cl', 1)):
        nparts = 6 if bound == 2 else 2
        for part in range(nparts):
            out.append({'scenario': 'read-during-write', 'size': sz, 'framing': fr, 'cf': 'on', 'store': 'shm', 'bound': bound, 'part': part, 'nparts': nparts})
    return out


def smp_judge(r):
    """C18's oracle on one SMP execution (r = result of C19.execute): C19's per-response oracle has already run."""
    if r['violation']:
        return r['violation']
    if r['fetches'] > 1:
        return ('smp-extra-origin-request', 'client B (worker 2) arrived while worker 1 was fetching the cacheable URL, yet the origin received %d requests for it' % r['fetches'])
    bad = {n: t for n, t in r['tags'].items() if not re.match(r'^(hit|miss):v1:complete$', t)}
    if bad:
        return ('smp-not-delivered', 'the origin delivered a cacheable response completely but client(s) %r did not end up with the complete response' % bad)
    return None


def run_smp(ctx, t_end):
    from vverif import core, lssmp
    c19 = core.load_check('C19')
    lssmp.ensure_smp_shim(ctx)
    c19.make_template(ctx)
    units = smp_cases()

    def worker(shard, mine):
        out = {'units_done': 0, 'execs': 0, 'states': set(), 'transitions': 0, 'violations': [], 'collapsed': 0, 'kicks': 0, 'crashes': [], 'sample': None, 'replays': 0}
        st = {'w': None, 'n': 0}

        def fresh():
            if st['w'] is not None:
                out['kicks'] += st['w'].sq.kicks
                st['w'].stop()
                st['w'] = None
            w = c19.World(ctx, 'smp%d' % shard, ls.port_base_for_check(ctx.pid, shard) + 10, 'on', 'shm')
            try:
                w.start()
            except BaseException:
                w.stop()
                raise
            st['w'] = w

        def one(case, choices):
            if st['w'] is None:
                fresh()
            st['n'] += 1
            r = c19.execute(st['w'], case, choices, 'm%02dn%06d' % (shard, st['n']))
            r['violation'] = smp_judge(r)
            hp = st['w'].sq.health_problems()
            if hp:
                r['crash'] = hp
                fresh()
            return r
        try:
            for case in mine:
                if time.time() > t_end:
                    break

                def on(ch, r):
                    out['execs'] += 1
                    out['states'].update(r['states'])
                    out['transitions'] += r['transitions']
                    if r['fetches'] == 1 and r['tags'].get('B', '').endswith('v1:complete'):
                        out['collapsed'] += 1
                    if r.get('crash'):
                        out['crashes'].append((c19.case_name(case), list(ch.choices()), '; '.join(r['crash'])[:2000]))
                    if out['sample'] is None and out['execs'] == 3:
                        out['sample'] = {'case': 'smp/' + c19.case_name(case), 'deviations': c19._taken(ch), 'clients': r['tags'], 'origin_requests': r['fetches']}
                    if r['violation']:
                        k0, what = r['violation']
                        k = 'smp/%s:%s' % (case['framing'], k0)
                        if not any(k == kk for kk, _, _ in out['violations']):
                            for attempt in range(2):
                                if attempt == 0:
                                    fresh()
                                r2 = one(case, list(ch.choices()))
                                out['replays'] += 1
                                if not r2['violation'] or r2['violation'][0] != k0:
                                    raise HarnessError('SMP violation not reproducible: %s %r: %s' % (c19.case_name(case), ch.choices(), what))
                            out['violations'].append((k, 'SMP, %s, deviations %s: %s' % (c19.case_name(case), c19._taken(ch), what), {'smp': True, 'case': case, 'choices': list(ch.choices())}))
                        return len(out['violations']) >= 4
                    return False
                res = c19.explore_part(lambda ch: c19._wrap(one, case, ch), on, case['bound'], case['part'], case['nparts'], t_end)
                if res['stopped'] is None:
                    out['units_done'] += 1
                elif res['stopped'] == 'on_exec':
                    break
        finally:
            if st['w'] is not None:
                out['kicks'] += st['w'].sq.kicks
                st['w'].stop()
        out['states'] = list(out['states'])
        return out
    try:
        parts = ls.run_sharded(ctx, worker, units)
    finally:
        import shutil
        shutil.rmtree(os.path.join(ctx.rundir, 'rock-template'), ignore_errors=True)
    agg = {'units': len(units), 'units_done': 0, 'execs': 0, 'transitions': 0, 'collapsed': 0, 'kicks': 0, 'replays': 0}
    states, vio, crashes, samples = set(), {}, [], []
    for p in parts:
        if p is None:
            continue
        for k in ('units_done', 'execs', 'transitions', 'collapsed', 'kicks', 'replays'):
            agg[k] += p[k]
        states.update(p['states'])
        for k, what, rp in p['violations']:
            vio.setdefault(k, (what, rp))
        crashes += p['crashes']
        if p['sample']:
            samples.append(p['sample'])
    return agg, states, vio, crashes, samples


def run(ctx):
    build_s = build(ctx)
    cases = cases_for(ctx.tier)
    cases.sort(key=lambda c: (-(c['k'] + (2 if c['leave'] else 0) + c['pieces'] - 3), case_name(c)))
    t_end = ctx.t0 + ctx.deadline_s - 20

    def worker(shard, mine):
        out = {'cases_done': [], 'execs': 0, 'states': set(), 'transitions': 0, 'violations': [], 'facts': {}, 'kicks': 0, 'replays': 0,
               'samples': [], 'crashes': [], 'deadline': False, 'per_case': {}, 'kindfacts': {}}
        st = {'w': None, 'n': 0}

        def fresh():
            if st['w'] is not None:
                out['kicks'] += st['w'].sq.kicks
                st['w'].stop()
                st['w'] = None
            for attempt in range(3):
                st['w'] = make_world(ctx, shard)
                try:
                    st['w'].start()
                    break
                except HarnessError:
                    # lockstep.Squid gives an instance 60 s of real time to come up; an overloaded machine may need more
                    st['w'].stop()
                    st['w'] = None
                    if attempt == 2:
                        raise

        def one(case, choices):
            if st['w'] is None:
                fresh()
            st['n'] += 1
            r = execute(st['w'], case, choices, 's%02dn%06d' % (shard, st['n']))
            hp = st['w'].sq.health_problems()
            if hp:
                r['crash'] = hp
                fresh()
            return r
        try:
            first = {}
            if mine:
                def on0(ch, r):
                    first[tuple(ch.choices())] = (r['transcript'], r['tags'])
                ex.explore(lambda ch: _wrap(one, mine[0], ch), on0, max_exec=6)
                out['replays'] += len(first)
                fresh()
                st['n'] = 0
            for case in mine:
                if time.time() > t_end:
                    out['deadline'] = True
                    break
                cn = case_name(case)

                def on(ch, r):
                    out['execs'] += 1
                    out['states'].update(r['states'])
                    out['transitions'] += r['transitions']
                    for f in r['facts']:
                        out['facts'][f] = out['facts'].get(f, 0) + 1
                        kf = '%s:%s' % (case['kind'], f)
                        out['kindfacts'][kf] = out['kindfacts'].get(kf, 0) + 1
                    key = tuple(ch.choices())
                    if case is mine[0] and key in first and first[key] != (r['transcript'], r['tags']):
                        raise HarnessError('nondeterminism: %s %r gave different transcripts on two instances:\n%r\n%r' % (cn, list(key), first[key], (r['transcript'], r['tags'])))
                    if r.get('crash'):
                        out['crashes'].append((cn, list(key), '; '.join(r['crash'])[:2000]))
                    if r['foreign']:
                        raise HarnessError('origin received a request for another URL during %s: %r' % (cn, r['foreign'][:2]))
                    if len(out['samples']) < 2 and out['execs'] % 41 == 7:
                        out['samples'].append({'case': cn, 'choices': list(key), 'schedule': _taken(ch), 'transcript': r['transcript'], 'clients': r['tags'],
                                               'origin_requests': r['fetches']})
                    if r['violation']:
                        k, what = r['violation']
                        k = '%s/%s:%s' % (case['kind'], case['framing'], k)
                        if not any(k == k0 for k0, _, _ in out['violations']):
                            for attempt in range(2):
                                if attempt == 0:
                                    fresh()
                                r2 = one(case, list(key))
                                out['replays'] += 1
                                if not r2['violation'] or r2['violation'][0] != r['violation'][0]:
                                    raise HarnessError('violation not reproducible: %s %r: %s / replay gave %r' % (cn, list(key), what, r2['violation']))
                            out['violations'].append((k, '%s, schedule [%s]: %s' % (cn, ' '.join(_taken(ch)), what), {'case': case, 'choices': list(key)}))
                        if len(out['violations']) >= 8:
                            return True
                    return False
                res = ex.explore(lambda ch: _wrap(one, case, ch), on, t_end=t_end)
                out['per_case'][cn] = res['executions']
                if res['exhausted']:
                    out['cases_done'].append(cn)
                elif res['stopped'] == 'on_exec':
                    break
                else:
                    out['deadline'] = True
                    break
        finally:
            if st['w'] is not None:
                out['kicks'] += st['w'].sq.kicks
                st['w'].stop()
        out['states'] = list(out['states'])
        return out

    parts = ls.run_sharded(ctx, worker, cases)
    states = set()
    tot = {'transitions': 0, 'kicks': 0, 'replays': 0, 'execs': 0}
    facts, kindfacts, vio, crashes, samples, per_case, done = {}, {}, {}, [], [], {}, []
    deadline = False
    for p in parts:
        if p is None:
            continue
        states.update(p['states'])
        for k in tot:
            tot[k] += p[k]
        deadline = deadline or p['deadline']
        for k, n in p['facts'].items():
            facts[k] = facts.get(k, 0) + n
        for k, n in p['kindfacts'].items():
            kindfacts[k] = kindfacts.get(k, 0) + n
        for k, what, rp in p['violations']:
            vio.setdefault(k, (what, rp))
        crashes += p['crashes']
        samples += p['samples']
        per_case.update(p['per_case'])
        done += p['cases_done']
    complete = len(done) == len(cases)
    smp = None
    if not ctx.quick and not vio and not crashes:
        smp, smp_states, smp_vio, smp_crashes, smp_samples = run_smp(ctx, ctx.t0 + ctx.deadline_s - 40)
        states.update(smp_states)
        tot['transitions'] += smp['transitions']
        tot['execs'] += smp['execs']
        tot['kicks'] += smp['kicks']
        tot['replays'] += smp['replays']
        vio.update(smp_vio)
        crashes += [('smp/' + n, c, w) for n, c, w in smp_crashes]
        samples = samples[:4] + smp_samples[:2]
        if smp['units_done'] < smp['units']:
            deadline = True
        elif not smp_vio and smp['collapsed'] < 50:
            raise HarnessError('vacuity guard: only %d SMP executions in which worker 2 collapsed onto worker 1\'s fetch' % smp['collapsed'])
    violations = [Violation(k, what, rp) for k, (what, rp) in sorted(vio.items())]
    seen_crash = set()
    for name, choices, what in crashes:
        ck = 'crash:' + '/'.join(name.split('/')[:2])
        if ck not in seen_crash:
            seen_crash.add(ck)
            violations.append(Violation(ck, 'squid crashed/asserted during %s %r: %s' % (name, choices, what), {'case': None}))
    if complete and not violations:
        need = {'ok:collapsed': 50, 'ok:tag:v:complete': 100, 'abort:tag:v:cut-visibly': 20, 'uncacheable:tag:v:complete': 20}
        miss = {f: kindfacts.get(f, 0) for f, n in need.items() if kindfacts.get(f, 0) < n}
        if miss:
            raise HarnessError('vacuity guard: too few executions with %r (all: %r)' % (miss, kindfacts))
    cov = {
        'states': len(states), 'transitions': tot['transitions'], 'traces_validated_against_impl': tot['execs'],
        'cases': len(cases), 'cases_completed': len(done), 'max_executions_in_one_case': max(per_case.values()) if per_case else 0,
        'bound_completed': ('all interleavings of all %d cases' % len(cases)) if complete else 'partial: %d of %d cases complete' % (len(done), len(cases)),
        'exhaustive': complete and not deadline, 'kicks': tot['kicks'], 'determinism_replays': tot['replays'], 'facts': facts, 'facts_by_ending': kindfacts,
        'rule': 'case = ending of the first fetch (complete cacheable / abort instead of origin step n by FIN or RST / response that must not be shared) x origin framing '
                '(Content-Length, chunked, close-delimited) x k clients x {first client alone, first two clients in one burst} x {first client stays, disconnects at any point} x size; '
                'per case every order of the enabled actions {next client arrives, next origin step, first client disconnects} is executed',
        'smp_part': smp if smp is not None else 'thorough tier only', 'build_step_s': round(build_s, 1), 'samples': samples[:6], 'executions_per_case_sample': dict(sorted(per_case.items())[:10]),
    }
    return Result(LEVEL, cov, violations, ASSUME)


def replay(ctx, data):
    ls.build_squid(ctx)
    if not data.get('case'):
        raise HarnessError('this replay file records a crash; re-run the tier to reproduce')
    if data.get('smp'):
        from vverif import core, lssmp
        c19 = core.load_check('C19')
        lssmp.ensure_smp_shim(ctx)
        w = c19.World(ctx, 'smp0', ls.port_base_for_check(ctx.pid, 0) + 10, 'on', 'shm')
        try:
            w.start()
            r = c19.execute(w, data['case'], data['choices'], 'm00n000001')
            print('\n'.join(r['transcript']))
            print('clients:', r['tags'], 'origin requests:', r['fetches'])
            v = smp_judge(r)
        finally:
            w.stop()
        return Result(LEVEL, {}, [Violation('smp/%s:%s' % (data['case']['framing'], v[0]), v[1], data)] if v else [], ASSUME)
    w = make_world(ctx, 0)
    w.start()
    try:
        r = execute(w, data['case'], data['choices'], 's00n000001')
        print('\n'.join(r['transcript']))
        print('clients:', r['tags'], 'origin requests:', r['fetches'])
        hp = w.sq.health_problems()
        if hp:
            print('squid problems:', hp)
    finally:
        w.stop()
    v = []
    if r['violation']:
        k = '%s/%s:%s' % (data['case']['kind'], data['case']['framing'], r['violation'][0])
        v.append(Violation(k, r['violation'][1], data))
    return Result(LEVEL, {}, v, ASSUME)
