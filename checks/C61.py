"""C61 Cache manager enforces access rules and passwords — E3, configuration sweep x request product.

Every configuration = (list of <= 2 cachemgr_passwd lines from a pool) x (one of three http_access sections built from
the built-in `manager` and `localhost` ACLs) is loaded into the real squid binary; then every manager request of the
product URL form x credentials x client source address is sent to it.  Oracle (necessary conditions only, from the
property statement and the cachemgr_passwd / http_access documentation in squid.conf.documented):
  * a report (info / menu / config markers in the response) or a performed shutdown (Squid logs the shutdown and exits)
    may only happen if the reference first-match evaluation of http_access allows the client for that URL, and
  * the action is not disabled and, if protected, the request carried the configured password, and
  * actions marked "*" in the documentation (shutdown, config) are never performed without a configured, presented password.
"""
import base64
import os
import re
import signal
import socket
import time

from vverif import lockstep as ls
from vverif import httpref
from vverif.core import Result, Violation, HarnessError

LEVEL = 'exploration'

# ------------------------------------------------------------------ configuration pool
# (password, [actions]); quick uses the first 4 lines, thorough all 9.  Every performed shutdown costs an instance restart
# (~5 s and much more on a loaded machine), which bounds how often shutdown may be permitted inside the space.
PASSWD_POOL = [
    ('secret', ['info']),
    ('disable', ['shutdown']),
    ('none', ['menu']),
    ('secret', ['all']),
    ('other', ['shutdown']),
    ('none', ['config']),
    ('disable', ['info']),
    ('disable', ['all']),
    ('secret', ['shutdown', 'menu']),
]
# `none` on an action that kills Squid is only enumerated as a single-line list (8 credential forms x allowed addresses = up
# to 16 restarts per configuration); inside the pool `none config` exercises `none` on a password-requiring action instead
EXTRA_LISTS_THOROUGH = [[('none', ['shutdown'])]]
# http_access sections over the built-in ACLs manager / localhost / all
ACCESS = {
    'H1': [('allow', ['localhost', 'manager']), ('deny', ['manager']), ('allow', ['all'])],
    'H2': [('deny', ['manager']), ('allow', ['all'])],
    'H3': [('allow', ['manager']), ('deny', ['all'])],
}
# documentation (cachemgr_passwd): "* Indicates actions which will not be performed without a valid password, others can be
# performed if not listed here": config *, offline_toggle *, reconfigure *, shutdown *
NEEDS_PASSWORD = {'shutdown', 'config'}
ACTIONS = ['info', 'menu', 'config', 'shutdown']

# ------------------------------------------------------------------ request product
URLS_QUICK = ['info', 'menu', 'shutdown', 'config', 'unknown', 'info?x=1', 'INFO', 'in%66o', 'SHUTDOWN', 'abs:info', 'absuc:info',
              'absftp:info']
# abs: absolute-form request target naming this Squid (http://squid.verif:<port>/...); absuc: the same with the host in upper
# case; absftp: the same with scheme ftp (the manager ACL is a regular expression over the URL, the dispatch to the cache
# manager goes by host, port and path prefix: both must agree)
URLS_THOROUGH = URLS_QUICK
QUICK_POOL = 4
CREDS = ['none', 'basic-secret', 'basic-other', 'basic-wrong', 'basic-prefix', 'basic-emptyuser-secret', 'basic-nocolon-secret',
         'userinfo-secret']
SOURCES = ['127.0.0.1', '127.0.0.2']
MANAGER_RE = re.compile(r'^[^:]+://[^/]+/squid-internal-mgr/', re.I)      # the documented default of `acl manager`


def requests_of(tier):
    urls = URLS_QUICK if tier == 'quick' else URLS_THOROUGH
    return [{'url': u, 'cred': c, 'src': s} for s in SOURCES for u in urls for c in CREDS]


def presented_password(cred):
    """The password the request carries (RFC 7617 user-pass = user-id ":" password; URI userinfo user:password), or None."""
    return {'none': None, 'basic-secret': 'secret', 'basic-other': 'other', 'basic-wrong': 'wrong', 'basic-prefix': 'secre',
            'basic-emptyuser-secret': 'secret', 'basic-nocolon-secret': None, 'userinfo-secret': 'secret'}[cred]


ABS_RE = re.compile(r'^(abs\w*):(.*)$')


def action_named(url):
    """The action name a URL form spells (without the abs*: form prefix and the query)."""
    m = ABS_RE.match(url)
    return (m.group(2) if m else url).split('?')[0]


def build_request(req, port):
    """Returns (request bytes, the URL Squid evaluates http_access on)."""
    u = req['url']
    m = ABS_RE.match(u)
    form, rest = (m.group(1), m.group(2)) if m else ('', u)
    absform = bool(form) or req['cred'].startswith('userinfo')
    path = '/squid-internal-mgr/' + rest
    host = 'squid.verif:%d' % port
    scheme = 'ftp' if form == 'absftp' else 'http'
    urlhost = host.upper() if form == 'absuc' else host
    hdr = ''
    c = req['cred']
    userinfo = ''
    if c == 'basic-secret':
        hdr = 'admin:secret'
    elif c == 'basic-other':
        hdr = 'admin:other'
    elif c == 'basic-wrong':
        hdr = 'admin:wrong'
    elif c == 'basic-prefix':
        hdr = 'admin:secre'
    elif c == 'basic-emptyuser-secret':
        hdr = ':secret'
    elif c == 'basic-nocolon-secret':
        hdr = 'secret'
    elif c == 'userinfo-secret':
        userinfo = 'admin:secret@'
    target = ('%s://%s%s%s' % (scheme, userinfo, urlhost, path)) if absform else path
    raw = 'GET %s HTTP/1.1\r\nHost: %s\r\n' % (target, host)
    if hdr:
        raw += 'Authorization: Basic %s\r\n' % base64.b64encode(hdr.encode()).decode()
    return (raw + '\r\n').encode('latin1'), '%s://%s%s' % (scheme, urlhost, path)


# ------------------------------------------------------------------ reference model

def ref_access(hname, req, effective_url):
    """First-match evaluation of the http_access section (squid.conf.documented: http_access, acl localhost/manager/all)."""
    def acl(name):
        if name == 'all':
            return True
        if name == 'localhost':
            return req['src'] == '127.0.0.1'
        if name == 'manager':
            return bool(MANAGER_RE.match(effective_url))
        raise HarnessError(name)
    rules = ACCESS[hname]
    for action, names in rules:
        if all(acl(n) for n in names):
            return action == 'allow'
    return rules[-1][0] != 'allow'


def ref_may_perform(action, lines, password):
    """May `action` be performed for a request presenting `password` under the cachemgr_passwd `lines`?
    The documentation does not say which line wins when two lines cover the same action (by name and by `all`), so the
    reference accepts what any covering line permits (necessary condition only); returns (bool, reason)."""
    cover = [(pw, acts) for pw, acts in lines if action in acts or 'all' in acts]
    if not cover:
        if action in NEEDS_PASSWORD:
            return False, 'action needs a password and none is configured'
        return True, 'public by default'
    for pw, _ in cover:
        if pw == 'disable':
            continue
        if pw == 'none' or (password is not None and password == pw):
            return True, 'permitted by line %s' % pw
    return False, 'covering lines %r do not permit it with password %r' % ([pw for pw, _ in cover], password)


MARKERS = {
    'info': [b'Squid Object Cache: Version', b'Connection information for squid'],
    'menu': [b'\tCache Manager Menu', b'\tGeneral Runtime Information'],
    'config': [b'visible_hostname squid.verif', b'cachemgr_passwd'],
}
SHUTDOWN_LOG = re.compile(r'Shutdown by Cache Manager command|Preparing for shutdown')


def reports_in(body_and_head):
    return sorted(a for a, ms in MARKERS.items() if any(m in body_and_head for m in ms))


def conf_text(lines, hname):
    L = ['cache deny all']
    for pw, acts in lines:
        L.append('cachemgr_passwd %s %s' % (pw, ' '.join(acts)))
    for action, names in ACCESS[hname]:
        L.append('http_access %s %s' % (action, ' '.join(names)))
    return '\n'.join(L)


def cfg_key(cfg):
    lines, hname = cfg
    return '%s | %s' % ('; '.join('cachemgr_passwd %s %s' % (pw, ' '.join(a)) for pw, a in lines) or 'no cachemgr_passwd', hname)


def req_key(r):
    return '%s %s from %s' % (r['url'], r['cred'], r['src'])


def config_space(tier):
    pool = PASSWD_POOL[:QUICK_POOL] if tier == 'quick' else PASSWD_POOL
    lists = [[]] + [[a] for a in pool] + [[a, b] for a in pool for b in pool if a is not b]
    if tier != 'quick':
        lists += EXTRA_LISTS_THOROUGH
    space = [(l, h) for l in lists for h in (('H1', 'H2') if tier == 'quick' else ('H1', 'H2', 'H3'))]
    # scheduling only: shards get the configurations round-robin, and every performed shutdown costs an instance restart, so
    # order the list by an upper estimate of that cost to balance the shards
    reqs = requests_of(tier)

    def cost(cfg):
        return sum(1 for r in reqs if names_shutdown(r) and ref_access(cfg[1], r, build_request(r, 0)[1])
                   and ref_may_perform('shutdown', cfg[0], presented_password(r['cred']))[0])
    return sorted(space, key=lambda c: -cost(c))


# ------------------------------------------------------------------ world

class MWorld:
    def __init__(self, ctx, shard, name=None):
        self.ctx = ctx
        self.shard = shard
        self.pb = ls.port_base_for_check(ctx.pid, shard)
        self.name = name or ('w%d' % shard)
        self.sq = None
        self.starts = 0
        self.reconfigs = 0
        self.kicks = 0
        self.cfg = None

    def start(self, cfg):
        self.drop()
        for attempt in range(5):
            self.sq = ls.Squid(self.ctx, self.name, self.pb, conf=conf_text(*cfg), default_acl=False)
            try:
                self.sq.start()
                break
            except HarnessError as e:
                # on an overloaded machine the (real-time) 60 s start-up allowance of the engine can expire
                self.sq.cleanup()
                if attempt == 4 or 'not ready after' not in str(e):
                    raise
        self.starts += 1
        self.cfg = cfg
        self.logpos = 0
        self.new_log()
        return self

    def drop(self):
        if self.sq is not None:
            self.kicks += self.sq.kicks
            self.sq.cleanup()
            self.sq = None

    def stop(self):
        self.drop()

    def new_log(self):
        try:
            with open(os.path.join(self.sq.dir, 'cache.log'), 'rb') as f:
                f.seek(self.logpos)
                d = f.read()
        except OSError:
            return ''
        self.logpos += len(d)
        return d.decode('latin1')

    def reconfigure(self, cfg):
        sq = self.sq
        sq.conf_extra = conf_text(*cfg)
        sq.write_conf()
        sq._chown()
        self.new_log()
        sq.signal(signal.SIGHUP)
        seen = ''
        for i in range(60):
            sq.advance(50, rounds=1)
            if not sq.alive():
                raise HarnessError('squid exited during reconfiguration: ' + sq.cache_log()[-1200:])
            seen += self.new_log()
            if 'Accepting HTTP Socket connections' in seen:
                break
        else:
            raise HarnessError('reconfiguration did not finish: ' + sq.cache_log()[-1200:])
        # the parser only complains (and still installs the line) when an action is named by two lines
        if 'Reconfiguring Squid Cache' not in seen or re.search(r'FATAL|ERROR|WARNING', re.sub(r".*ERROR: action '\w+' \(line \d+\) already has a password.*", '', seen)):
            raise HarnessError('unexpected cache.log content during reconfiguration: ' + seen[-1200:])
        sq.advance(50, rounds=2)
        self.reconfigs += 1
        self.cfg = cfg

    def client(self, src):
        s = socket.socket(socket.AF_INET, socket.SOCK_STREAM)
        # IP_BIND_ADDRESS_NO_PORT (Linux): pick the source port at connect() time, where only the 4-tuple has to be
        # unique; a plain bind((src, 0)) draws from one pool of ~28 k ports per source address for ALL destinations
        # and runs dry (EADDRINUSE) when a fast machine makes more connections than that within TIME_WAIT
        try:
            s.setsockopt(socket.IPPROTO_IP, 24, 1)
        except OSError:
            pass
        s.bind((src, 0))
        s.connect(('127.0.0.1', self.sq.http_port))
        return ls.Conn(s)

    def run_batch(self, reqs, max_steps=30):
        """All reqs in flight together; returns observations {'status', 'reports', 'err'} per request plus the log text
        written meanwhile.  Used for requests that do not name the shutdown action."""
        sq = self.sq
        st = []
        for r in reqs:
            raw, _ = build_request(r, sq.http_port)
            c = self.client(r['src'])
            c.send(raw)
            st.append({'c': c, 'm': None})
        idle = 0
        for step in range(max_steps):
            sq.settle()
            progressed = False
            pending = 0
            for s in st:
                if s['c'].pump():
                    progressed = True
                if s['m'] is None:
                    m = httpref.parse_response(s['c'].inbuf, 'GET', eof=s['c'].eof)
                    if m.error and m.head_complete:
                        raise HarnessError('malformed response: %r (%s)' % (s['c'].inbuf[:200], m.error))
                    if (m.complete and not m.error) or s['c'].eof:
                        s['m'] = m
                    else:
                        pending += 1
            if not pending:
                break
            if not progressed:
                idle += 1
                if idle >= 3:
                    break
            else:
                idle = 0
        out = []
        for s in st:
            m = s['m']
            data = s['c'].inbuf
            out.append({'status': m.status if (m is not None and m.complete and not m.error) else 0,
                        'err': (m.get('X-Squid-Error', '') if m is not None else '').split(' ')[0],
                        'reports': reports_in(data)})
            s['c'].close()
        sq.settle(1)
        return out, self.new_log()

    def shutdown_performed(self, logtext):
        """Did Squid start shutting down?  If so, let virtual time pass and require the exit (the statement's "performed")."""
        sq = self.sq
        if not SHUTDOWN_LOG.search(logtext) and sq.alive():
            return False
        for i in range(40):
            if not sq.alive():
                break
            try:
                sq.advance(250, rounds=1)
            except HarnessError:
                break
        if sq.alive():
            try:
                sq.proc.wait(timeout=10)
            except Exception:
                raise HarnessError('squid logged a shutdown but did not exit: ' + sq.cache_log()[-800:])
        log = sq.cache_log()
        if 'Shutdown by Cache Manager command' not in log:
            raise HarnessError('squid exited without a cache manager shutdown: status %s; %s' % (sq.proc.returncode, log[-1200:]))
        return True

    def problems(self, logtext):
        probs = ['sanitizer: ' + r[:1500] for r in self.sq.asan_reports()]
        for m in re.finditer(r'^.*(assertion failed|FATAL:|dying from an unhandled exception|Received Segment Violation).*$', logtext, re.M):
            probs.append('cache.log: ' + m.group(0)[:300])
        return probs


def names_shutdown(req):
    return 'shutdown' in req['url'].lower()


def judge(cfg, req, ob):
    """ob: {'status', 'reports': [...], 'shutdown': bool}.  Returns (class, violation or None)."""
    lines, hname = cfg
    _, eff = build_request(req, 0)
    allowed = ref_access(hname, req, eff)
    pw = presented_password(req['cred'])
    done = list(ob['reports']) + (['shutdown'] if ob['shutdown'] else [])
    if not done:
        return ('withheld:%s' % ob['status']), None
    for a in done:
        what = 'the %s report was delivered' % a if a != 'shutdown' else 'Squid shut down'
        if not allowed:
            return 'performed', '%s although http_access (%s) denies this client for the manager URL' % (what, hname)
        ok, why = ref_may_perform(a, lines, pw)
        if not ok:
            return 'performed', '%s although %s (request password: %r)' % (what, why, pw)
    return 'performed:' + '+'.join(done), None


class DeadlineCut(Exception):
    pass


def eval_config(w, cfg, reqs, t_end=None):
    """Runs the request product under the loaded configuration.  Returns (transcript, bad [(req, text)], classes, problems).
    Raises DeadlineCut when the tier deadline passes in the middle (a configuration costs up to 16 instance restarts)."""
    def check_time():
        if t_end is not None and time.time() > t_end:
            raise DeadlineCut()
    obs = [None] * len(reqs)
    probs = []
    plain = [i for i, r in enumerate(reqs) if not names_shutdown(r)]
    B = 32
    for k in range(0, len(plain), B):
        idx = plain[k:k + B]
        check_time()
        out, log = w.run_batch([reqs[i] for i in idx])
        probs += w.problems(log)
        if SHUTDOWN_LOG.search(log) or not w.sq.alive():
            # some request that does not even name the shutdown action shut Squid down: find it one by one
            w.start(cfg)
            out = []
            for i in idx:
                o, log = w.run_batch([reqs[i]])
                o[0]['shutdown'] = w.shutdown_performed(log)
                out.append(o[0])
                if o[0]['shutdown']:
                    w.start(cfg)
        for i, o in zip(idx, out):
            o.setdefault('shutdown', False)
            obs[i] = o
    for i, r in enumerate(reqs):
        if not names_shutdown(r):
            continue
        check_time()
        o, log = w.run_batch([r])
        probs += w.problems(log)
        o[0]['shutdown'] = w.shutdown_performed(log)
        obs[i] = o[0]
        if o[0]['shutdown']:
            w.start(cfg)
    # nothing may shut Squid down later either
    w.sq.advance(2500, rounds=1)
    if not w.sq.alive() or SHUTDOWN_LOG.search(w.new_log()):
        raise HarnessError('squid shut down after the requests of [%s] had been judged' % cfg_key(cfg))
    bad = []
    classes = []
    for r, o in zip(reqs, obs):
        cls, v = judge(cfg, r, o)
        classes.append(cls)
        if v:
            bad.append((r, v))
    tr = [(o['status'], tuple(o['reports']), o['shutdown']) for o in obs]
    return tr, bad, classes, probs


def confirm(ctx, shard, cfg, req):
    w = MWorld(ctx, shard, name='c%d' % shard)
    try:
        w.start(cfg)
        tr, bad, classes, probs = eval_config(w, cfg, [req])
        return (bad[0][1] if bad else None), tr[0], probs
    finally:
        w.stop()


ASSUME = ['the real squid binary (ASan build of the current tree) runs under the lock-step/virtual-time shim; the driver plays the '
          'clients (bound to 127.0.0.1 / 127.0.0.2)',
          'configurations after the first of an instance are loaded with SIGHUP; per shard one configuration is run both on an instance '
          'started directly with it and after a reconfiguration (thorough: two separate instances) and must give the same transcript; '
          'after every performed shutdown a fresh instance is started',
          'reports are recognised by text markers of the info, menu and config reports; other actions are outside the bound',
          'when two cachemgr_passwd lines cover the same action the documentation does not define precedence: the oracle accepts what '
          'either line permits (Squid uses the first covering line)']
RULE = ('evaluations = (configuration, request) executions; non-trivial = executions in which the decision depended on the password or '
        'on http_access, i.e. requests naming an existing action (info/menu/config/shutdown, exact spelling) that were either performed '
        'or refused with 401/403 (not the 404 of an unknown/disabled action)')
RESTART_EVERY = 40
MAX_VIOLATIONS_PER_SHARD = 5


def make_worker(ctx):
    t_end = ctx.t0 + ctx.deadline_s - 25

    REQUESTS = requests_of(ctx.tier)

    def worker(shard, items):
        res = {'configs': 0, 'evaluations': 0, 'nontrivial': 0, 'classes': {}, 'violations': [], 'crashes': [], 'deadline_hit': False,
               'starts': 0, 'reconfigs': 0, 'kicks': 0, 'samples': [], 'det_checked': 0, 'performed_by_action': {},
               'shutdowns': 0, 'refused_401': 0, 'refused_403': 0, 'watchdog_retries': 0,
               'performed_under_conflicting_lines': 0, 'of_these_permitted_by_first_line': 0}
        det = {}
        first_tr = None
        if ctx.quick and items:
            # quick: no separate instance; the shard starts its instance directly with its cheapest configuration (the list is
            # sorted by restart cost), and loads it once more by reconfiguration after the sweep: same transcript required
            items = [items[-1]] + items[:-1]
        elif items:
            i = len(items) // 2
            for attempt in range(2):
                w0 = MWorld(ctx, shard, name='d%d' % shard)
                try:
                    w0.start(items[i])
                    det[i] = eval_config(w0, items[i], REQUESTS)[0]
                    break
                except HarnessError as e:
                    # the engine's real-time watchdog can expire on an overloaded machine: retry once on a fresh instance
                    if attempt or 'watchdog' not in str(e):
                        raise
                    res['watchdog_retries'] += 1
                finally:
                    w0.stop()
                    res['starts'] += w0.starts
                    res['kicks'] += w0.kicks
        w = MWorld(ctx, shard)
        try:
            since = 0
            for n, cfg in enumerate(items):
                if time.time() > t_end:
                    res['deadline_hit'] = True
                    break
                for attempt in range(2):
                    try:
                        if w.sq is None or since >= RESTART_EVERY or w.cfg is None:
                            w.start(cfg)
                            since = 0
                        else:
                            w.reconfigure(cfg)
                        since += 1
                        direct = (w.reconfigs == 0)
                        tr, bad, classes, probs = eval_config(w, cfg, REQUESTS, t_end + 15)
                        if ctx.quick and n == 0 and direct:
                            first_tr = tr
                        break
                    except DeadlineCut:
                        tr = None
                        break
                    except HarnessError as e:
                        if attempt or 'watchdog' not in str(e):
                            raise
                        res['watchdog_retries'] += 1
                        res['starts'] += w.starts
                        res['reconfigs'] += w.reconfigs
                        w.stop()
                        res['kicks'] += w.kicks
                        w = MWorld(ctx, shard)
                if tr is None:
                    res['deadline_hit'] = True
                    break
                res['configs'] += 1
                res['evaluations'] += len(REQUESTS)
                if n in det:
                    if det[n] != tr:
                        diff = [(req_key(r), a, b) for r, a, b in zip(REQUESTS, det[n], tr) if a != b]
                        raise HarnessError('nondeterminism: configuration [%s] gave different transcripts when started directly and when '
                                           'loaded by reconfiguration: %r' % (cfg_key(cfg), diff[:5]))
                    res['det_checked'] += 1
                for r, t, cls in zip(REQUESTS, tr, classes):
                    res['classes'][cls] = res['classes'].get(cls, 0) + 1
                    exact = action_named(r['url']) in ACTIONS
                    if exact and (cls.startswith('performed') or t[0] in (401, 403)):
                        res['nontrivial'] += 1
                    if t[0] == 401:
                        res['refused_401'] += 1
                    if t[0] == 403:
                        res['refused_403'] += 1
                    for a in list(t[1]) + (['shutdown'] if t[2] else []):
                        if a != 'shutdown':
                            res['performed_by_action'][a] = res['performed_by_action'].get(a, 0) + 1
                        # where the oracle is lenient: two lines cover the action and only one of them permits it
                        cover = [l for l in cfg[0] if a in l[1] or 'all' in l[1]]
                        pw = presented_password(r['cred'])
                        if len(cover) == 2 and sum(1 for l in cover if ref_may_perform(a, [l], pw)[0]) == 1:
                            res['performed_under_conflicting_lines'] += 1
                            if ref_may_perform(a, [cover[0]], pw)[0]:
                                res['of_these_permitted_by_first_line'] += 1
                    if t[2]:
                        res['shutdowns'] += 1
                if len(res['samples']) < 2 and (n == 0 or n % 3 == 1):
                    res['samples'].append({'config': cfg_key(cfg),
                                           'performed': [req_key(r) + ' -> ' + c for r, c in zip(REQUESTS, classes) if c.startswith('performed')][:5],
                                           'refused': [req_key(r) + ' -> %s' % t[0] for r, t in zip(REQUESTS, tr) if t[0] in (401, 403)][:3]})
                if probs:
                    res['crashes'].append((cfg_key(cfg), '; '.join(probs)[:2500], cfg))
                if bad:
                    # the confirmation instance uses this shard's port block: take the sweep instance down first
                    res['starts'] += w.starts
                    res['reconfigs'] += w.reconfigs
                    w.stop()
                    res['kicks'] += w.kicks
                    w = MWorld(ctx, shard)
                for req, text in bad[:2]:
                    v2 = None
                    for attempt in range(2):
                        v2, t2, p2 = confirm(ctx, shard, cfg, req)
                        res['starts'] += 1
                        if v2:
                            break
                    if not v2:
                        raise HarnessError('violation not reproducible on a fresh instance: [%s] %s: %s' % (cfg_key(cfg), req_key(req), text))
                    res['violations'].append(('[%s] %s' % (cfg_key(cfg), req_key(req)), v2, {'cfg': cfg, 'req': req}))
                if len(res['violations']) >= MAX_VIOLATIONS_PER_SHARD:
                    res['deadline_hit'] = True
                    break
            if first_tr is not None and len(items) > 1 and not res['deadline_hit'] and not res['violations'] and w.sq is not None \
                    and time.time() < t_end:
                try:
                    w.reconfigure(items[0])
                    tr2 = eval_config(w, items[0], REQUESTS, t_end + 15)[0]
                    if tr2 != first_tr:
                        diff = [(req_key(r), a, b) for r, a, b in zip(REQUESTS, first_tr, tr2) if a != b]
                        raise HarnessError('nondeterminism: configuration [%s] gave different transcripts when started directly and when '
                                           'loaded by reconfiguration: %r' % (cfg_key(items[0]), diff[:5]))
                    res['det_checked'] += 1
                except DeadlineCut:
                    res['deadline_hit'] = True
        finally:
            w.stop()
            res['starts'] += w.starts
            res['reconfigs'] += w.reconfigs
            res['kicks'] += w.kicks
        return res
    return worker


def run(ctx):
    ls.build_squid(ctx)
    # reference self-test on hand-computed cases from the documentation
    assert ref_may_perform('shutdown', [], 'secret')[0] is False
    assert ref_may_perform('info', [], None)[0] is True
    assert ref_may_perform('info', [('secret', ['info'])], None)[0] is False
    assert ref_may_perform('info', [('secret', ['info'])], 'secret')[0] is True
    assert ref_may_perform('menu', [('secret', ['all'])], 'wrong')[0] is False
    assert ref_may_perform('shutdown', [('disable', ['shutdown'])], 'secret')[0] is False
    assert ref_may_perform('shutdown', [('none', ['shutdown'])], None)[0] is True
    assert ref_access('H1', {'src': '127.0.0.2'}, 'http://squid.verif:1/squid-internal-mgr/info') is False
    assert ref_access('H1', {'src': '127.0.0.1'}, 'http://squid.verif:1/squid-internal-mgr/info') is True
    assert ref_access('H3', {'src': '127.0.0.2'}, 'http://squid.verif:1/squid-internal-mgr/info') is True
    space = config_space(ctx.tier)
    # quick: 8 shards (every shard costs two instance starts before its first configuration)
    parts = [p for p in ls.run_sharded(ctx, make_worker(ctx), space, nshards=(min(8, ctx.ncpu) if ctx.quick else None)) if p]
    tot = lambda k: sum(p[k] for p in parts)
    classes, perf = {}, {}
    for p in parts:
        for k, v in p['classes'].items():
            classes[k] = classes.get(k, 0) + v
        for k, v in p['performed_by_action'].items():
            perf[k] = perf.get(k, 0) + v
    vio = []
    for p in parts:
        vio += [Violation(k, what, rp) for k, what, rp in p['violations']]
        vio += [Violation('crash:[%s]' % k, 'squid crashed/asserted while serving manager requests under [%s]: %s' % (k, what), {'cfg': cfg, 'req': None})
                for k, what, cfg in p['crashes']]
    deadline_hit = any(p['deadline_hit'] for p in parts)
    if not vio and not deadline_hit:
        for a in ('info', 'menu', 'config'):
            if not perf.get(a):
                raise HarnessError('vacuity guard: the %s report was never delivered: %r' % (a, perf))
        if tot('shutdowns') == 0 or tot('refused_401') == 0 or tot('refused_403') == 0:
            raise HarnessError('vacuity guard: shutdowns %d, 401 %d, 403 %d' % (tot('shutdowns'), tot('refused_401'), tot('refused_403')))
        if tot('det_checked') < len([p for p in parts if p['configs'] > 1]) and not tot('watchdog_retries'):
            raise HarnessError('determinism obligation not exercised in every shard')
    samples = []
    for p in parts:
        samples += p['samples'][:1]
    configs = tot('configs')
    cov = {'evaluations': tot('evaluations'), 'distinct_nontrivial': tot('nontrivial'), 'rule': RULE, 'samples': samples[:6],
           'exhaustive': (not deadline_hit) and configs == len(space), 'configurations': configs, 'configurations_total': len(space),
           'requests_per_configuration': len(requests_of(ctx.tier)),
           'subspace': 'all lists of <= 2 distinct cachemgr_passwd lines (ordered) from a pool of %d x %d http_access sections x %d URL forms x %d '
                       'credential forms x 2 client addresses' % (QUICK_POOL if ctx.quick else len(PASSWD_POOL), 2 if ctx.quick else 3, len(URLS_QUICK if ctx.quick else URLS_THOROUGH), len(CREDS)),
           'outcome_classes': classes, 'reports_delivered': perf, 'shutdowns_performed': tot('shutdowns'),
           'refused_401': tot('refused_401'), 'refused_403': tot('refused_403'), 'instance_starts': tot('starts'),
           'reconfigurations': tot('reconfigs'), 'start_vs_reconfigure_crosschecks': tot('det_checked'), 'kicks': tot('kicks'),
           'watchdog_retries': tot('watchdog_retries'),
           'performed_under_conflicting_lines': tot('performed_under_conflicting_lines'),
           'of_these_permitted_by_first_line': tot('of_these_permitted_by_first_line')}
    return Result(LEVEL, cov, vio, ASSUME)


def replay(ctx, data):
    ls.build_squid(ctx)
    cfg = ([(pw, list(a)) for pw, a in data['cfg'][0]], data['cfg'][1])
    vio = []
    if data.get('req'):
        v, t, probs = confirm(ctx, 0, cfg, data['req'])
        print('[%s] %s -> %r %r' % (cfg_key(cfg), req_key(data['req']), t, probs))
        if v:
            vio.append(Violation('[%s] %s' % (cfg_key(cfg), req_key(data['req'])), v, data))
    else:
        w = MWorld(ctx, 0)
        try:
            w.start(cfg)
            tr, bad, classes, probs = eval_config(w, cfg, requests_of('thorough'))
            print(probs)
            if probs:
                vio.append(Violation('crash:[%s]' % cfg_key(cfg), '; '.join(probs)[:2500], data))
        finally:
            w.stop()
    return Result(LEVEL, {}, vio, ASSUME)
