"""C34 Each transaction yields exactly one well-delimited access.log record — E3 (real squid, lock-step) + E1 (quoting code).

E3 half: one client + one origin + the Basic-auth helper, all played by the driver, around the real ASan squid.
Squid writes two custom access logs: `main` (every client-controlled %code under each of the four quoting
modifiers `"` `[` `#` `/` and, where the code's documented default is an encoding, under the default too; literal
sentinels at both ends), `raw` (the codes whose documented default is "as-is", unmodified).  Every case
is ONE transaction carrying ONE hostile byte string in ONE client-controlled position.  After the transaction each
log must have grown by exactly one LF-terminated line without any other CR/LF; the `main` line is lexed by an
independent lexer that knows only the logformat specification and the documented quoting rules, each field is
decoded by a reference un-quoter written from the squid.conf documentation, all encodings of one %code must decode
to the same bytes, and for a forwarded request those bytes must be the value the client sent.

E1 half (C34_quote.cc): the real Format::Format::parse/assemble quoting switch, Format::QuoteMimeBlob,
rfc1738_do_escape and strwordquote over every string of bounded length over a hostile alphabet.
"""
import base64
import itertools
import os
import re
import signal
import time

from vverif import lockstep as ls
from vverif import seq
from vverif.core import Result, Violation, HarnessError

LEVEL = 'exploration'

# ------------------------------------------------------------------ logformat under test

# (key, %code text after the modifier, documented default encoding is raw/as-is?)
CODES = [
    ('rm', 'rm', False), ('>rm', '>rm', False), ('<rm', '<rm', False),
    ('ru', 'ru', True), ('>ru', '>ru', False), ('<ru', '<ru', False),
    ('rp', 'rp', False), ('>rp', '>rp', False), ('<rp', '<rp', False),
    ('>rd', '>rd', False), ('<rd', '<rd', False),
    ('h:X-V', '{X-V}>h', False), ('h:User-Agent', '{User-Agent}>h', False), ('h:Referer', '{Referer}>h', False),
    ('ha:X-V', '{X-V}>ha', False),
    ('hl:X-L', '{X-L:;k2}>h', False),
    ('>h', '>h', False), ('>ha', '>ha', False),
    ('un', 'un', True), ('ul', 'ul', True), ('credentials', 'credentials', True),
]
# Q and M: no modifier on the %code, but the code stands between literal "..." / [...] in the format text, which makes the
# logformat parser select the quoted-string / mime-blob encoding for it (this is how the documented definitions of the
# built-in formats, e.g.  "%{User-Agent}>h",  are meant)
MODS = [('q', '"'), ('m', '['), ('u', '#'), ('s', '/'), ('d', ''), ('Q', ''), ('M', '')]
MODNAME = {'q': 'quoted-string(%")', 'm': 'mime-blob(%[)', 'u': 'url(%#)', 's': 'shell(%/)', 'd': 'default',
           'Q': 'quoted-string("%code")', 'M': 'mime-blob([%code])'}


def main_spec():
    """List of lexer items for the `main` log: ('lit', text) | (mod, key)."""
    spec = [('lit', 'BEGIN')]
    for key, code, raw in CODES:
        for m, ch in MODS:
            if m == 'd' and raw:
                continue
            spec.append((m, key))
    spec.append(('lit', 'END'))
    return spec


def format_text(spec):
    codes = dict((k, c) for k, c, r in CODES)
    out = []
    for kind, v in spec:
        if kind == 'lit':
            out.append(v)
            continue
        code = codes[v]
        if kind == 'q':
            out.append('"%%"%s"' % code)
        elif kind == 'm':
            out.append('[%%[%s]' % code)
        elif kind == 'u':
            out.append('%%#%s' % code)
        elif kind == 's':
            out.append('%%/%s' % code)
        elif kind == 'Q':
            out.append('"%%%s"' % code)
        elif kind == 'M':
            out.append('[%%%s]' % code)
        else:
            out.append('%%%s' % code)
    return ' '.join(out)


RAW_KEYS = [k for k, c, r in CODES if r]
RAW_FORMAT = 'RAWBEGIN ' + ' '.join('%' + c for k, c, r in CODES if r) + ' RAWEND'

# ------------------------------------------------------------------ reference un-quoters (from the squid.conf logformat documentation)

RFC1738_UNSAFE = b'<>"#{}|\\^~[]`\' '


class Bad(Exception):
    pass


def _hex2(b, i):
    """value of the two hex digits after the %% at b[i], or None"""
    h = b[i + 1:i + 3]
    if len(h) == 2 and re.match(rb'^[0-9A-Fa-f]{2}$', h):
        return int(h, 16)
    return None


def unq_quoted(raw):
    """inside of "...": \\" \\\\ \\r \\n \\t are the only escapes; no raw CR LF TAB " allowed."""
    out = bytearray()
    i = 0
    while i < len(raw):
        c = raw[i]
        if c == 0x5c:
            if i + 1 >= len(raw):
                raise Bad('dangling backslash')
            n = raw[i + 1]
            m = {0x22: 0x22, 0x5c: 0x5c, 0x72: 13, 0x6e: 10, 0x74: 9}.get(n)
            if m is None:
                raise Bad('undocumented escape \\%s' % chr(n))
            out.append(m)
            i += 2
            continue
        if c in (13, 10, 9, 0x22):
            raise Bad('raw byte 0x%02x inside a quoted-string field' % c)
        out.append(c)
        i += 1
    return bytes(out)


def unq_mime(raw):
    """inside of [...]: %HH; the implementation's \\r \\n \\\\ spellings of CR LF backslash are accepted as an
    equally reversible variant of the documented %0d %0a %5c; raw bytes must be in 32..126 and not [ ] ."""
    out = bytearray()
    i = 0
    while i < len(raw):
        c = raw[i]
        if c == 0x25:
            v = _hex2(raw, i)
            if v is None:
                raise Bad('raw %% that is not a %%HH escape inside a mime-blob field')
            out.append(v)
            i += 3
            continue
        if c == 0x5c:
            if i + 1 >= len(raw):
                raise Bad('dangling backslash')
            m = {0x5c: 0x5c, 0x72: 13, 0x6e: 10}.get(raw[i + 1])
            if m is None:
                raise Bad('undocumented escape \\%s in a mime-blob field' % chr(raw[i + 1]))
            out.append(m)
            i += 2
            continue
        if c < 32 or c > 126 or c in b'[]':
            raise Bad('raw byte 0x%02x inside a mime-blob field' % c)
        out.append(c)
        i += 1
    return bytes(out)


def unq_url(raw):
    """%HH everywhere; no raw control, space, 8-bit, RFC 1738 unsafe byte, nor a % that is not an escape."""
    out = bytearray()
    i = 0
    while i < len(raw):
        c = raw[i]
        if c == 0x25:
            v = _hex2(raw, i)
            if v is None:
                raise Bad('raw %% that is not a %%HH escape inside a URL-encoded field')
            out.append(v)
            i += 3
            continue
        if c <= 32 or c >= 127 or c in RFC1738_UNSAFE:
            raise Bad('raw byte 0x%02x inside a URL-encoded field' % c)
        out.append(c)
        i += 1
    return bytes(out)


def unq_shell(raw, quoted):
    """\\" \\\\ \\r \\n escapes; SP only inside surrounding quotes; no raw CR LF or unescaped quote."""
    out = bytearray()
    i = 0
    while i < len(raw):
        c = raw[i]
        if c == 0x5c:
            if i + 1 >= len(raw):
                raise Bad('dangling backslash')
            m = {0x22: 0x22, 0x5c: 0x5c, 0x72: 13, 0x6e: 10}.get(raw[i + 1])
            if m is None:
                raise Bad('undocumented escape \\%s in a shell-quoted field' % chr(raw[i + 1]))
            out.append(m)
            i += 2
            continue
        if c in (13, 10, 0x22):
            raise Bad('raw byte 0x%02x inside a shell-quoted field' % c)
        if c == 32 and not quoted:
            raise Bad('raw SP in an unquoted shell field')
        out.append(c)
        i += 1
    return bytes(out)


def pct_decode(raw):
    out = bytearray()
    i = 0
    while i < len(raw):
        if raw[i] == 0x25:
            v = _hex2(raw, i)
            if v is not None:
                out.append(v)
                i += 3
                continue
        out.append(raw[i])
        i += 1
    return bytes(out)


def check_default(raw):
    """pass-through URL encoding: like URL encoding, but % is left alone (so it is not reversible by design)."""
    for c in raw:
        if c <= 32 or c >= 127 or c in RFC1738_UNSAFE:
            raise Bad('raw byte 0x%02x inside a pass-through-URL-encoded field' % c)


def lex_line(line, spec):
    """Split one log line (without its LF) according to the format spec.  Returns list of (mod, key, decoded|None,
    rawfield) or raises Bad(with .item) at the first field that does not lex/decode."""
    pos = 0
    out = []
    n = len(line)
    for idx, (kind, v) in enumerate(spec):
        last = idx == len(spec) - 1

        def fail(msg, kind=kind, v=v, pos=pos):
            e = Bad('%s (field %s of %s at byte %d: %r)' % (msg, MODNAME.get(kind, 'literal'), v, pos, line[pos:pos + 80]))
            e.item = (kind, v)
            return e
        if kind == 'lit':
            lit = v.encode()
            if line[pos:pos + len(lit)] != lit:
                raise fail('expected literal %r' % v)
            end = pos + len(lit)
            raw = None
            dec = None
        elif kind in ('q', 'Q') or (kind == 's' and line[pos:pos + 1] == b'"'):
            if line[pos:pos + 1] != b'"':
                raise fail('expected opening quote')
            i = pos + 1
            while i < n and line[i] != 0x22:
                i += 2 if line[i] == 0x5c else 1
            if i >= n:
                raise fail('unterminated quoted field')
            raw = line[pos + 1:i]
            end = i + 1
            try:
                dec = unq_quoted(raw) if kind in ('q', 'Q') else unq_shell(raw, True)
            except Bad as e:
                raise fail(str(e))
        elif kind in ('m', 'M'):
            if line[pos:pos + 1] != b'[':
                raise fail('expected opening bracket')
            i = line.find(b']', pos + 1)
            if i < 0:
                raise fail('unterminated bracketed field')
            raw = line[pos + 1:i]
            end = i + 1
            try:
                dec = unq_mime(raw)
            except Bad as e:
                raise fail(str(e))
        else:
            i = line.find(b' ', pos)
            if i < 0:
                i = n
            raw = line[pos:i]
            end = i
            if not raw:
                raise fail('empty field')
            try:
                if kind == 'u':
                    dec = unq_url(raw)
                elif kind == 's':
                    dec = unq_shell(raw, False)
                else:
                    check_default(raw)
                    dec = None
            except Bad as e:
                raise fail(str(e))
        if last:
            if end != n:
                raise fail('%d extra bytes after the last field' % (n - end))
        else:
            if line[end:end + 1] != b' ':
                raise fail('field is not followed by the SP separator of the format (next bytes %r)' % line[end:end + 12])
            end += 1
        out.append((kind, v, dec, raw))
        pos = end
    return out


# ------------------------------------------------------------------ built-in formats (reference lexers = their documented logformat definitions)

_MIME = rb' \[([^\[\]]*)\] \[([^\[\]]*)\]'
BUILTIN = {
    # squid:    %ts.%03tu %6tr %>a %Ss/%03>Hs %<st %rm %ru %[un %Sh/%<a %mt  [+ mime headers with log_mime_hdrs on]
    'squid': (re.compile(rb'^ *\d+\.\d{3} +\d+ (?P<client>\S+) (?P<code>[A-Z_]+)/(?P<status>\d{3}) (?P<size>\d+) (?P<method>\S+) (?P<url>\S+) '
                         rb'(?P<user>\S+) (?P<hier>[A-Z_]+)/(?P<peer>\S+) (?P<mt>\S+)' + _MIME + rb'$'), True),
    # common:   %>a - %[un [%tl] "%rm %ru HTTP/%rv" %>Hs %<st %Ss:%Sh
    'common': (re.compile(rb'^(?P<client>\S+) - (?P<user>\S+) \[[^\]]+\] "(?P<method>\S+) (?P<url>\S+) [A-Z]+/\d+\.\d+" (?P<status>\d+) (?P<size>\d+) '
                          rb'(?P<code>[A-Z_]+):(?P<hier>[A-Z_]+)' + _MIME + rb'$'), True),
    # combined: ... %<st "%{Referer}>h" "%{User-Agent}>h" %Ss:%Sh
    'combined': (re.compile(rb'^(?P<client>\S+) - (?P<user>\S+) \[[^\]]+\] "(?P<method>\S+) (?P<url>\S+) [A-Z]+/\d+\.\d+" (?P<status>\d+) (?P<size>\d+) '
                            rb'"(?P<referer>(?:[^"\\]|\\.)*)" "(?P<ua>(?:[^"\\]|\\.)*)" (?P<code>[A-Z_]+):(?P<hier>[A-Z_]+)' + _MIME + rb'$'), True),
    # referrer: %ts.%03tu %>a %{Referer}>h %ru
    'referrer': (re.compile(rb'^ *\d+\.\d{3} (?P<client>\S+) (?P<referer>\S+) (?P<url>\S+)$'), False),
    # useragent: %>a [%tl] "%{User-Agent}>h"
    'useragent': (re.compile(rb'^(?P<client>\S+) \[[^\]]+\] "(?P<ua>(?:[^"\\]|\\.)*)"$'), False),
}

# ------------------------------------------------------------------ hostile values and cases

SYMS = {
    'CR': b'\r', 'LF': b'\n', 'CRLF': b'\r\n', 'DQ': b'"', 'BS': b'\\', 'RB': b']', 'LB': b'[', 'SP': b' ', 'TAB': b'\t',
    'PCT0A': b'%0a', 'PCT': b'%', 'PCTZZ': b'%zz', 'NUL': b'\x00', 'SOH': b'\x01', 'DEL': b'\x7f', 'xFF': b'\xff',
    'x80': b'\x80', 'SQ': b"'", 'HASH': b'#', 'LT': b'<', 'BSn': b'\\n', 'BSDQ': b'\\"', 'DQSP': b'" ', 'RBSP': b'] ',
    'SEMI': b';', 'n': b'n',
}
SINGLES = ['CR', 'LF', 'CRLF', 'DQ', 'BS', 'RB', 'LB', 'SP', 'TAB', 'PCT0A', 'PCT', 'PCTZZ', 'NUL', 'SOH', 'DEL', 'xFF', 'x80',
           'SQ', 'HASH', 'LT', 'BSn', 'BSDQ', 'DQSP', 'RBSP', 'SEMI']
CORE = ['CR', 'LF', 'DQ', 'BS', 'RB', 'SP', 'TAB', 'PCT', 'xFF', 'SOH', 'n', 'LB']
POSITIONS = ['method', 'host', 'path', 'query', 'hdr', 'ua', 'referer', 'listmember', 'user', 'password']
PLACES = ['mid', 'end', 'start']
URIWS = ['strip', 'encode', 'chop', 'allow', 'deny']


def hostile_bytes(names):
    return b''.join(SYMS[x] for x in names)


def embed(prefix, h, place, n):
    tag = b'%s%dq' % (prefix, n)
    if place == 'mid':
        return tag + h + b'z'
    if place == 'end':
        return tag + h
    return h + tag


def tier_cases(ctx, cfg):
    """Cases (dicts) of one uri_whitespace configuration for this tier."""
    quick = ctx.quick
    out = []
    url_pos = ('host', 'path', 'query')
    for pos in POSITIONS:
        if cfg != 'strip' and pos not in url_pos:
            continue            # uri_whitespace only changes URL handling
        for place in PLACES:
            if place == 'start' and pos in ('method', 'host'):
                continue
            for s in SINGLES:
                out.append({'pos': pos, 'h': [s], 'place': place, 'cfg': cfg})
        # all strings of length 2..depth over the core alphabet
        if cfg == 'strip':
            depth = (3 if pos in ('hdr', 'user') else 2) if quick else (4 if pos in ('hdr', 'user') else 3)
        else:
            depth = 0 if quick else (3 if pos in ('path', 'query') else 2)
        for ln in range(2, depth + 1):
            for combo in itertools.product(CORE, repeat=ln):
                out.append({'pos': pos, 'h': list(combo), 'place': 'mid', 'cfg': cfg})
    if cfg == 'strip':
        for s in SINGLES:
            out.append({'pos': 'user', 'h': [s], 'place': 'mid', 'cfg': cfg, 'auth': 'ERR'})
        out.append({'pos': 'none', 'h': [], 'place': 'mid', 'cfg': cfg})
        # several transactions on one client connection: k requests one after the other / pipelined in one write
        for kind in ('seq', 'pipe'):
            for k in (2, 3, 5):
                for s in ('DQ', 'BS', 'SP', 'RB', 'xFF', 'PCT', 'TAB'):
                    out.append({'pos': 'hdr', 'h': [s], 'place': 'mid', 'cfg': cfg, 'batch': kind, 'k': k})
    base = (URIWS.index(cfg) + 1) * 1000000
    for i, c in enumerate(out):
        c['n'] = base + i * 8          # nonce: a function of the case, not of the instance's history (batches use n..n+k-1)
    return out


def build_request(w, case, n):
    """Request bytes + what the client sent per logformat key (None where the position makes the value unknowable)."""
    h = hostile_bytes(case['h'])
    pos, place = case['pos'], case['place']

    def val(p, prefix):
        return embed(prefix, h, place, n) if pos == p else b'%s%dq' % (prefix, n)
    method = val('method', b'GET') if pos == 'method' else b'GET'
    host = b'127.0.0.1'
    if pos == 'host':
        host = embed(b'h', h, place, n) + b'.127.0.0.1'
    path = b'/' + val('path', b'p')
    query = b'k=' + val('query', b'y')
    hostport = host + b':%d' % w.origin_port
    url = b'http://' + hostport + path + b'?' + query
    xv = val('hdr', b'v')
    ua = val('ua', b'agent')
    ref = b'http://r.test/' + val('referer', b'r')
    lm = val('listmember', b'm')
    user = val('user', b'u')
    pw = val('password', b'w')
    cred = base64.b64encode(user + b':' + pw)
    req = (method + b' ' + url + b' HTTP/1.1\r\nHost: ' + hostport + b'\r\nUser-Agent: ' + ua + b'\r\nReferer: ' + ref +
           b'\r\nX-V: ' + xv + b'\r\nX-L: k1=a; k2=' + lm + b'; k3=c\r\nProxy-Authorization: Basic ' + cred + b'\r\n\r\n')
    sent = {'method': method, 'url': url, 'pathq': path + b'?' + query, 'host': host, 'X-V': xv, 'User-Agent': ua, 'Referer': ref,
            'listmember': lm, 'user': user, 'password': pw}
    return req, sent


WS = b' \t\r\n\x0b\x0c'


def strip_ows(v):
    return v.strip(b' \t')


def expectations(case, sent, forwarded):
    """key -> ('exact', bytes) | ('pct', bytes) | ('contains', bytes) | ('any',).  Exact expectations are stated only
    for a request that Squid accepted and forwarded and only where HTTP itself leaves no freedom to the recipient."""
    h = hostile_bytes(case['h'])
    exp = {}
    anyv = ('any',)
    for k, c, r in CODES:
        exp[k] = anyv
    if not forwarded:
        return exp
    framing_bytes = any(b in h for b in (b'\r', b'\n', b'\x00'))
    pos = case['pos']
    cfg = case['cfg']
    # method
    if pos != 'method' or not (framing_bytes or any(b in h for b in WS)):
        for k in ('rm', '>rm', '<rm'):
            exp[k] = ('exact', sent['method'])
    # URL family: modulo %-encoding and the configured whitespace treatment
    urlhost = pos in ('host', 'path', 'query')
    hasws = any(b in h for b in WS) or b'\x00' in h
    if not urlhost or not hasws:
        for k in ('ru', '>ru', '<ru'):
            exp[k] = ('pct', sent['url'])
        for k in ('rp', '>rp', '<rp'):
            exp[k] = ('pct', sent['pathq'])
        if pos != 'host':
            exp['>rd'] = exp['<rd'] = ('exact', sent['host'])
    elif cfg == 'strip' and pos in ('path', 'query') and not framing_bytes:
        rm = bytes(c for c in sent['url'] if c not in WS)
        rmp = bytes(c for c in sent['pathq'] if c not in WS)
        for k in ('ru', '>ru', '<ru'):
            exp[k] = ('pct', rm)
        for k in ('rp', '>rp', '<rp'):
            exp[k] = ('pct', rmp)
    # header fields
    for name, p in (('X-V', 'hdr'), ('User-Agent', 'ua'), ('Referer', 'referer')):
        if pos == p and framing_bytes:
            continue
        v = strip_ows(sent[name])
        exp['h:' + name] = ('exact', v)
        if name == 'X-V':
            exp['ha:X-V'] = ('exact', v)
            exp['>h'] = ('contains', b'X-V: ' + v + b'\r\n')
            exp['>ha'] = ('contains', b'X-V: ' + v + b'\r\n')
    if pos != 'listmember':
        exp['hl:X-L'] = ('exact', sent['listmember'])
    if not (pos in ('user', 'password') and framing_bytes) and b':' not in sent['user']:
        exp['un'] = exp['ul'] = ('exact', sent['user'])
        exp['credentials'] = ('exact', sent['password'])
    return exp


# ------------------------------------------------------------------ world

class LogWorld(ls.World):
    LOGS = ('main', 'raw') + tuple('b_' + k for k in sorted(BUILTIN))

    def __init__(self, ctx, name, port_base, cfg):
        self.cfg = cfg
        self.hubpath = os.path.join(ctx.rundir, name + '.hub')
        self.hub = ls.HelperHub(self.hubpath)
        self.spec = main_spec()
        d = os.path.join(ctx.rundir, name)
        conf = '\n'.join([
            'auth_param basic program %s %s auth' % (ls.helper_path(ctx), self.hubpath),
            'auth_param basic children 1 startup=1 idle=1 concurrency=0',
            'auth_param basic realm verif',
            'auth_param basic credentialsttl 1 hour',
            'acl authed proxy_auth REQUIRED',
            'http_access allow authed',
            'strip_query_terms off',
            'uri_whitespace %s' % cfg,
            'cache deny all',
            'logformat vraw %s' % RAW_FORMAT,
            'access_log stdio:%s/raw.log logformat=vraw' % d,
            'log_mime_hdrs on',
        ] + ['access_log stdio:%s/b_%s.log logformat=%s' % (d, k, k) for k in sorted(BUILTIN)] + [
        ]) + '\n'
        super().__init__(ctx, name, port_base, conf=conf, logformat=format_text(self.spec))
        self.pids = []
        self.helper = None
        self.helper_buf = b''
        self.helper_lines = []
        self.auth_answer = b'OK'
        self.off = dict((k, 0) for k in self.LOGS)

    def start(self):
        try:
            self.sq.start(wait_ready=False)
            for attempt in range(5):        # an overloaded machine can exceed lockstep's 60 s start-up allowance
                try:
                    self.sq.wait_ready()
                    break
                except HarnessError as e:
                    if 'not ready after' not in str(e) or attempt == 4:
                        raise
            hs = self.hub.wait_helpers(1, timeout=60)
            self.helper = hs[0][1]
            self.pids.append(int(hs[0][0].split()[1]))
        except BaseException:
            self.stop()
            raise
        return self

    def _origin_step(self, responder, ex):
        """Lenient origin (a request is whatever ends in an empty line; the cases have no bodies) + the auth helper."""
        progressed = False
        if self.helper is not None:
            self.helper_buf += self.helper.take()
            while b'\n' in self.helper_buf:
                ln, self.helper_buf = self.helper_buf.split(b'\n', 1)
                self.helper_lines.append(ln)
                self.helper.send(self.auth_answer + b'\n')
                progressed = True
        for c in self.origin.accept_all():
            self.oconns.append(ls.OriginConn(c, len(self.oconns)))
            progressed = True
        for oc in self.oconns:
            if oc.c.closed:
                continue
            if oc.c.pump():
                progressed = True
                d, oc.c.inbuf = oc.c.inbuf, b''
                oc.raw += d
                ex.origin_raw += d
                while True:
                    e = oc.raw.find(b'\r\n\r\n', oc.parsed_upto)
                    if e < 0:
                        break
                    head = oc.raw[oc.parsed_upto:e + 4]
                    oc.parsed_upto = e + 4
                    ex.origin_requests.append(head)
                    if responder:
                        oc.c.send(responder(head))
            if oc.c.eof and not oc.c.closed:
                oc.c.close()
                progressed = True
        return progressed

    def new_log_bytes(self):
        out = {}
        for k in self.LOGS:
            name = 'access.log' if k == 'main' else k + '.log'
            try:
                with open(os.path.join(self.sq.dir, name), 'rb') as f:
                    f.seek(self.off[k])
                    d = f.read()
            except OSError:
                d = b''
            self.off[k] += len(d)
            out[k] = d
        return out

    def stop(self):
        try:
            for tag, conn in self.hub.accept_all():
                p = int(tag.split()[1])
                if p not in self.pids:
                    self.pids.append(p)
        except Exception:
            pass
        for p in self.pids:
            try:
                os.kill(p, signal.SIGKILL)
            except OSError:
                pass
        try:
            if self.sq.alive():
                self.sq.kick()
        except Exception:
            pass
        try:
            super().stop()
        finally:
            self.hub.close()
            try:
                os.unlink(self.hubpath)
            except OSError:
                pass


def shard_cfg(ctx, shard, nshards):
    plan = ['strip'] * max(1, nshards - 4) + ['encode', 'chop', 'allow', 'deny']
    if nshards < 5:             # not enough processes (VERIF_JOBS): the default setting only
        plan = ['strip'] * nshards
    return plan[shard]


def hname(case):
    return '+'.join(case['h']) or 'none'


def key_of(case):
    return '%s:%s:%s:%s%s%s' % (case['cfg'], case['pos'], hname(case), case['place'], ':autherr' if case.get('auth') == 'ERR' else '',
                                (':%s%d' % (case['batch'], case['k'])) if case.get('batch') else '')


def field_key(case, kind, key):
    """Stable identity of a finding: which %code under which quoting in which position/hostile class."""
    return 'field:%s:%s:pos=%s:h=%s:uriws=%s' % (key, kind, case['pos'], hname(case), case['cfg'])


def run_case(w, case):
    if case.get('noop'):
        return {'outcome': 'noop', 'violations': [], 'transcript': ''}
    if case['cfg'] != w.cfg:
        raise HarnessError('case for uri_whitespace %s arrived at a %s instance' % (case['cfg'], w.cfg))
    if case.get('batch'):
        return run_batch(w, case)
    n = case['n']
    req, sent = build_request(w, case, n)
    w.auth_answer = case.get('auth', 'OK').encode()
    w.new_log_bytes()       # drain (nothing should be there)

    def responder(head):
        return ('HTTP/1.1 200 OK\r\nDate: %s\r\nContent-Length: 2\r\nConnection: close\r\n\r\n' % ls.http_date(w.sq.now_us)).encode() + b'ok'
    ex = w.fetch(req, responder, method='GET')
    w.close_origin_conns()
    w.sq.settle(1)
    logs = w.new_log_bytes()
    if not logs['main']:
        # the transaction may still be waiting for something (e.g. more header bytes): it is over once the
        # client has gone and the read timeout has passed
        for _ in range(4):
            w.sq.advance(400 * 1000, rounds=2)
            w._origin_step(None, ls.Exchange())
            more = w.new_log_bytes()
            for k in logs:
                logs[k] += more[k]
            if logs['main']:
                break
    status = ex.response.status if ex.response and not ex.response.error else 0
    tag = (b'%dq' % n)
    forwarded = any(tag in r for r in ex.origin_requests) and status == 200
    transcript = 'status=%s forwarded=%s\n' % (status, forwarded) + '\n'.join('%s: %r' % (k, logs[k]) for k in sorted(logs))
    res = {'outcome': ('forwarded' if forwarded else 'status-%s' % status), 'violations': [], 'transcript': transcript,
           'exact': 0, 'encoded': 0, 'records': 0, 'builtin_lexed': 0}

    def bad(vkey, what):
        if vkey not in [k for k, _ in res['violations']]:
            res['violations'].append((vkey, what + ' | request %r' % req[:300]))
    # (1) record count.  A new HTTP message can only start after an LF, so bytes without LF in the hostile value are
    # exactly one transaction; with k LFs the client may have sent up to 1+k messages (e.g. an HTTP/0.9 request line
    # followed by a second request), and at least as many as Squid answered.
    nlf = hostile_bytes(case['h']).count(b'\n')
    resps, rest = w.httpref.parse_responses(ex.client_bytes, ['GET'] * (nlf + 2), eof=ex.client_eof)
    answered = sum(1 for m in resps if m.complete and not m.error)
    lo, hi = max(1, answered), 1 + nlf
    lines = {}
    for k in sorted(logs):
        d = logs[k]
        recs = d.split(b'\n')
        unterminated = recs.pop()
        lines[k] = recs
        if unterminated or b'\r' in d or not (lo <= len(recs) <= hi):
            bad('records:%s:pos=%s:h=%s:uriws=%s' % (k, case['pos'], hname(case), case['cfg']),
                'the %s log grew by %d LF and %d CR for a client byte stream that forms between %d and %d transactions '
                '(%d answered)%s: %r' % (k, d.count(b'\n'), d.count(b'\r'), lo, hi, answered,
                                         ', last record not LF-terminated' if unterminated else '', d[:400]))
    if res['violations']:
        return res
    if len(lines['raw']) != len(lines['main']):
        bad('records:raw-vs-main', 'main log has %d new records, raw log %d' % (len(lines['main']), len(lines['raw'])))
    # (2) raw log: sentinels present (its fields are as-is by documentation, so nothing else is required)
    for rawl in lines['raw']:
        if not rawl.startswith(b'RAWBEGIN '):
            bad('rawlog:begin:pos=%s:h=%s' % (case['pos'], hname(case)), 'raw log record does not start with its sentinel: %r' % rawl[:200])
    # (3) main log: every record must lex completely and its encodings must agree with each other
    parsed = []
    for line in lines['main']:
        try:
            parsed.append(lex_line(line, w.spec))
        except Bad as e:
            bad(field_key(case, e.item[0], e.item[1]), 'main log record is not well delimited: %s | line %r' % (e, line[:300]))
            return res
    res['records'] = len(parsed)
    exp = expectations(case, sent, forwarded and len(parsed) == 1)
    for fields in parsed:
        bykey = {}
        for kind, key, dec, raw in fields:
            if kind != 'lit':
                bykey.setdefault(key, []).append((kind, dec, raw))
        for key, lst in bykey.items():
            decs = [(kind, dec) for kind, dec, raw in lst if dec is not None]
            ref = decs[0][1]
            for kind, dec in decs[1:]:
                if dec != ref:
                    bad(field_key(case, kind, key), '%%%s: %s decodes to %r but %s decodes to %r' % (key, MODNAME[decs[0][0]], ref, MODNAME[kind], dec))
            for kind, dec, raw in lst:
                if kind == 'd' and pct_decode(raw) != pct_decode(ref):
                    bad(field_key(case, 'd', key), '%%%s: default (pass-through URL) encoding %r is not the %%-encoding of the value %r' % (key, raw, ref))
            e = exp.get(key, ('any',))
            if any(raw != b'-' for kind, dec, raw in lst):
                res['encoded'] += 1
            if e[0] == 'any':
                continue
            res['exact'] += 1
            want = e[1]
            for kind, dec in decs:
                got = dec
                ok = True
                if e[0] == 'exact':
                    ok = (got == want) or (want in (b'', b'-') and got == b'-')
                elif e[0] == 'pct':
                    ok = pct_decode(got) == pct_decode(want)
                elif e[0] == 'contains':
                    ok = want in got
                if not ok:
                    bad(field_key(case, kind, key), '%%%s under %s decodes to %r, the client sent %r (%s)' % (key, MODNAME[kind], got[:300], want[:300], e[0]))
                    break
    # (4) built-in formats: every record must match the format's documented definition; captured fields carry the sent values
    h = hostile_bytes(case['h'])
    for name in sorted(BUILTIN):
        rx = BUILTIN[name][0]
        for line in lines['b_' + name]:
            mt = rx.match(line)
            if not mt:
                bad('builtin:%s:pos=%s' % (name, case['pos']),
                    'record of the built-in %s format does not split into the fields of its documented definition: %r' % (name, line[:400]))
                continue
            res['builtin_lexed'] = res.get('builtin_lexed', 0) + 1
            if len(parsed) != 1:
                continue
            g = mt.groupdict()
            checks = []
            try:
                if 'user' in g and exp['un'][0] == 'exact':
                    checks.append(('user', unq_mime(g['user']), exp['un'][1], 'exact'))
                # quoted fields: the quoted-string encoding that the documented definition ("%{User-Agent}>h") selects
                if 'ua' in g and exp['h:User-Agent'][0] == 'exact':
                    checks.append(('ua', unq_quoted(g['ua']), exp['h:User-Agent'][1], 'exact'))
                if 'referer' in g and exp['h:Referer'][0] == 'exact':
                    if name == 'referrer':      # bare field: pass-through URL encoding
                        check_default(g['referer'])
                        checks.append(('referer', g['referer'], exp['h:Referer'][1], 'pct'))
                    else:
                        checks.append(('referer', unq_quoted(g['referer']), exp['h:Referer'][1], 'exact'))
            except Bad as e:
                bad('builtin:%s:pos=%s' % (name, case['pos']), 'field of the built-in %s record is not a legal encoding: %s: %r' % (name, e, line[:300]))
                continue
            if 'method' in g and exp['rm'][0] == 'exact':
                checks.append(('method', g['method'], exp['rm'][1], 'pct'))
            if 'url' in g and exp['ru'][0] == 'pct':
                checks.append(('url', g['url'], exp['ru'][1], 'pct'))
            for what, got, want, how in checks:
                ok = (got == want) if how == 'exact' else (got == want or pct_decode(got) == pct_decode(want))
                if want in (b'', b'-') and got == b'-':
                    ok = True
                if not ok:
                    bad('builtin:%s:pos=%s' % (name, case['pos']),
                        '%s field of the built-in %s record decodes to %r, the client sent %r: %r' % (what, name, got[:200], want[:200], line[:300]))
    return res


def run_batch(w, case):
    """k transactions on ONE client connection (one after the other, or pipelined in a single write): exactly k records
    per log, in request order, each carrying its own request's values."""
    k = case['k']
    reqs = [build_request(w, case, case['n'] + i) for i in range(k)]
    w.auth_answer = b'OK'
    w.new_log_bytes()

    def responder(head):
        return ('HTTP/1.1 200 OK\r\nDate: %s\r\nContent-Length: 2\r\n\r\n' % ls.http_date(w.sq.now_us)).encode() + b'ok'
    c = w.sq.client()
    ex = ls.Exchange()
    got = 0

    def pump_until(nresp):
        idle = 0
        for _ in range(60):
            w.sq.settle()
            progressed = w._origin_step(responder, ex)
            if c.pump():
                progressed = True
            resps, rest = w.httpref.parse_responses(c.inbuf, ['GET'] * (k + 1), eof=c.eof)
            done = sum(1 for m in resps if m.complete and not m.error)
            if done >= nresp and not progressed:
                return done
            idle = 0 if progressed else idle + 1
            if idle >= 3:
                return done
        return done
    if case['batch'] == 'pipe':
        c.send(b''.join(r for r, _ in reqs))
        got = pump_until(k)
    else:
        for i, (r, _) in enumerate(reqs):
            c.send(r)
            got = pump_until(i + 1)
    c.close()
    w.sq.settle(1)
    w.close_origin_conns()
    w.sq.settle(1)
    logs = w.new_log_bytes()
    res = {'outcome': 'batch-%s-%d-answered-%d' % (case['batch'], k, got), 'violations': [], 'exact': 0, 'encoded': 0, 'records': 0,
           'builtin_lexed': 0, 'transcript': 'answered=%d\n' % got + '\n'.join('%s: %r' % (x, logs[x]) for x in ('main', 'raw'))}

    def bad(vkey, what):
        if vkey not in [x for x, _ in res['violations']]:
            res['violations'].append((vkey, what))
    if got != k:
        raise HarnessError('batch case %s: only %d of %d requests were answered' % (key_of(case), got, k))
    for name in sorted(logs):
        d = logs[name]
        if d.count(b'\n') != k or not d.endswith(b'\n') or b'\r' in d:
            bad('records:%s:batch-%s' % (name, case['batch']), '%d transactions on one connection (%s) added %d LF / %d CR to the %s log: %r' % (
                k, case['batch'], d.count(b'\n'), d.count(b'\r'), name, d[:500]))
    if res['violations']:
        return res
    for i, line in enumerate(logs['main'][:-1].split(b'\n')):
        try:
            fields = lex_line(line, w.spec)
        except Bad as e:
            bad(field_key(case, e.item[0], e.item[1]), 'main log record %d of a batch is not well delimited: %s' % (i, e))
            continue
        res['records'] += 1
        sent = reqs[i][1]
        exp = expectations(case, sent, True)
        for kind, key, dec, raw in fields:
            if kind == 'lit' or dec is None:
                continue
            e = exp.get(key, ('any',))
            if e[0] == 'exact':
                res['exact'] += 1
                if dec != e[1]:
                    bad('batch:%s:%s:%s' % (case['batch'], key, kind), 'record %d of the batch: %%%s under %s decodes to %r, request %d sent %r' % (
                        i, key, MODNAME[kind], dec[:200], i, e[1][:200]))
        res['encoded'] = 21
    for name in sorted(BUILTIN):
        for line in logs['b_' + name][:-1].split(b'\n'):
            if BUILTIN[name][0].match(line):
                res['builtin_lexed'] += 1
            else:
                bad('builtin:%s:pos=%s' % (name, case['pos']), 'record of the built-in %s format does not split into the fields of its documented definition: %r' % (name, line[:300]))
    return res


ASSUME = ['the real squid binary (ASan build of the current tree) runs under the lock-step/virtual-time shim; client, origin and the '
          'Basic-auth helper are played by the driver',
          'field separator of the formats under test is SP, record separator LF; the reference un-quoters implement the squid.conf '
          'logformat documentation of the four encodings (for the mime-blob encoding the implementation\'s \\r \\n \\\\ spellings are '
          'accepted next to the documented %0d %0a %5c because they are equally reversible)',
          'the \' (as-is) modifier and the default of the codes documented as as-is (%ru %un %ul %credentials) are not quoting options: '
          'for them only the record count / no-line-break requirement is checked',
          'exact value comparison only for requests that were forwarded to the origin and only where HTTP leaves the recipient no '
          'freedom (no CR/LF/NUL inside the value); URL codes are compared modulo %-encoding and the configured uri_whitespace treatment']

RULE = ('E3 (real squid): one transaction per case; 10 client-controlled positions {method, URL host, path, query, X-V / User-Agent / '
        'Referer value, list member, Basic user, Basic password} x hostile value {25 single hostile tokens at start/middle/end; every '
        'string of length 2..d over the 12-symbol core alphabet CR LF " \\ ] [ SP TAB % 0xFF 0x01 n, d = 2 (quick; 3 for header value and '
        'user name) or 3 (thorough; 4 for header value and user name)} x uri_whitespace {strip (everything), encode/chop/allow/deny (URL '
        'positions; thorough also strings of length 2..3)}; plus 42 batches of 2/3/5 transactions on one connection (sequential and '
        'pipelined); each transaction is logged with 21 %codes x {%" %[ %# %/ default "%code" [%code]} in one custom format, as-is in a second one and by the '
        '5 built-in formats (log_mime_hdrs on). E1 (Format::assemble + quoting functions): every string of length <= 4 (thorough 5) over '
        '14 hostile symbols, every 1- and 2-byte string (thorough: 3-byte strings behind 12 first bytes), 270 long values around the '
        '512/1024-byte scratch-buffer limits. non-trivial = E3 transactions whose main record carried at least 10 non-dash %code groups '
        '+ E1 strings for which at least one escape sequence had to be produced')


def plan_shards(ctx, nshards):
    """Per shard: (uri_whitespace setting, its cases)."""
    cfgs = [shard_cfg(ctx, s, nshards) for s in range(nshards)]
    per = [[] for _ in range(nshards)]
    total = 0
    for cfg in sorted(set(cfgs)):
        shards = [s for s in range(nshards) if cfgs[s] == cfg]
        cs = tier_cases(ctx, cfg)
        total += len(cs)
        for i, c in enumerate(cs):
            per[shards[i % len(shards)]].append(c)
    return cfgs, per, total


DETERMINISM_N = 12


def run_e3(ctx):
    """Exhaustively run the tier's cases, sharded over processes (one squid instance per shard; the first DETERMINISM_N
    cases of every shard are run on a first instance and again on a second, fresh one: transcripts must be identical;
    every violation key is confirmed by re-running its case, the first of a shard on a fresh instance)."""
    import time as _t
    ls.build_squid(ctx)
    # a case costs ~5 ms but an instance start several seconds (more when many start at once): few shards
    nshards = max(1, min(ctx.ncpu, 8 if ctx.quick else 12))
    cfgs, per, total = plan_shards(ctx, nshards)
    t_end = ctx.t0 + ctx.deadline_s - 15

    def worker(shard, _items):
        items = per[shard]
        out = {'evaluations': 0, 'outcomes': {}, 'violations': {}, 'crashes': [], 'samples': [], 'deadline_hit': False, 'kicks': 0,
               'replays': 0, 'rich': 0, 'exact_tx': 0, 'exact_fields': 0, 'records': 0, 'builtin_lexed': 0, 'starts': 0}
        st = {'w': None}

        def fresh():
            if st['w'] is not None:
                out['kicks'] += st['w'].sq.kicks
                st['w'].stop()
            st['w'] = LogWorld(ctx, 'w%d' % shard, ls.port_base_for_check(ctx.pid, shard), cfgs[shard])
            st['w'].start()
            out['starts'] += 1

        def one(case):
            r = run_case(st['w'], case)
            hp = st['w'].sq.health_problems()
            if hp:
                r['crash'] = hp
                fresh()
            return r
        try:
            fresh()
            first = []
            for case in items[:DETERMINISM_N]:
                first.append(one(case))
                out['replays'] += 1
            fresh()
            for n, case in enumerate(items):
                if _t.time() > t_end:
                    out['deadline_hit'] = True
                    break
                r = one(case)
                out['evaluations'] += 1
                if n < len(first) and (first[n]['transcript'] != r['transcript'] or first[n]['outcome'] != r['outcome']):
                    raise HarnessError('nondeterminism: case %s gave different transcripts on two instances:\n%r\n%r' % (
                        key_of(case), first[n]['transcript'][:700], r['transcript'][:700]))
                oc = r['outcome']
                if r.get('crash'):
                    oc = 'squid-crashed'
                    out['crashes'].append((key_of(case), '; '.join(r['crash'])[:3000], case))
                out['outcomes'][oc] = out['outcomes'].get(oc, 0) + 1
                out['rich'] += 1 if r.get('encoded', 0) >= 10 else 0
                out['exact_tx'] += 1 if r.get('exact', 0) >= 10 else 0
                out['exact_fields'] += r.get('exact', 0)
                out['records'] += r.get('records', 0)
                out['builtin_lexed'] += r.get('builtin_lexed', 0)
                if len(out['samples']) < 2 and n % 211 == 5:
                    out['samples'].append({'case': key_of(case), 'outcome': oc, 'request_head': repr(build_request(st['w'], case, case['n'])[0][:160])})
                for vkey, what in r['violations']:
                    if vkey in out['violations']:
                        out['violations'][vkey]['count'] += 1
                        continue
                    confirmed = False
                    for attempt in range(3):
                        if len(out['violations']) < 1 or attempt > 0:
                            fresh()
                        r2 = one(case)
                        out['replays'] += 1
                        if vkey in [k for k, _ in r2['violations']]:
                            confirmed = True
                            break
                    if not confirmed:
                        raise HarnessError('violation %s not reproducible for case %s: %s' % (vkey, key_of(case), what[:500]))
                    out['violations'][vkey] = {'what': '[case %s] %s' % (key_of(case), what), 'case': case, 'count': 1}
                if len(out['violations']) >= 60:
                    out['deadline_hit'] = True
                    break
        finally:
            if st['w'] is not None:
                out['kicks'] += st['w'].sq.kicks
                st['w'].stop()
        return out
    parts = ls.run_sharded(ctx, worker, list(range(nshards)), nshards)
    agg = {'evaluations': 0, 'outcomes': {}, 'violations': {}, 'crashes': [], 'samples': [], 'deadline_hit': False, 'kicks': 0, 'replays': 0,
           'rich': 0, 'exact_tx': 0, 'exact_fields': 0, 'records': 0, 'builtin_lexed': 0, 'starts': 0, 'total': total,
           'uri_whitespace_of_shards': cfgs}
    for p in parts:
        for k in ('evaluations', 'kicks', 'replays', 'rich', 'exact_tx', 'exact_fields', 'records', 'builtin_lexed', 'starts'):
            agg[k] += p[k]
        agg['deadline_hit'] = agg['deadline_hit'] or p['deadline_hit']
        for k, v in p['outcomes'].items():
            agg['outcomes'][k] = agg['outcomes'].get(k, 0) + v
        for k, v in p['violations'].items():
            if k in agg['violations']:
                agg['violations'][k]['count'] += v['count']
            else:
                agg['violations'][k] = v
        agg['crashes'] += p['crashes']
        agg['samples'] += p['samples'][:1]
    agg['samples'] = agg['samples'][:6]
    return agg


def _build_e1(ctx):
    """Like seq.build(ctx, 'tests/testCacheManager', ['C34_quote.cc'], tree_sources=[Quoting.cc, rfc1738.cc]) — same objects,
    same libraries, everything re-made from the current tree and re-linked on every run — except that the libtool shell
    script is not run for the link itself: resolving this link set's ~40 .la files takes libtool 60-110 s here, the
    actual link 4 s.  The g++ command libtool resolves to is cached under a key made of the libtool command line and the
    contents of every .la file it names (the only inputs of that resolution)."""
    import hashlib
    import shlex
    import subprocess
    linkset, subdir, name = 'tests/testCacheManager', 'src', 'C34q'
    ctx.vbuild('%s:%s' % (subdir, linkset))
    libdirs = seq.lib_dirs_of(ctx, subdir, linkset)
    ctx.vbuild(*(['%s:all' % d for d in libdirs] + ['%s:%s' % (subdir, linkset)]))
    d = os.path.join(ctx.tree, subdir)
    exe = os.path.join(ctx.objdir, name)
    env = dict(os.environ, CCACHE_DIR=os.environ.get('VERIF_CCACHE', '/var/tmp/squid-verif/ccache'))
    ub = ['-fsanitize=undefined', '-fno-sanitize-recover=undefined']
    jobs = [(os.path.join(ctx.home, 'checks', 'C34_quote.cc'), os.path.join(ctx.objdir, name + '-harness.o'), []),
            (os.path.join(d, 'format/Quoting.cc'), os.path.join(ctx.objdir, name + '-tree-Quoting.o'), ub),
            (os.path.join(ctx.tree, 'lib/rfc1738.cc'), os.path.join(ctx.objdir, name + '-tree-rfc1738.o'), ub)]
    objs = []
    for src, obj, extra in jobs:
        cmd = ['ccache', 'g++'] + seq.cxxflags(ctx, subdir) + extra + ['-I' + d, '-I' + os.path.dirname(src), '-c', src, '-o', obj]
        r = subprocess.run(cmd, capture_output=True, text=True, env=env, cwd=d)
        if r.returncode != 0:
            raise HarnessError('compile failed: %s\n%s' % (src, r.stderr[-3000:]))
        objs.append(obj)
    toks = shlex.split(seq._link_line(ctx, subdir, linkset))
    out = []
    skip = False
    for t in toks:
        if skip:
            skip = False
            continue
        if t == '-o':
            out += ['-o', exe]
            skip = True
        elif t == linkset + '.o':
            out += objs
        elif t == '-lcppunit' or re.match(r'^tests/test[A-Za-z0-9_]*\.o$', t):
            continue
        else:
            out.append(t)
    out += seq.SAN + ['-fsanitize=undefined']
    hsh = hashlib.sha1('\0'.join(out).encode())
    for t in out:
        if t.endswith('.la'):
            with open(os.path.join(d, t), 'rb') as f:
                hsh.update(f.read())
    cache = os.path.join(ctx.objdir, name + '.linkcmd.' + hsh.hexdigest()[:16])
    if os.path.exists(cache):
        with open(cache) as f:
            cmd = f.read()
    else:
        r = subprocess.run(out[:2] + ['-n'] + out[2:], capture_output=True, text=True, cwd=d, env=env)
        lines = [l for l in r.stdout.splitlines() if l.startswith('libtool: link: ') and 'g++' in l and ' -o ' in l]
        if r.returncode != 0 or not lines:
            raise HarnessError('libtool could not resolve the link command: ' + (r.stdout + r.stderr)[-2000:])
        cmd = lines[-1][len('libtool: link: '):]
        with open(cache, 'w') as f:
            f.write(cmd)
    if os.path.exists(exe):
        os.unlink(exe)
    r = subprocess.run(cmd, shell=True, capture_output=True, text=True, cwd=d, env=env)
    if r.returncode != 0 or not os.path.exists(exe):
        raise HarnessError('link failed:\n' + r.stderr[-4000:])
    return exe


def run_long_records(ctx):
    """Records longer than the 64 KB log buffer (native squid / common / combined formats with log_mime_hdrs on, whose
    records are written in several pieces): every transaction must still produce exactly one line, in order, and the
    file must end with a newline.  Returns (violations, number of records checked)."""
    pb = ls.port_base_for_check(ctx.pid, 0, slot=1)
    w = ls.World(ctx, 'longrec', pb, memory_cache=False)
    d = w.sq.dir
    fmts = ('squid', 'common', 'combined')
    w.sq.conf_extra += '\nlog_mime_hdrs on\n' + ''.join('access_log stdio:%s/lr_%s.log logformat=%s\n' % (d, f, f) for f in fmts)
    pads = [None, b'[' * 30000, None, b'a' * 45000, b']' * 22000, None]     # quoted: 90 KB, 45 KB, 66 KB
    vio = []
    w.start()
    try:
        for k, pad in enumerate(pads):
            req = ('GET %s HTTP/1.1\r\nHost: %s\r\n' % (w.url('/lr/t%dz' % k), w.hostport())).encode('latin1')
            if pad is not None:
                req += b'X-Pad: ' + pad + b'\r\n'
            req += b'\r\n'

            def responder(m):
                return ('HTTP/1.1 200 OK\r\nDate: %s\r\nContent-Length: 2\r\nCache-Control: no-store\r\n\r\nok' % ls.http_date(w.sq.now_us)).encode('latin1')
            ex = w.fetch(req, responder)
            w.close_origin_conns()
            if not (ex.response and ex.response.complete and ex.response.status == 200):
                raise HarnessError('long-record family: transaction %d was not answered 200: %r' % (k, ex.client_bytes[:200]))
        w.sq.settle(2)
        hp = w.sq.health_problems()
        if hp:
            vio.append(Violation('longrec:crash', 'squid crashed/asserted while logging long records: %s' % '; '.join(hp)[:1500], {'case': {'longrec': True}}))
        nrec = 0
        for f in fmts:
            try:
                data = open(os.path.join(d, 'lr_%s.log' % f), 'rb').read()
            except OSError:
                data = b''
            lines = data.split(b'\n')
            problems = []
            if not data.endswith(b'\n'):
                problems.append('the file does not end with a newline')
            lines = lines[:-1] if data.endswith(b'\n') else lines
            if len(lines) != len(pads):
                problems.append('%d lines for %d transactions' % (len(lines), len(pads)))
            for i, ln in enumerate(lines[:len(pads)]):
                tags = re.findall(rb'/lr/t(\d+)z', ln)
                if not tags or any(int(t) != i for t in tags):
                    problems.append('line %d carries the URL tag(s) %r (expected only t%d): %r ... %r' % (i, [t.decode() for t in tags][:4], i, ln[:80], ln[-60:]))
                    break
                nrec += 1
            if problems:
                vio.append(Violation('longrec:%s' % f, 'log_mime_hdrs on, built-in %s format, records of up to 90 KB: %s' % (f, '; '.join(problems)[:900]),
                                     {'case': {'longrec': True}}))
        return vio, nrec
    finally:
        w.stop()


def run(ctx):
    # ---- E1 half
    exe = _build_e1(ctx)
    ls.build_squid(ctx)
    t0 = time.time()
    m = seq.run(ctx, exe, deadline_s=60 if ctx.quick else 420)
    vio = [Violation('e1:' + v.key, v.what, v.replay) for v in seq.violations_from(m)]
    c1 = m['counters']
    e1_nontrivial = m['outcomes'].get('escaped-something', 0)
    if not m['deadline_hit'] and not vio:
        if e1_nontrivial < 10000 or m['outcomes'].get('passed-through', 0) < 100 or c1.get('direct_function_comparisons', 0) < 10000 \
                or c1.get('long_values', 0) < 100:
            raise HarnessError('vacuity guard (E1): %r %r' % (m['outcomes'], c1))
    t1 = time.time()
    # ---- E3 half
    r = run_e3(ctx)
    t2 = time.time()
    oc = r['outcomes']
    evals = r['evaluations']
    fwd = sum(v for k, v in oc.items() if k.startswith('forwarded'))
    rej = sum(v for k, v in oc.items() if k.startswith('status-'))
    vio += [Violation(k, '%s (%d case(s) with this key)' % (v['what'], v['count']), {'case': v['case']}) for k, v in sorted(r['violations'].items())]
    for k, what, c in r['crashes']:
        vio.append(Violation('crash:' + k, 'squid crashed/asserted during case %s: %s' % (k, what), {'case': c}))
    if not r['deadline_hit']:
        if fwd < evals // 4 or rej < 20 or r['exact_tx'] < evals // 4 or r['builtin_lexed'] < evals:
            raise HarnessError('vacuity guard (E3): forwarded=%d rejected=%d exact-compared=%d builtin=%d of %d: %r' % (
                fwd, rej, r['exact_tx'], r['builtin_lexed'], evals, oc))
    lr_vio, lr_records = run_long_records(ctx)
    vio += lr_vio
    if not lr_vio and lr_records < 18:
        raise HarnessError('vacuity guard (long records): only %d records checked' % lr_records)
    cov = {'evaluations': evals + m['evaluations'] + 6, 'distinct_nontrivial': r['rich'] + e1_nontrivial, 'rule': RULE,
           'samples': r['samples'] + [{'e1_case': x} for x in m['samples'][:3]],
           'exhaustive': not r['deadline_hit'] and evals == r['total'] and not m['deadline_hit'],
           'e3': {'transactions_cases': evals, 'cases_total': r['total'], 'nontrivial': r['rich'], 'outcome_classes': oc,
                  'forwarded': fwd, 'rejected_or_unanswered': rej, 'transactions_with_exact_value_comparison': r['exact_tx'],
                  'code_groups_compared_with_sent_value': r['exact_fields'], 'main_records_lexed': r['records'],
                  'builtin_records_lexed': r['builtin_lexed'], 'kicks': r['kicks'], 'squid_starts': r['starts'],
                  'determinism_replays': r['replays'], 'fields_per_main_record': len(main_spec()) - 2,
                  'uri_whitespace_of_shards': r['uri_whitespace_of_shards'], 'deadline_hit': r['deadline_hit']},
           'long_record_family': {'transactions': 6, 'native_formats': 3, 'records_checked': lr_records},
           'wall_s_build_e1_e3': [round(t0 - ctx.t0, 1), round(t1 - t0, 1), round(t2 - t1, 1)],
           'e1': {'strings': m['evaluations'], 'nontrivial': e1_nontrivial, 'outcome_classes': m['outcomes'], 'counters': c1,
                  'deadline_hit': m['deadline_hit']}}
    return Result(LEVEL, cov, vio, ASSUME, [])


def replay(ctx, data):
    if 'case' in data and isinstance(data['case'], dict):
        ls.build_squid(ctx)
        case = data['case']
        w = LogWorld(ctx, 'w0', ls.port_base_for_check(ctx.pid, 0), case['cfg'])
        w.start()
        try:
            r = run_case(w, case)
            print(r['transcript'])
        finally:
            w.stop()
        return Result(LEVEL, {}, [Violation(k, what, data) for k, what in r['violations']], ASSUME)
    if isinstance(data.get('case'), str):
        exe = _build_e1(ctx)
        m = seq.replay_case(ctx, exe, data['case'])
        m.setdefault('deadline_hit', False)
        return Result(LEVEL, {}, [Violation('e1:' + v.key, v.what, v.replay) for v in seq.violations_from(m)], ASSUME)
    raise HarnessError('unknown replay data')
