"""C04 Hop-by-hop and proxy credential headers are not relayed — E3, bounded input product.

One client + one origin around the real squid binary (lock-step).  Every case plants a field with a
unique marker value on one side (client request or origin response) together with a Connection
header naming it in one of the list-syntax variants, or one of the standard hop-by-hop fields, and
checks that the marker does not show up on the other side.
"""
from vverif import lockstep as ls
from vverif.core import Result, Violation, HarnessError

LEVEL = 'exploration'

# Connection-list syntaxes that all name the token N (RFC 9110 7.6.1: case-insensitive tokens, OWS, empty elements)
LIST_SYNTAX = [
    ('plain', lambda n: ['Connection: %s' % n]),
    ('lower', lambda n: ['Connection: %s' % n.lower()]),
    ('upper', lambda n: ['Connection: %s' % n.upper()]),
    ('ows', lambda n: ['Connection:   %s  ' % n]),
    ('tab', lambda n: ['Connection:\t%s' % n]),
    ('with-close', lambda n: ['Connection: %s, close' % n]),
    ('after-keep-alive', lambda n: ['Connection: keep-alive, %s' % n]),
    ('before-keep-alive-bws', lambda n: ['Connection: %s ,keep-alive' % n]),
    ('empty-elements', lambda n: ['Connection: ,%s,' % n]),
    ('empty-elements-ows', lambda n: ['Connection: , , %s' % n]),
    ('middle', lambda n: ['Connection: foo, %s, bar' % n]),
    ('two-fields-second', lambda n: ['Connection: keep-alive', 'Connection: %s' % n]),
    ('two-fields-first', lambda n: ['Connection: %s' % n, 'Connection: keep-alive']),
    ('lc-field-name', lambda n: ['connection: %s' % n]),
    ('uc-field-name', lambda n: ['CONNECTION: %s' % n]),
    ('no-space', lambda n: ['Connection:%s' % n]),
]

# (name, value-with-marker) per direction; values are valid for their field so that Squid has no other reason to drop them
REQ_FIELDS = [
    ('X-Verif-Ext', 'vmk-%d-zq'),
    ('Cookie', 'vmk=%d-zq'),
    ('Authorization', 'Bearer vmk-%d-zq'),
    ('If-Modified-Since', None),          # typed: unique date
    ('Range', None),                      # typed: unique range
    ('Accept', 'text/vmk-%d-zq'),
    ('Accept-Language', 'vmk-%d-zq'),
]
RESP_FIELDS = [
    ('X-Verif-Ext', 'vmk-%d-zq'),
    ('Set-Cookie', 'vmk=%d-zq'),
    ('ETag', '"vmk-%d-zq"'),
    ('Content-Language', 'vmk-%d-zq'),
    ('X-Cache-Verif', 'vmk-%d-zq'),
    ('Server', 'vmk-%d-zq'),
]
HOP_REQ = [
    ('Keep-Alive', 'timeout=5, vmk%d=zq'),
    ('TE', 'trailers, vmk%d-zq'),
    ('Trailer', 'X-Vmk%d-Zq'),
    ('Upgrade', 'vmk%d-zq/1'),
    ('Proxy-Connection', 'keep-alive, vmk%d-zq'),
    ('Proxy-Authorization', 'Basic dm1r%dOnpx'),
    ('Connection', 'vmk%d-zq'),
]
HOP_RESP = [
    ('Keep-Alive', 'timeout=5, vmk%d=zq'),
    ('Trailer', 'X-Vmk%d-Zq'),
    ('Upgrade', 'vmk%d-zq/1'),
    ('Proxy-Connection', 'keep-alive, vmk%d-zq'),
    ('Proxy-Authenticate', 'Basic realm="vmk%d-zq"'),
    ('Connection', 'vmk%d-zq'),
    ('TE', 'vmk%d-zq'),
]


def all_cases():
    cases = []
    n = 1000
    for direction, fields in (('req', REQ_FIELDS), ('resp', RESP_FIELDS)):
        for fname, tmpl in fields:
            for sname, _ in LIST_SYNTAX:
                n += 1
                cases.append({'kind': 'listed', 'dir': direction, 'field': fname, 'syntax': sname, 'n': n})
    for direction, fields in (('req', HOP_REQ), ('resp', HOP_RESP)):
        for fname, tmpl in fields:
            for listed in (False, True):
                n += 1
                cases.append({'kind': 'hop', 'dir': direction, 'field': fname, 'listed': listed, 'n': n})
    # chunked request bodies: upstream Transfer-Encoding, if any, is exactly Squid's own chunked coding
    for te in ('chunked', 'Chunked', 'chunked ', 'gzip, chunked'):
        n += 1
        cases.append({'kind': 'te', 'dir': 'req', 'te': te, 'n': n})
    return cases


def _field_value(case, fields):
    n = case['n']
    for fname, tmpl in fields:
        if fname == case['field']:
            if tmpl is not None:
                v = tmpl % n
                return v, v.split('=')[0] if False else v
            if fname == 'If-Modified-Since':
                v = 'Sat, 01 Jan 2000 00:%02d:%02d GMT' % ((n // 60) % 60, n % 60)
                return v, v
            if fname == 'Range':
                v = 'bytes=%d-%d' % (n, n + 7)
                return v, v
    raise HarnessError('no field ' + case['field'])


def make_world(ctx, shard):
    return ls.World(ctx, 'w%d' % shard, ls.port_base_for_check(ctx.pid, shard))


def run_case(w, case):
    n = case['n']
    path = '/c%d' % n
    req_extra, resp_extra = [], []
    marker = None
    body = b''
    if case['kind'] == 'listed':
        fields = REQ_FIELDS if case['dir'] == 'req' else RESP_FIELDS
        value, marker = _field_value(case, fields)
        syn = dict(LIST_SYNTAX)[case['syntax']]
        lines = syn(case['field']) + ['%s: %s' % (case['field'], value)]
        (req_extra if case['dir'] == 'req' else resp_extra).extend(lines)
    elif case['kind'] == 'hop':
        fields = HOP_REQ if case['dir'] == 'req' else HOP_RESP
        tmpl = dict(fields)[case['field']]
        value = tmpl % n
        marker = ('vmk%d' % n) if 'dm1r' not in value else ('dm1r%d' % n)
        if case['field'].lower() == 'trailer':
            marker = 'Vmk%d' % n
        lines = ['%s: %s' % (case['field'], value)]
        if case['listed'] and case['field'] != 'Connection':
            lines.insert(0, 'Connection: %s' % case['field'])
        (req_extra if case['dir'] == 'req' else resp_extra).extend(lines)
    else:
        req_extra.append('Transfer-Encoding: %s' % case['te'])
        body = b'5\r\nhello\r\n0\r\n\r\n'
    method = 'POST' if case['kind'] == 'te' else 'GET'
    req = ('%s %s HTTP/1.1\r\nHost: %s\r\n' % (method, w.url(path), w.hostport())) + ''.join(l + '\r\n' for l in req_extra) + '\r\n'
    req = req.encode('latin1') + body
    rbody = b'body-%d' % n

    def responder(m):
        h = 'HTTP/1.1 200 OK\r\nDate: %s\r\nContent-Length: %d\r\nCache-Control: no-store\r\n' % (ls.http_date(w.sq.now_us), len(rbody))
        h += ''.join(l + '\r\n' for l in resp_extra) + '\r\n'
        return h.encode('latin1') + rbody
    ex = w.fetch(req, responder)
    w.close_origin_conns()
    origin_raw = ex.origin_raw.decode('latin1')
    client_raw = ex.client_bytes.decode('latin1')
    transcript = 'O:' + origin_raw + '\nC:' + client_raw
    status = ex.response.status if ex.response and not ex.response.error else 0
    violation = None
    if case['kind'] == 'te':
        outcome = 'te:forwarded' if ex.origin_requests else 'te:not-forwarded(status %s)' % status
        for m in ex.origin_requests:
            tes = m.get_all('transfer-encoding')
            if tes and [t.strip().lower() for t in tes] != ['chunked']:
                violation = 'upstream Transfer-Encoding is %r, not Squid\'s own chunked coding' % tes
            if tes and (m.framing != 'chunked' or m.body != b'hello'):
                violation = 'upstream chunked body is not a valid chunked coding of the client body: %r' % m.body[:50]
        # an incompletely parsed upstream message is also a failure of "valid chunked coding"
        if ex.origin_raw and not ex.origin_requests:
            violation = 'upstream bytes do not form a complete valid request: %r' % ex.origin_raw[:200]
        return {'outcome': outcome, 'violation': violation, 'transcript': transcript}
    if case['dir'] == 'req':
        if not ex.origin_requests:
            outcome = 'req:not-forwarded(status %s)' % status
        else:
            outcome = 'req:forwarded'
            if marker.lower() in origin_raw.lower():
                line = [l for l in origin_raw.split('\r\n') if marker.lower() in l.lower()]
                violation = 'client %s (%s) reached the origin: %r' % (
                    ('field named in Connection [%s]' % case['syntax']) if case['kind'] == 'listed' else 'hop-by-hop field', case['field'], line[:2])
    else:
        if status != 200:
            outcome = 'resp:status-%s' % status
        else:
            outcome = 'resp:delivered'
        if marker.lower() in client_raw.lower():
            line = [l for l in client_raw.split('\r\n') if marker.lower() in l.lower()]
            violation = 'origin %s (%s) reached the client: %r' % (
                'field named in Connection' if case['kind'] == 'listed' else 'hop-by-hop field', case['field'], line[:2])
    return {'outcome': outcome, 'violation': violation, 'transcript': transcript}


def key_of(case):
    if case['kind'] == 'listed':
        # identity of a finding = direction + field (i.e. the branch of the header filter that handles that
        # field); the list syntax that exposed it is part of the description
        return '%s:listed:%s' % (case['dir'], case['field'])
    if case['kind'] == 'hop':
        return '%s:hop:%s:%s' % (case['dir'], case['field'], 'listed' if case['listed'] else 'unlisted')
    return 'req:te:%s' % case['te']


ASSUME = ['the real squid binary (ASan build of the current tree) runs under the lock-step/virtual-time shim; client and origin are played by the driver',
          'markers are unique per case, so an occurrence on the far side can only come from the planted field',
          'quoted-string list members are not treated as naming a field (not a token) and are not enumerated']
RULE = ('product of direction {request, response} x planted field (7 request / 6 response end-to-end fields incl. registered ones) x '
        '16 Connection list syntaxes; plus 7 standard hop-by-hop fields per direction, listed and unlisted; plus 4 request Transfer-Encoding spellings; '
        'non-trivial = cases in which the message was actually forwarded/delivered (so the filter ran)')


def run(ctx):
    ls.build_squid(ctx)
    cases = all_cases()
    r = ls.run_cases(ctx, cases, run_case, make_world, key_of=key_of)
    oc = r['outcomes']
    forwarded = sum(v for k, v in oc.items() if k in ('req:forwarded', 'resp:delivered', 'te:forwarded'))
    if forwarded < len(cases) // 2 and not r['violations']:
        raise HarnessError('vacuity guard: only %d of %d cases were forwarded: %r' % (forwarded, len(cases), oc))
    vio = [Violation(k, what, {'case': c}) for k, what, c in r['violations']]
    obs = ['squid problem during %s: %s' % (k, what[:300]) for k, what, c in r['crashes']]
    vio += [Violation('crash:' + k, 'squid crashed/asserted during case %s: %s' % (k, what), {'case': c}) for k, what, c in r['crashes']]
    cov = {'evaluations': r['evaluations'], 'distinct_nontrivial': forwarded, 'rule': RULE, 'samples': r['samples'],
           'outcome_classes': oc, 'exhaustive': not r['deadline_hit'] and r['evaluations'] == len(cases), 'kicks': r['kicks'],
           'determinism_replays': r['replays'], 'cases_total': len(cases)}
    return Result(LEVEL, cov, vio, ASSUME, obs)


def replay(ctx, data):
    ls.build_squid(ctx)
    w = make_world(ctx, 0)
    w.start()
    try:
        r = run_case(w, data['case'])
        print(r['transcript'])
    finally:
        w.stop()
    v = [Violation(key_of(data['case']), r['violation'], data)] if r['violation'] else []
    return Result(LEVEL, {}, v, ASSUME)
